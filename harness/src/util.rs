use std::collections::HashMap;
use std::io::Write;

use rand::rngs::StdRng;
use rand::SeedableRng;

pub struct Args {
    pub kv: HashMap<String, String>,
}

impl Args {
    pub fn parse(a: &[String]) -> Self {
        let mut kv = HashMap::new();
        for s in a {
            if let Some((k, v)) = s.split_once('=') {
                kv.insert(k.to_string(), v.to_string());
            } else {
                kv.insert(s.to_string(), "1".to_string());
            }
        }
        Self { kv }
    }
    pub fn str(&self, k: &str, d: &str) -> String {
        self.kv.get(k).cloned().unwrap_or_else(|| d.to_string())
    }
    pub fn u64(&self, k: &str, d: u64) -> u64 {
        self.kv.get(k).map(|v| v.parse().expect("numeric argument")).unwrap_or(d)
    }
    pub fn has(&self, k: &str) -> bool {
        self.kv.contains_key(k)
    }
}

pub fn rng(seed: u64) -> StdRng {
    StdRng::seed_from_u64(seed)
}

/// ndjson trace writer; runs are separated by `{"ev":"reset"}` lines.
pub struct TraceOut {
    f: std::io::BufWriter<std::fs::File>,
    pub events: usize,
    pub runs: usize,
}

impl TraceOut {
    pub fn create(path: &str) -> anyhow::Result<Self> {
        if let Some(p) = std::path::Path::new(path).parent() {
            std::fs::create_dir_all(p)?;
        }
        Ok(Self {
            f: std::io::BufWriter::new(std::fs::File::create(path)?),
            events: 0,
            runs: 0,
        })
    }
    pub fn run(&mut self, events: &[String]) -> anyhow::Result<()> {
        if self.runs > 0 {
            writeln!(self.f, "{{\"ev\":\"reset\"}}")?;
            self.events += 1;
        }
        for e in events {
            writeln!(self.f, "{}", e)?;
        }
        self.events += events.len();
        self.runs += 1;
        // complete runs reach the file at once: if the process dies inside the code under test later on, what was
        // recorded so far is still there to be judged
        self.f.flush()?;
        Ok(())
    }
    pub fn finish(mut self) -> anyhow::Result<(usize, usize)> {
        self.f.flush()?;
        Ok((self.runs, self.events))
    }
}

pub fn silence_panics() {
    if std::env::var("XV_PANIC").is_ok() {
        return;
    }
    std::panic::set_hook(Box::new(|_| {}));
}
