//! Hook implementation installed into `utils::verif`: event recorder, schedule controller (blocking and async
//! gates), crash-point callback, clock and parameter overrides.
use std::cell::RefCell;
use std::collections::HashMap;
use std::future::Future;
use std::pin::Pin;
use std::sync::atomic::{AtomicU64, Ordering};
use std::sync::{Arc, Condvar, Mutex};
use std::task::{Context, Poll, Waker};
use std::time::{Duration, Instant};

use utils::verif::Hooks;

thread_local! {
    static THREAD_ACTOR: RefCell<String> = RefCell::new(String::new());
}
tokio::task_local! {
    pub static TASK_ACTOR: String;
}

pub fn set_thread_actor(name: &str) {
    THREAD_ACTOR.with(|a| *a.borrow_mut() = name.to_string());
}

pub fn current_actor() -> String {
    if let Ok(a) = TASK_ACTOR.try_with(|a| a.clone()) {
        return a;
    }
    THREAD_ACTOR.with(|a| a.borrow().clone())
}

#[derive(Default)]
struct ActorState {
    permits: usize,
    parked_at: Option<String>,
    finished: bool,
    arrivals: u64,
    waker: Option<Waker>,
}

#[derive(Default)]
struct SchedInner {
    actors: HashMap<String, ActorState>,
    controlled: bool,
}

pub type CrashFn = dyn Fn(&str, &str) + Send + Sync;

pub struct Ctl {
    events: Mutex<Vec<(u64, String)>>,
    sched: Mutex<SchedInner>,
    cv: Condvar,
    crash: Mutex<Option<Arc<CrashFn>>>,
    clock: AtomicU64,  // 0 = not overridden
    params: Mutex<HashMap<String, u64>>,
    pub watchdog: Duration,
    pub record_sm: std::sync::atomic::AtomicBool,
}

impl Ctl {
    pub fn new() -> Arc<Self> {
        Arc::new(Self {
            events: Mutex::new(Vec::new()),
            sched: Mutex::new(SchedInner::default()),
            cv: Condvar::new(),
            crash: Mutex::new(None),
            record_sm: std::sync::atomic::AtomicBool::new(false),
            clock: AtomicU64::new(0),
            params: Mutex::new(HashMap::new()),
            watchdog: Duration::from_secs(10),
        })
    }

    pub fn install(self: &Arc<Self>) {
        utils::verif::install(self.clone());
    }

    // ---------------------------------------------------------------- recorder
    /// Events recorded so far, in sequence order; clears the buffer.
    pub fn take_events(&self) -> Vec<String> {
        let mut ev = std::mem::take(&mut *self.events.lock().unwrap());
        ev.sort_by_key(|e| e.0);
        ev.into_iter().map(|e| e.1).collect()
    }

    // ---------------------------------------------------------------- overrides
    pub fn set_clock(&self, t: u64) {
        self.clock.store(t, Ordering::SeqCst);
    }
    pub fn set_param(&self, name: &str, v: Option<u64>) {
        let mut p = self.params.lock().unwrap();
        match v {
            Some(v) => {
                p.insert(name.to_string(), v);
            },
            None => {
                p.remove(name);
            },
        }
    }
    pub fn set_crash_fn(&self, f: Option<Arc<CrashFn>>) {
        *self.crash.lock().unwrap() = f;
    }

    // ---------------------------------------------------------------- scheduler
    /// With control on, every gate blocks until the controller grants its actor a permit.
    pub fn set_controlled(&self, on: bool) {
        let mut s = self.sched.lock().unwrap();
        s.controlled = on;
        if !on {
            for a in s.actors.values_mut() {
                if let Some(w) = a.waker.take() {
                    w.wake();
                }
            }
        }
        self.cv.notify_all();
    }

    pub fn reset_sched(&self) {
        let mut s = self.sched.lock().unwrap();
        s.actors.clear();
    }

    /// Grants one permit to the actor (waking it if it waits at an async gate) without waiting for anything.
    pub fn release(&self, actor: &str) {
        let mut s = self.sched.lock().unwrap();
        let a = s.actors.entry(actor.to_string()).or_default();
        a.permits += 1;
        if let Some(w) = a.waker.take() {
            w.wake();
        }
        self.cv.notify_all();
    }

    /// Waits until the actor has consumed every permit it was granted (it passed its gate), or finished.
    pub fn wait_consumed(&self, actor: &str, timeout: Duration) -> bool {
        let deadline = Instant::now() + timeout;
        let mut s = self.sched.lock().unwrap();
        loop {
            match s.actors.get(actor) {
                Some(a) if a.permits > 0 && !a.finished => {},
                _ => return true,
            }
            let now = Instant::now();
            if now >= deadline {
                return false;
            }
            s = self.cv.wait_timeout(s, deadline - now).unwrap().0;
        }
    }

    pub fn reset_actor(&self, actor: &str) {
        let mut s = self.sched.lock().unwrap();
        s.actors.insert(actor.to_string(), ActorState::default());
    }

    /// (gate the actor is parked at, finished)
    pub fn actor_state(&self, actor: &str) -> (Option<String>, bool) {
        let s = self.sched.lock().unwrap();
        match s.actors.get(actor) {
            Some(a) => (if a.permits > 0 { None } else { a.parked_at.clone() }, a.finished),
            None => (None, false),
        }
    }

    /// A value that changes whenever an event is recorded or an actor parks, passes a gate or finishes.
    pub fn activity(&self) -> u64 {
        let n = self.events.lock().unwrap().len() as u64;
        let s = self.sched.lock().unwrap();
        let mut h = n;
        for a in s.actors.values() {
            h = h.wrapping_mul(31).wrapping_add(a.arrivals * 4 + a.permits as u64 * 2 + a.finished as u64);
        }
        h.wrapping_add(s.actors.len() as u64)
    }

    /// true if some actor holds a permit it has not consumed yet (it was released and has not run)
    pub fn any_runnable(&self) -> bool {
        let s = self.sched.lock().unwrap();
        s.actors.values().any(|a| a.permits > 0 && a.parked_at.is_some() && !a.finished)
    }

    pub fn known(&self, actor: &str) -> bool {
        self.sched.lock().unwrap().actors.contains_key(actor)
    }

    pub fn mark_finished(&self, actor: &str) {
        let mut s = self.sched.lock().unwrap();
        s.actors.entry(actor.to_string()).or_default().finished = true;
        self.cv.notify_all();
    }

    /// Lets `actor` pass the gate it is parked at (waiting for it to arrive first) and waits until it is parked
    /// again or finished.  Returns the name of the gate it reached, "finished", or "timeout".
    pub fn step(&self, actor: &str) -> String {
        let deadline = Instant::now() + self.watchdog;
        let mut s = self.sched.lock().unwrap();
        // wait for arrival
        loop {
            let a = s.actors.entry(actor.to_string()).or_default();
            if a.finished {
                return "finished".into();
            }
            if a.parked_at.is_some() {
                break;
            }
            let now = Instant::now();
            if now >= deadline {
                return "timeout".into();
            }
            s = self.cv.wait_timeout(s, deadline - now).unwrap().0;
        }
        let arrivals0;
        {
            let a = s.actors.get_mut(actor).unwrap();
            arrivals0 = a.arrivals;
            a.permits += 1;
            if let Some(w) = a.waker.take() {
                w.wake();
            }
        }
        self.cv.notify_all();
        loop {
            let a = s.actors.get_mut(actor).unwrap();
            if a.finished {
                return "finished".into();
            }
            if a.arrivals > arrivals0 && a.parked_at.is_some() {
                return a.parked_at.clone().unwrap();
            }
            let now = Instant::now();
            if now >= deadline {
                return "timeout".into();
            }
            s = self.cv.wait_timeout(s, deadline - now).unwrap().0;
        }
    }

    /// Where the actor is parked right now (None = running / not yet arrived), waiting up to the watchdog for it to
    /// park or finish.
    pub fn wait_parked(&self, actor: &str) -> String {
        let deadline = Instant::now() + self.watchdog;
        let mut s = self.sched.lock().unwrap();
        loop {
            let a = s.actors.entry(actor.to_string()).or_default();
            if a.finished {
                return "finished".into();
            }
            if let Some(p) = &a.parked_at {
                return p.clone();
            }
            let now = Instant::now();
            if now >= deadline {
                return "timeout".into();
            }
            s = self.cv.wait_timeout(s, deadline - now).unwrap().0;
        }
    }

    /// Non-blocking look at an actor: Some(gate) if parked, Some("finished"), or None while it is running.
    pub fn peek(&self, actor: &str) -> Option<String> {
        let s = self.sched.lock().unwrap();
        match s.actors.get(actor) {
            Some(a) if a.finished => Some("finished".into()),
            Some(a) => a.parked_at.clone(),
            None => None,
        }
    }

    fn blocking_gate(&self, actor: &str, name: &str) {
        let mut s = self.sched.lock().unwrap();
        if !s.controlled {
            return;
        }
        {
            let a = s.actors.entry(actor.to_string()).or_default();
            a.parked_at = Some(name.to_string());
            a.arrivals += 1;
        }
        self.cv.notify_all();
        loop {
            if !s.controlled {
                break;
            }
            let a = s.actors.get_mut(actor).unwrap();
            if a.permits > 0 {
                a.permits -= 1;
                break;
            }
            s = self.cv.wait(s).unwrap();
        }
        if let Some(a) = s.actors.get_mut(actor) {
            a.parked_at = None;
        }
    }

    pub fn async_gate<'a>(self: &'a Arc<Self>, actor: String, name: &'a str) -> GateFut<'a> {
        GateFut {
            ctl: self,
            actor,
            name,
            registered: false,
        }
    }
}

pub struct GateFut<'a> {
    ctl: &'a Ctl,
    actor: String,
    name: &'a str,
    registered: bool,
}

impl Future for GateFut<'_> {
    type Output = ();
    fn poll(mut self: Pin<&mut Self>, cx: &mut Context<'_>) -> Poll<()> {
        let ctl = self.ctl;
        let mut s = ctl.sched.lock().unwrap();
        if !s.controlled {
            if self.registered {
                if let Some(a) = s.actors.get_mut(&self.actor) {
                    a.parked_at = None;
                }
            }
            return Poll::Ready(());
        }
        let first = !self.registered;
        let name = self.name.to_string();
        let a = s.actors.entry(self.actor.clone()).or_default();
        if first {
            a.parked_at = Some(name);
            a.arrivals += 1;
        }
        if a.permits > 0 {
            a.permits -= 1;
            a.parked_at = None;
            a.waker = None;
            drop(s);
            self.registered = true;
            ctl.cv.notify_all();
            return Poll::Ready(());
        }
        a.waker = Some(cx.waker().clone());
        drop(s);
        self.registered = true;
        ctl.cv.notify_all();
        Poll::Pending
    }
}

impl Hooks for Ctl {
    fn event(&self, seq: u64, name: &str, fields: &str) {
        // ShardFileManager events (Sm*) are recorded only by the driver that validates them against ShardManager.tla
        if name.starts_with("Sm") && !self.record_sm.load(Ordering::Relaxed) {
            return;
        }
        let actor = current_actor();
        let line = if fields.is_empty() {
            format!("{{\"ev\":\"{}\",\"actor\":\"{}\"}}", name, actor)
        } else {
            format!("{{\"ev\":\"{}\",\"actor\":\"{}\",{}}}", name, actor, fields)
        };
        self.events.lock().unwrap().push((seq, line));
    }

    fn gate(&self, name: &str, _detail: &str) {
        let actor = current_actor();
        if actor.is_empty() {
            return;
        }
        self.blocking_gate(&actor, name);
    }

    fn agate<'a>(&'a self, name: &'a str, _detail: &'a str) -> Pin<Box<dyn Future<Output = ()> + Send + 'a>> {
        let actor = current_actor();
        if actor.is_empty() {
            return Box::pin(async {});
        }
        Box::pin(GateFut {
            ctl: self,
            actor,
            name,
            registered: false,
        })
    }

    fn crash_point(&self, name: &str, detail: &str) {
        let f = self.crash.lock().unwrap().clone();
        if let Some(f) = f {
            f(name, detail);
        }
    }

    fn clock(&self) -> Option<u64> {
        match self.clock.load(Ordering::SeqCst) {
            0 => None,
            t => Some(t),
        }
    }

    fn param(&self, name: &str) -> Option<u64> {
        self.params.lock().unwrap().get(name).copied()
    }
}

/// Emits a harness-side event through the same sequence counter as the hooks.
pub fn hemit(name: &str, fields: String) {
    utils::verif::emit(name, || fields);
}
