//! Driver for chunk_cache::DiskCache (properties C12, C13; the cache-put part of C19 lives in atomicfs.rs).
//!
//! modes:
//!   mode=sched in=<scenarios>   schedules produced by TLC (Gen_ChunkCache) replayed under gate control
//!   mode=rsched n= seed=        random schedules of 2-3 threads under gate control (FsExact)
//!   mode=seq n= seed=           long single-thread histories with close / damage / plant / re-open (FsExact)
//!   mode=storm n= seed=         free-running threads, small capacity (FsExact = FALSE), read-back at the end
use std::collections::HashMap;
use std::io::Write;
use std::path::{Path, PathBuf};
use std::sync::{Arc, Mutex};

use base64::engine::general_purpose::URL_SAFE;
use base64::Engine;
use cas_types::{ChunkRange, Key};
use chunk_cache::{CacheConfig, ChunkCache, DiskCache};
use merklehash::MerkleHash;
use rand::Rng;
use serde_json::{json, Value};

use crate::ctl::{hemit, set_thread_actor, Ctl};
use crate::util::{Args, TraceOut};

pub struct Content {
    pub keys: Vec<Key>,
    pub names: Vec<String>,
    pub clen: Vec<Vec<u32>>,
    pub cdata: Vec<Vec<Vec<u8>>>,
    pub nch: usize,
    by_bytes: HashMap<Vec<u8>, (usize, usize)>,
    by_keystr: HashMap<String, usize>,
}

impl Content {
    pub fn new(rng: &mut impl Rng, nkeys: usize, nch: usize, maxlen: u32) -> Self {
        Self::new_sized(rng, nkeys, nch, 1, maxlen)
    }

    pub fn new_sized(rng: &mut impl Rng, nkeys: usize, nch: usize, minlen: u32, maxlen: u32) -> Self {
        let mut c = Content {
            keys: vec![],
            names: vec![],
            clen: vec![],
            cdata: vec![],
            nch,
            by_bytes: HashMap::new(),
            by_keystr: HashMap::new(),
        };
        for k in 0..nkeys {
            let mut h = [0u8; 32];
            rng.fill(&mut h);
            let mut prefix = "default".to_string();
            // keys that are neighbours on disk: the same two-character prefix directory (first 12 bits of the hash),
            // or the very same hash under another key prefix (directory names that differ only at their end)
            if k >= 1 {
                let h0: [u8; 32] = c.keys[0].hash.as_bytes().try_into().unwrap();
                match rng.gen_range(0..4) {
                    0 => h[..2].copy_from_slice(&h0[..2]),
                    1 => {
                        h = h0;
                        prefix = format!("other{k}");
                    },
                    2 => prefix = String::new(), // the directory name decodes to exactly the 32 bytes of the hash
                    _ => {},
                }
            }
            let key = Key {
                prefix,
                hash: MerkleHash::from_slice(&h).unwrap(),
            };
            c.by_keystr.insert(key.to_string(), k);
            c.keys.push(key);
            c.names.push(format!("k{}", k + 1));
            let mut lens = vec![];
            let mut datas = vec![];
            for i in 0..nch {
                loop {
                    let n = rng.gen_range(minlen..=maxlen);
                    let mut d = vec![0u8; n as usize];
                    rng.fill(&mut d[..]);
                    if n < 4 {
                        // short chunks: make them distinguishable by construction
                        d[0] = (k * nch + i) as u8;
                    }
                    if c.by_bytes.contains_key(&d) {
                        continue;
                    }
                    c.by_bytes.insert(d.clone(), (k, i));
                    lens.push(n);
                    datas.push(d);
                    break;
                }
            }
            c.clen.push(lens);
            c.cdata.push(datas);
        }
        c
    }

    pub fn data(&self, k: usize, s: u32, e: u32) -> (Vec<u32>, Vec<u8>) {
        let mut idx = vec![0u32];
        let mut d = vec![];
        for i in s..e {
            d.extend_from_slice(&self.cdata[k][i as usize]);
            idx.push(d.len() as u32);
        }
        (idx, d)
    }

    /// (file bytes, len, crc) of the cache file the code writes for (k, s, e)
    pub fn file(&self, k: usize, s: u32, e: u32) -> (Vec<u8>, u64, u32) {
        let (idx, d) = self.data(k, s, e);
        let mut f = vec![];
        f.extend_from_slice(&(idx.len() as u32).to_le_bytes());
        for i in &idx {
            f.extend_from_slice(&i.to_le_bytes());
        }
        f.extend_from_slice(&d);
        let crc = crc32fast::hash(&f);
        let n = f.len() as u64;
        (f, n, crc)
    }

    pub fn key_dir(&self, root: &Path, k: usize) -> PathBuf {
        let mut buf = vec![];
        buf.extend_from_slice(self.keys[k].hash.as_bytes());
        buf.extend_from_slice(self.keys[k].prefix.as_bytes());
        let enc = URL_SAFE.encode(&buf);
        root.join(&enc[..2]).join(&enc)
    }

    pub fn item_name(s: u32, e: u32, len: u64, crc: u32) -> String {
        let mut buf = vec![];
        buf.extend_from_slice(&s.to_le_bytes());
        buf.extend_from_slice(&e.to_le_bytes());
        buf.extend_from_slice(&len.to_le_bytes());
        buf.extend_from_slice(&crc.to_le_bytes());
        URL_SAFE.encode(&buf)
    }

    pub fn item_path(&self, root: &Path, k: usize, s: u32, e: u32) -> PathBuf {
        let (_, len, crc) = self.file(k, s, e);
        self.key_dir(root, k).join(Self::item_name(s, e, len, crc))
    }

    fn parse_item_name(name: &str) -> Option<(u32, u32, u64, u32)> {
        let b = URL_SAFE.decode(name).ok()?;
        if b.len() != 20 {
            return None;
        }
        Some((
            u32::from_le_bytes(b[0..4].try_into().unwrap()),
            u32::from_le_bytes(b[4..8].try_into().unwrap()),
            u64::from_le_bytes(b[8..16].try_into().unwrap()),
            u32::from_le_bytes(b[16..20].try_into().unwrap()),
        ))
    }

    fn is_canon(&self, k: usize, s: u32, e: u32, len: u64, crc: u32) -> bool {
        if s >= e || e as usize > self.nch {
            return false;
        }
        let (_, l, c) = self.file(k, s, e);
        l == len && c == crc
    }

    /// ids of the chunks a returned buffer consists of, cut at the returned offsets
    fn ids(&self, data: &[u8], offs: &[u32]) -> Value {
        let mut out = vec![];
        for w in offs.windows(2) {
            let (a, b) = (w[0] as usize, w[1] as usize);
            if a <= b && b <= data.len() {
                match self.by_bytes.get(&data[a..b]) {
                    Some((k, i)) => out.push(json!([self.names[*k], i])),
                    None => out.push(json!(["junk", -1])),
                }
            } else {
                out.push(json!(["junk", -2]));
            }
        }
        Value::Array(out)
    }

    /// listing of the cache directory: (items under valid names, number of other entries, total bytes of item files)
    pub fn listing(&self, root: &Path) -> (Vec<Value>, usize, u64) {
        let mut items = vec![];
        let mut junk = 0usize;
        let mut bytes = 0u64;
        let Ok(rd) = std::fs::read_dir(root) else { return (items, 0, 0) };
        for p in rd.flatten() {
            let Ok(rd2) = std::fs::read_dir(p.path()) else {
                junk += 1;
                continue;
            };
            for kd in rd2.flatten() {
                let kname = kd.file_name().to_string_lossy().to_string();
                let kidx = (0..self.keys.len()).find(|k| self.key_dir(root, *k) == kd.path());
                let Ok(rd3) = std::fs::read_dir(kd.path()) else {
                    junk += 1;
                    continue;
                };
                for f in rd3.flatten() {
                    let name = f.file_name().to_string_lossy().to_string();
                    let size = f.metadata().map(|m| m.len()).unwrap_or(0);
                    match (kidx, Self::parse_item_name(&name)) {
                        (Some(k), Some((s, e, len, crc))) if self.is_canon(k, s, e, len, crc) => {
                            items.push(json!([self.names[k], s, e]));
                            bytes += size;
                        },
                        _ => junk += 1,
                    }
                }
                let _ = kname;
            }
        }
        (items, junk, bytes)
    }

    fn setup_event(&self, cap: u64) -> String {
        let mut clen = serde_json::Map::new();
        for (k, n) in self.names.iter().enumerate() {
            clen.insert(n.clone(), json!(self.clen[k]));
        }
        json!({"ev":"CcSetup","nch":self.nch,"clen":clen,"cap":cap,"keys":self.names}).to_string()
    }
}

/// Rewrites hook events: key strings -> key names, (len, crc) -> canon flag, CcEvict merged into the CcCommit that
/// follows it under the same lock hold, CcDel paths -> items.
fn normalise(c: &Content, events: Vec<String>) -> Vec<String> {
    let mut out: Vec<String> = vec![];
    let mut pending_ev: HashMap<String, Vec<Value>> = HashMap::new();
    for e in events {
        let mut v: Value = serde_json::from_str(&e).expect("event is json");
        let ev = v["ev"].as_str().unwrap_or("").to_string();
        let actor = v["actor"].as_str().unwrap_or("").to_string();
        if let Some(ks) = v.get("key").and_then(|k| k.as_str()).map(|s| s.to_string()) {
            let k = c.by_keystr.get(&ks).copied();
            v["k"] = json!(k.map(|k| c.names[k].clone()).unwrap_or_else(|| "unknown".into()));
            if let (Some(k), Some(s), Some(e2), Some(len), Some(crc)) =
                (k, v["s"].as_u64(), v["e"].as_u64(), v["len"].as_u64(), v["crc"].as_u64())
            {
                v["canon"] = json!(c.is_canon(k, s as u32, e2 as u32, len, crc as u32));
            }
            let o = v.as_object_mut().unwrap();
            o.remove("key");
            o.remove("len");
            o.remove("crc");
        }
        match ev.as_str() {
            "CcEvict" => {
                pending_ev.entry(actor).or_default().push(json!([v["k"], v["s"], v["e"]]));
                continue;
            },
            "CcCommit" => {
                v["evicted"] = Value::Array(pending_ev.remove(&actor).unwrap_or_default());
            },
            "CcDel" => {
                let p = PathBuf::from(v["path"].as_str().unwrap_or(""));
                let name = p.file_name().map(|n| n.to_string_lossy().to_string()).unwrap_or_default();
                let kdir = p.parent().map(|d| d.to_path_buf()).unwrap_or_default();
                let root = kdir.parent().and_then(|d| d.parent()).map(|d| d.to_path_buf()).unwrap_or_default();
                let k = (0..c.keys.len()).find(|k| c.key_dir(&root, *k) == kdir);
                if let (Some(k), Some((s, e2, _, _))) = (k, Content::parse_item_name(&name)) {
                    v["k"] = json!(c.names[k]);
                    v["s"] = json!(s);
                    v["e"] = json!(e2);
                }
                v.as_object_mut().unwrap().remove("path");
            },
            _ => {},
        }
        out.push(v.to_string());
    }
    out
}

#[derive(Clone, Debug)]
pub struct Op {
    kind: String,
    k: usize,
    s: u32,
    e: u32,
}

fn do_op(c: &Content, cache: &DiskCache, op: &Op) {
    hemit("CcStart", format!("\"kind\":\"{}\",\"k\":\"{}\",\"s\":{},\"e\":{}", op.kind, c.names[op.k], op.s, op.e));
    let range = ChunkRange { start: op.s, end: op.e };
    let r = std::panic::catch_unwind(std::panic::AssertUnwindSafe(|| {
        if op.kind == "get" {
            match cache.get(&c.keys[op.k], &range) {
                Ok(Some(cr)) => format!("\"res\":\"hit\",\"ids\":{},\"offs\":{}", c.ids(&cr.data, &cr.offsets), json!(cr.offsets.to_vec())),
                Ok(None) => "\"res\":\"miss\"".to_string(),
                Err(e) => format!("\"res\":\"err\",\"what\":{}", json!(format!("{e:?}"))),
            }
        } else {
            let (idx, d) = c.data(op.k, op.s, op.e);
            match cache.put(&c.keys[op.k], &range, &idx, &d) {
                Ok(()) => "\"res\":\"ok\"".to_string(),
                Err(e) => format!("\"res\":\"err\",\"what\":{}", json!(format!("{e:?}"))),
            }
        }
    }));
    match r {
        Ok(f) => hemit("CcRet", f),
        Err(_) => hemit("CcPanic", "\"where\":\"op\"".to_string()),
    }
}

/// the cache's own view of its state; a cache whose lock was poisoned by a panic inside an operation has none: that is
/// recorded (CcPanic has no counterpart in the specification) instead of taking the driver down
#[allow(clippy::type_complexity)]
fn snap(cache: &DiskCache) -> (Vec<(String, u32, u32, u64, u32, bool)>, usize, u64) {
    match std::panic::catch_unwind(std::panic::AssertUnwindSafe(|| cache.verif_snapshot())) {
        Ok(v) => v,
        Err(_) => {
            hemit("CcPanic", "\"where\":\"snapshot\"".to_string());
            (vec![], 0, 0)
        },
    }
}

fn snapshot_items(c: &Content, cache: &DiskCache) -> (Vec<Value>, usize, u64) {
    let (items, n, tb) = snap(cache);
    let mut v = vec![];
    for (ks, s, e, len, crc, _) in items {
        match c.by_keystr.get(&ks) {
            Some(k) if c.is_canon(*k, s, e, len, crc) => v.push(json!([c.names[*k], s, e])),
            _ => v.push(json!(["noncanon", s, e])),
        }
    }
    (v, n, tb)
}

fn quiesce(c: &Content, cache: &DiskCache, root: &Path, readback: bool) {
    if readback {
        set_thread_actor("t1");
        let (items, _, _) = snap(cache);
        for (ks, s, e, _, _, _) in items {
            if let Some(k) = c.by_keystr.get(&ks) {
                do_op(c, cache, &Op { kind: "get".into(), k: *k, s, e });
            }
        }
    }
    let (tracked, n, tb) = snapshot_items(c, cache);
    let (files, junk, bytes) = c.listing(root);
    hemit(
        "CcQuiesce",
        format!(
            "\"tracked\":{},\"n\":{},\"tb\":{},\"files\":{},\"junk\":{},\"disk_bytes\":{},\"readback\":{}",
            Value::Array(tracked), n, tb, Value::Array(files), junk, bytes, readback
        ),
    );
}

fn open_cache(c: &Content, root: &Path, cap: u64, is_reopen: bool) -> Option<DiskCache> {
    let cfg = CacheConfig {
        cache_directory: root.to_path_buf(),
        cache_size: cap,
    };
    let r = std::panic::catch_unwind(|| DiskCache::initialize(&cfg));
    match r {
        Ok(Ok(cache)) => {
            if is_reopen {
                let (loaded, n, tb) = snapshot_items(c, &cache);
                let (files, _, _) = c.listing(root);
                hemit("CcReopen", format!("\"loaded\":{},\"n\":{},\"tb\":{},\"files\":{}", Value::Array(loaded), n, tb, Value::Array(files)));
            }
            Some(cache)
        },
        Ok(Err(e)) => {
            hemit("CcReopenFail", format!("\"what\":{}", json!(format!("err {e:?}"))));
            None
        },
        Err(_) => {
            hemit("CcReopenFail", "\"what\":\"panic\"".to_string());
            None
        },
    }
}

fn random_op(rng: &mut impl Rng, c: &Content, put_bias: u32) -> Op {
    let k = rng.gen_range(0..c.keys.len());
    let s = rng.gen_range(0..c.nch as u32);
    let e = rng.gen_range(s + 1..=c.nch as u32);
    Op {
        kind: if rng.gen_range(0..100) < put_bias { "put".into() } else { "get".into() },
        k,
        s,
        e,
    }
}

// ------------------------------------------------------------------------------------------------ controlled threads
struct Worker {
    name: String,
    queue: Arc<Mutex<Vec<Op>>>,
    handle: Option<std::thread::JoinHandle<()>>,
}

fn spawn_worker(ctl: &Arc<Ctl>, c: &Arc<Content>, cache: &DiskCache, name: &str) -> Worker {
    let queue: Arc<Mutex<Vec<Op>>> = Arc::new(Mutex::new(vec![]));
    let (q, c2, cache2, ctl2, n2) = (queue.clone(), c.clone(), cache.clone(), ctl.clone(), name.to_string());
    let handle = std::thread::spawn(move || {
        set_thread_actor(&n2);
        loop {
            utils::verif::gate("op_start", "");
            let op = {
                let mut g = q.lock().unwrap();
                if g.is_empty() {
                    None
                } else {
                    Some(g.remove(0))
                }
            };
            match op {
                Some(op) => do_op(&c2, &cache2, &op),
                None => break,
            }
        }
        ctl2.mark_finished(&n2);
    });
    Worker {
        name: name.to_string(),
        queue,
        handle: Some(handle),
    }
}

/// Runs a schedule: `steps` is a list of [thread, op?]; an entry with an op starts that op on the thread (which must be
/// parked at op_start), an entry without lets the thread pass the gate it is parked at.
fn run_schedule(ctl: &Arc<Ctl>, c: &Arc<Content>, cap: u64, nthreads: usize, steps: &[(usize, Option<Op>)], rng: &mut impl Rng) -> Vec<String> {
    let dir = tempfile::tempdir().unwrap();
    ctl.reset_sched();
    let _ = ctl.take_events();
    ctl.set_controlled(true);
    set_thread_actor("main");
    let cache = open_cache(c, dir.path(), cap, false).unwrap();
    let mut workers: Vec<Worker> = (0..nthreads).map(|i| spawn_worker(ctl, c, &cache, &format!("t{}", i + 1))).collect();
    for w in &workers {
        ctl.wait_parked(&w.name);
    }
    for (t, op) in steps {
        let w = &workers[*t % nthreads];
        let (parked, finished) = ctl.actor_state(&w.name);
        if finished {
            continue;
        }
        match (op, parked.as_deref()) {
            (Some(op), Some("op_start")) => {
                w.queue.lock().unwrap().push(op.clone());
                ctl.step(&w.name);
            },
            (Some(_), _) => {
                // the thread is in the middle of an operation: let it take one step instead
                ctl.step(&w.name);
            },
            (None, Some("op_start")) => {},
            (None, _) => {
                ctl.step(&w.name);
            },
        }
    }
    // drain: let every thread finish its current operation, in random order
    loop {
        let mut busy: Vec<usize> = vec![];
        for (i, w) in workers.iter().enumerate() {
            let (parked, finished) = ctl.actor_state(&w.name);
            if !finished && parked.as_deref() != Some("op_start") {
                busy.push(i);
            }
        }
        if busy.is_empty() {
            break;
        }
        let i = busy[rng.gen_range(0..busy.len())];
        let r = ctl.step(&workers[i].name);
        if r == "timeout" {
            hemit("CcTimeout", format!("\"who\":\"{}\"", workers[i].name));
            break;
        }
    }
    // stop workers (empty queue => exit)
    ctl.set_controlled(false);
    for w in workers.iter_mut() {
        if let Some(h) = w.handle.take() {
            let _ = h.join();
        }
    }
    set_thread_actor("main");
    quiesce(c, &cache, dir.path(), false);
    quiesce(c, &cache, dir.path(), true);
    normalise(c, ctl.take_events())
}

// ------------------------------------------------------------------------------------------------ sequential + damage
fn damage_round(c: &Content, root: &Path, rng: &mut impl Rng, junk_names: bool) {
    let (files, _, _) = c.listing(root);
    let kidx = |name: &str| c.names.iter().position(|n| n == name).unwrap();
    for f in files {
        let (k, s, e) = (kidx(f[0].as_str().unwrap()), f[1].as_u64().unwrap() as u32, f[2].as_u64().unwrap() as u32);
        let p = c.item_path(root, k, s, e);
        let roll = rng.gen_range(0..100);
        let it = format!("\"k\":\"{}\",\"s\":{},\"e\":{}", c.names[k], s, e);
        if roll < 15 {
            // single burst error of at most 32 bits somewhere in the file
            let mut b = std::fs::read(&p).unwrap();
            let pos = rng.gen_range(0..b.len());
            let nbits = rng.gen_range(1..=32usize);
            let startbit = rng.gen_range(0..8usize);
            let mut flipped = false;
            for bit in 0..nbits {
                let idx = pos + (startbit + bit) / 8;
                if idx >= b.len() {
                    break;
                }
                // first and last bit of the burst are always flipped, the ones in between at random
                if bit == 0 || bit == nbits - 1 || rng.gen_bool(0.5) {
                    b[idx] ^= 1 << ((startbit + bit) % 8);
                    flipped = true;
                }
            }
            if flipped {
                std::fs::write(&p, &b).unwrap();
                hemit("CcDamage", format!("{it},\"kind\":\"bad\""));
            }
        } else if roll < 25 {
            // (a file that an earlier round left too long is never cut back to the length its name states)
            let b = std::fs::read(&p).unwrap();
            let canon = c.file(k, s, e).0.len();
            let mut n = rng.gen_range(0..b.len().max(1));
            if n == canon {
                n = n.saturating_sub(1);
            }
            if n != canon && n < b.len() {
                std::fs::write(&p, &b[..n]).unwrap();
                hemit("CcDamage", format!("{it},\"kind\":\"badlen\""));
            }
        } else if roll < 32 {
            let mut b = std::fs::read(&p).unwrap();
            let canon = c.file(k, s, e).0.len();
            let mut extra = rng.gen_range(1..9);
            if b.len() + extra == canon {
                extra += 1;
            }
            b.extend(std::iter::repeat(0x5a).take(extra));
            std::fs::write(&p, &b).unwrap();
            hemit("CcDamage", format!("{it},\"kind\":\"badlen\""));
        } else if roll < 42 {
            std::fs::remove_file(&p).unwrap();
            hemit("CcDamage", format!("{it},\"kind\":\"none\""));
        }
    }
    // plant files under valid item names that were never put (wrong bytes)
    for _ in 0..rng.gen_range(0..3) {
        let op = random_op(rng, c, 100);
        let p = c.item_path(root, op.k, op.s, op.e);
        if p.exists() {
            continue;
        }
        let (mut b, _, _) = c.file(op.k, op.s, op.e);
        let kind = if rng.gen_bool(0.5) {
            let pos = rng.gen_range(0..b.len());
            b[pos] ^= 0x10;
            "bad"
        } else {
            b.truncate(rng.gen_range(0..b.len()));
            "badlen"
        };
        std::fs::create_dir_all(p.parent().unwrap()).unwrap();
        std::fs::write(&p, &b).unwrap();
        hemit("CcPlant", format!("\"k\":\"{}\",\"s\":{},\"e\":{},\"kind\":\"{}\"", c.names[op.k], op.s, op.e, kind));
    }
    if junk_names {
        plant_junk(c, root, rng);
    }
}

/// junk files and directories at each of the three levels, names of every length class
fn plant_junk(c: &Content, root: &Path, rng: &mut impl Rng) {
    let names = ["", "a", "ab", "abc", "DwAA", "AAAA", "zz==", ".hidden.tmp", "not base64 !", "a-very-long-name-that-is-not-a-key-aaaaaaaaaaaaaaaaaaaaaaaaaaaaaaaaaaaaaaaaaaaaaaaaaaaa"];
    let pick = |rng: &mut dyn rand::RngCore| names[(rng.next_u32() as usize) % names.len()].to_string();
    let mut planted = vec![];
    for _ in 0..rng.gen_range(1..4) {
        let level = rng.gen_range(0..3);
        let as_dir = rng.gen_bool(0.5);
        let mut name = pick(rng);
        if name.is_empty() {
            name = "x".into();
        }
        let base = match level {
            0 => root.to_path_buf(),
            1 => {
                // inside a prefix directory (existing or a fresh two-character one)
                let k = rng.gen_range(0..c.keys.len());
                let kd = c.key_dir(root, k);
                if rng.gen_bool(0.5) {
                    // a relative of the key directory's own name: the scan only looks at names that begin with the
                    // prefix directory's characters
                    let kn = kd.file_name().unwrap().to_string_lossy().to_string();
                    let cut = [2usize, 4, 8, 40][rng.gen_range(0..4)].min(kn.len() - 1);
                    name = kn[..cut].to_string();
                }
                kd.parent().unwrap().to_path_buf()
            },
            _ => {
                let k = rng.gen_range(0..c.keys.len());
                c.key_dir(root, k)
            },
        };
        let _ = std::fs::create_dir_all(&base);
        let p = base.join(&name);
        if p.exists() {
            continue;
        }
        let ok = if as_dir {
            std::fs::create_dir_all(&p).is_ok()
        } else {
            std::fs::File::create(&p).and_then(|mut f| f.write_all(b"junk")).is_ok()
        };
        if ok {
            planted.push(json!([level, name, as_dir]));
        }
    }
    if !planted.is_empty() {
        hemit("CcPlantJunk", format!("\"what\":{}", Value::Array(planted)));
    }
}

fn run_seq(ctl: &Arc<Ctl>, c: &Arc<Content>, cap: u64, rng: &mut impl Rng, nops: usize, junk: bool) -> Vec<String> {
    let dir = tempfile::tempdir().unwrap();
    ctl.reset_sched();
    ctl.set_controlled(false);
    let _ = ctl.take_events();
    set_thread_actor("t1");
    let mut cache = open_cache(c, dir.path(), cap, false).unwrap();
    // every other history starts with a directed prelude: two overlapping, non-nested items of one key, exactly one of
    // them damaged (same length) while the cache is closed; after the re-open a read inside the intersection (served
    // by either item), then reads that only one of the two can serve, in both orders
    if c.nch >= 3 && rng.gen_bool(0.5) {
        let k = rng.gen_range(0..c.keys.len());
        let n = c.nch as u32;
        let mid = rng.gen_range(1..n - 1);
        let (a, b) = ((0u32, mid + 1), (mid, n)); // [0, mid+1) and [mid, n) share chunk mid
        let order = if rng.gen_bool(0.5) { [a, b] } else { [b, a] };
        for (s, e) in order {
            do_op(c, &cache, &Op { kind: "put".into(), k, s, e });
        }
        drop(cache);
        hemit("CcClose", String::new());
        let (ds, de) = if rng.gen_bool(0.5) { a } else { b };
        let p = c.item_path(dir.path(), k, ds, de);
        if let Ok(mut bytes) = std::fs::read(&p) {
            let pos = rng.gen_range(0..bytes.len());
            bytes[pos] ^= 1 << rng.gen_range(0..8);
            std::fs::write(&p, &bytes).unwrap();
            hemit("CcDamage", format!("\"k\":\"{}\",\"s\":{},\"e\":{},\"kind\":\"bad\"", c.names[k], ds, de));
        }
        match open_cache(c, dir.path(), cap, true) {
            Some(cc) => cache = cc,
            None => return normalise(c, ctl.take_events()),
        }
        let mut reads = vec![(mid, mid + 1), (0, 1), (n - 1, n), (mid, mid + 1), (0, mid + 1), (mid, n)];
        if rng.gen_bool(0.5) {
            reads.swap(1, 2);
        }
        for (s, e) in reads {
            do_op(c, &cache, &Op { kind: "get".into(), k, s, e });
        }
    }
    let mut i = 0;
    while i < nops {
        let roll = rng.gen_range(0..100);
        if roll < 6 {
            // close, damage, re-open
            drop(cache);
            hemit("CcClose", String::new());
            damage_round(c, dir.path(), rng, junk);
            match open_cache(c, dir.path(), cap, true) {
                Some(cc) => cache = cc,
                None => return normalise(c, ctl.take_events()),
            }
            // refill after the restart: some of the items that have a file in the directory are put again and read
            if rng.gen_bool(0.5) {
                let (files, _, _) = c.listing(dir.path());
                let picked: Vec<&Value> = files.iter().filter(|_| rng.gen_bool(0.5)).take(3).collect();
                for f in picked {
                    let k = c.names.iter().position(|n| n == f[0].as_str().unwrap()).unwrap();
                    let (s, e) = (f[1].as_u64().unwrap() as u32, f[2].as_u64().unwrap() as u32);
                    // the item itself, or only a leading / trailing part of it (validated against the covering item)
                    let (ps, pe) = match rng.gen_range(0..3) {
                        1 if e - s > 1 => (s, rng.gen_range(s + 1..e)),
                        2 if e - s > 1 => (rng.gen_range(s + 1..e), e),
                        _ => (s, e),
                    };
                    do_op(c, &cache, &Op { kind: "put".into(), k, s: ps, e: pe });
                    do_op(c, &cache, &Op { kind: "get".into(), k, s, e });
                }
            }
        } else if roll < 9 {
            // delete a file while the cache is open
            let (files, _, _) = c.listing(dir.path());
            if !files.is_empty() {
                let f = &files[rng.gen_range(0..files.len())];
                let k = c.names.iter().position(|n| n == f[0].as_str().unwrap()).unwrap();
                let (s, e) = (f[1].as_u64().unwrap() as u32, f[2].as_u64().unwrap() as u32);
                std::fs::remove_file(c.item_path(dir.path(), k, s, e)).unwrap();
                hemit("CcDelOpen", format!("\"k\":\"{}\",\"s\":{},\"e\":{}", c.names[k], s, e));
            }
        } else if roll < 14 {
            quiesce(c, &cache, dir.path(), rng.gen_bool(0.3));
        } else {
            do_op(c, &cache, &random_op(rng, c, 55));
        }
        i += 1;
    }
    quiesce(c, &cache, dir.path(), true);
    normalise(c, ctl.take_events())
}

fn run_storm(ctl: &Arc<Ctl>, c: &Arc<Content>, cap: u64, rng: &mut impl Rng, nthreads: usize, nops: usize, same: bool) -> Vec<String> {
    let dir = tempfile::tempdir().unwrap();
    ctl.reset_sched();
    ctl.set_controlled(false);
    let _ = ctl.take_events();
    set_thread_actor("main");
    let cache = open_cache(c, dir.path(), cap, false).unwrap();
    let mut plans: Vec<Vec<Op>> = vec![];
    let shared: Vec<Op> = (0..nops).map(|_| random_op(rng, c, 70)).collect();
    for _ in 0..nthreads {
        if same {
            plans.push(shared.clone()); // every thread issues the same operations: identical concurrent puts
        } else {
            plans.push((0..nops).map(|_| random_op(rng, c, 60)).collect());
        }
    }
    let barrier = Arc::new(std::sync::Barrier::new(nthreads));
    let mut hs = vec![];
    for (i, plan) in plans.into_iter().enumerate() {
        let (c2, cache2, b) = (c.clone(), cache.clone(), barrier.clone());
        hs.push(std::thread::spawn(move || {
            set_thread_actor(&format!("t{}", i + 1));
            for (j, op) in plan.iter().enumerate() {
                if j % 8 == 0 {
                    b.wait();
                }
                do_op(&c2, &cache2, op);
            }
        }));
    }
    for h in hs {
        let _ = h.join();
    }
    set_thread_actor("main");
    quiesce(c, &cache, dir.path(), false);
    quiesce(c, &cache, dir.path(), true);
    normalise(c, ctl.take_events())
}

/// Renamed items (C12: "entries that were ... renamed ... while the cache was closed turn into misses or errors ...,
/// never into wrong data or a panic").  Three items are put, the cache is closed, one item file is renamed to a name
/// that claims another chunk range / another key directory with the file's own length and checksum (so the length
/// and checksum tests of the name pass), the cache is re-opened and every range of every key is read.  Such an entry
/// lies outside the item universe of ChunkCache.tla (its length is not the length of the range it claims), so the run
/// is reported as one summary event: for every get its outcome and, for a hit, whether the data is the right data.
fn run_renames(ctl: &Arc<Ctl>, c: &Arc<Content>, cap: u64, out: &mut TraceOut) -> anyhow::Result<usize> {
    let nch = c.nch as u32;
    let base: Vec<(usize, u32, u32)> = vec![(0, 0, nch), (1 % c.keys.len(), 0, 1), (1 % c.keys.len(), 1, nch)];
    let mut variants: Vec<(usize, usize, u32, u32)> = vec![]; // (item renamed, key dir of the new name, claimed start, claimed end)
    for (i, (k, s, e)) in base.iter().enumerate() {
        for (cs, ce) in [(*s, e + 1), (*s, e + 3), (s + 1, *e), (*s, e.saturating_sub(1).max(s + 1)), (s + 1, e + 1), (0u32, 1u32)] {
            if (cs, ce) != (*s, *e) && cs < ce {
                variants.push((i, *k, cs, ce));
            }
        }
        variants.push((i, (*k + 1) % c.keys.len(), *s, *e)); // moved into another key's directory under its own name
    }
    // forged items: a file under a name that matches its own length and checksum (so the name check passes) whose
    // chunk index is not one any put writes - offsets that decrease at each position, a first offset that is not 0, a
    // last offset that is not the data length, a wrong count.  Coded as (item, key dir, u32::MAX, forgery number).
    let nforged = 3 * nch as usize + 6;
    for (i, (k, _, _)) in base.iter().enumerate() {
        for fv in 0..nforged {
            variants.push((i, *k, u32::MAX, fv as u32));
        }
    }
    let mut runs = 0;
    for (vi, (i, kdir, cs, ce)) in variants.iter().enumerate() {
        let dir = tempfile::tempdir()?;
        ctl.reset_sched();
        ctl.set_controlled(false);
        let _ = ctl.take_events();
        set_thread_actor("t1");
        let Some(cache) = open_cache(c, dir.path(), cap, false) else { continue };
        for (k, s, e) in &base {
            let (idx, d) = c.data(*k, *s, *e);
            let _ = cache.put(&c.keys[*k], &ChunkRange { start: *s, end: *e }, &idx, &d);
        }
        drop(cache);
        let (k, s, e) = base[*i];
        let from = c.item_path(dir.path(), k, s, e);
        let (_, len, crc) = c.file(k, s, e);
        if *cs == u32::MAX {
            // rewrite the item's file with a forged chunk index and give it the name that matches the new bytes
            let (idx, d) = c.data(k, s, e);
            let mut idx: Vec<u32> = idx;
            let mut count = idx.len() as u32;
            let fv = *ce as usize;
            let n = idx.len(); // number of offsets = chunks + 1
            let last = n - 1;
            if fv < 3 * nch as usize {
                let j = 1 + (fv / 3) % last.max(1); // position whose offset is made smaller than its predecessor's / larger than its successor's
                match fv % 3 {
                    0 => idx[j] = idx[j - 1].saturating_sub(1),
                    1 if j < last => idx[j] = idx[j + 1] + 1,
                    1 => idx[j] = idx[j - 1].saturating_sub(7),
                    _ => {
                        // two offsets exchanged
                        let a = idx[j];
                        idx[j] = idx[j - 1];
                        idx[j - 1] = a;
                    },
                }
            } else {
                match fv - 3 * nch as usize {
                    0 => idx[0] = 1,
                    1 => idx[last] += 1,
                    2 => idx[last] = idx[last].saturating_sub(1),
                    3 => count += 1,
                    4 => count = count.saturating_sub(1),
                    _ => idx[last] = u32::MAX,
                }
            }
            let mut f = vec![];
            f.extend_from_slice(&count.to_le_bytes());
            for o in &idx {
                f.extend_from_slice(&o.to_le_bytes());
            }
            f.extend_from_slice(&d);
            if f == c.file(k, s, e).0 {
                continue; // the forgery is the genuine file (an offset that was already at its bound)
            }
            let to = c.key_dir(dir.path(), k).join(Content::item_name(s, e, f.len() as u64, crc32fast::hash(&f)));
            let _ = std::fs::remove_file(&from);
            if std::fs::write(&to, &f).is_err() {
                continue;
            }
        } else {
            let to = c.key_dir(dir.path(), *kdir).join(Content::item_name(*cs, *ce, len, crc));
            let _ = std::fs::create_dir_all(to.parent().unwrap());
            if std::fs::rename(&from, &to).is_err() {
                continue;
            }
        }
        let mut gets = vec![];
        let mut reopen = "ok";
        match std::panic::catch_unwind(|| DiskCache::initialize(&CacheConfig { cache_directory: dir.path().to_path_buf(), cache_size: cap })) {
            Ok(Ok(cache)) => {
                for gk in 0..c.keys.len() {
                    for gs in 0..nch {
                        for ge in gs + 1..=nch + 1 {
                            let r = std::panic::catch_unwind(std::panic::AssertUnwindSafe(|| cache.get(&c.keys[gk], &ChunkRange { start: gs, end: ge })));
                            let (res, data_ok) = match r {
                                Ok(Ok(Some(cr))) => {
                                    let good = ge <= nch && {
                                        let (idx, d) = c.data(gk, gs, ge);
                                        cr.data.as_ref() == &d[..] && cr.offsets.to_vec() == idx
                                    };
                                    ("hit", good)
                                },
                                Ok(Ok(None)) => ("miss", true),
                                Ok(Err(_)) => ("err", true),
                                Err(_) => ("panic", false),
                            };
                            gets.push(json!({"k": c.names[gk], "s": gs, "e": ge, "res": res, "data_ok": data_ok}));
                        }
                    }
                }
            },
            Ok(Err(_)) => reopen = "err",
            Err(_) => reopen = "panic",
        }
        let _ = ctl.take_events();
        let ev = vec![json!({"ev": "CcRenamed", "actor": "t1", "variant": vi, "item": [c.names[k], s, e], "to_key": c.names[*kdir], "claims": if *cs == u32::MAX { json!(["forged", ce]) } else { json!([cs, ce]) },
                             "reopen": reopen, "gets": gets}).to_string()];
        out.run(&ev)?;
        runs += 1;
    }
    Ok(runs)
}

/// Fault enumeration (C12): one run per fault.  A directory is populated with three items, closed, one fault is
/// applied (burst error at every byte, truncation to every length, extension, deletion, junk of every name class at
/// every level), the directory is re-opened and every range of every key is read.
fn run_faults(ctl: &Arc<Ctl>, c: &Arc<Content>, cap: u64, rng: &mut impl Rng, out: &mut TraceOut, stride: usize, note: &mut dyn FnMut(&Vec<String>)) -> anyhow::Result<usize> {
    let base: Vec<Op> = vec![
        Op { kind: "put".into(), k: 0, s: 0, e: c.nch as u32 },
        Op { kind: "put".into(), k: 1 % c.keys.len(), s: 0, e: 1 },
        Op { kind: "put".into(), k: 1 % c.keys.len(), s: 1, e: c.nch as u32 },
    ];
    #[derive(Clone, Debug)]
    enum Fault {
        Burst(usize, usize, usize), // item, byte, bits
        Trunc(usize, usize),
        Extend(usize, usize),
        Delete(usize),
        Junk(usize, String, bool),
    }
    let mut faults = vec![];
    for (i, op) in base.iter().enumerate() {
        let n = c.file(op.k, op.s, op.e).1 as usize;
        for b in 0..n {
            faults.push(Fault::Burst(i, b, 1 + (b % 32)));
        }
        for l in 0..n {
            faults.push(Fault::Trunc(i, l));
        }
        for x in [1usize, 4, 5, 4096] {
            faults.push(Fault::Extend(i, x));
        }
        faults.push(Fault::Delete(i));
    }
    let junk_names = ["a", "ab", "abc", "DwAA", "AAAA", "zz==", ".x.tmp", "not base64 !", "AAAAAAAAAAAAAAAAAAAAAAAAAAA=",
        "AAAAAAAAAAAAAAAAAAAAAAAAAAAAAAAAAAAAAAAAAAAAAAAAAAAAAAAAAAAAAAAA", "\u{e9}\u{e9}"];
    for level in 0..3 {
        for n in junk_names {
            for d in [false, true] {
                faults.push(Fault::Junk(level, n.to_string(), d));
            }
        }
    }
    // relatives of a real key directory's name next to it (a directory renamed or cut short while the cache was closed):
    // they begin with the two characters of the prefix directory, so the scan looks at them
    {
        let kn = c.key_dir(Path::new("/"), base[0].k).file_name().unwrap().to_string_lossy().to_string();
        let mut rel: Vec<String> = [2usize, 3, 4, 8, 40, 43].iter().filter(|n| **n < kn.len()).map(|n| kn[..*n].to_string()).collect();
        rel.push(format!("{kn}AAAA"));
        rel.push(format!("{}AAAA", &kn[..kn.len().saturating_sub(4)].to_string()));
        rel.push(format!("{}=", &kn[..kn.len() - 1]));
        rel.push(format!("{}====", &kn[..4]));
        for n in rel {
            for d in [false, true] {
                faults.push(Fault::Junk(1, n.clone(), d));
            }
        }
    }
    let mut nruns = 0;
    for (fi, f) in faults.iter().enumerate() {
        // the stride samples the per-byte enumerations (bursts, truncations); deletions, extensions and every junk name
        // at every level always run
        let sampled = matches!(f, Fault::Burst(..) | Fault::Trunc(..));
        if sampled && stride > 1 && fi % stride != (rng.gen_range(0..stride)) {
            continue;
        }
        let dir = tempfile::tempdir().unwrap();
        ctl.reset_sched();
        ctl.set_controlled(false);
        let _ = ctl.take_events();
        set_thread_actor("t1");
        let cache = open_cache(c, dir.path(), cap, false).unwrap();
        for op in &base {
            do_op(c, &cache, op);
        }
        drop(cache);
        hemit("CcClose", String::new());
        let it = |i: usize| format!("\"k\":\"{}\",\"s\":{},\"e\":{}", c.names[base[i].k], base[i].s, base[i].e);
        let path = |i: usize| c.item_path(dir.path(), base[i].k, base[i].s, base[i].e);
        match f {
            Fault::Burst(i, b, bits) => {
                let mut buf = std::fs::read(path(*i)).unwrap();
                let mut any = false;
                for bit in 0..*bits {
                    let idx = b + bit / 8;
                    if idx < buf.len() && (bit == 0 || bit == bits - 1 || rng.gen_bool(0.5)) {
                        buf[idx] ^= 1 << (bit % 8);
                        any = true;
                    }
                }
                if any {
                    std::fs::write(path(*i), &buf).unwrap();
                    hemit("CcDamage", format!("{},\"kind\":\"bad\"", it(*i)));
                }
            },
            Fault::Trunc(i, l) => {
                let buf = std::fs::read(path(*i)).unwrap();
                std::fs::write(path(*i), &buf[..*l]).unwrap();
                hemit("CcDamage", format!("{},\"kind\":\"badlen\"", it(*i)));
            },
            Fault::Extend(i, x) => {
                let mut buf = std::fs::read(path(*i)).unwrap();
                buf.extend(std::iter::repeat(7u8).take(*x));
                std::fs::write(path(*i), &buf).unwrap();
                hemit("CcDamage", format!("{},\"kind\":\"badlen\"", it(*i)));
            },
            Fault::Delete(i) => {
                std::fs::remove_file(path(*i)).unwrap();
                hemit("CcDamage", format!("{},\"kind\":\"none\"", it(*i)));
            },
            Fault::Junk(level, name, as_dir) => {
                let kd = c.key_dir(dir.path(), base[0].k);
                let basep = match level {
                    0 => dir.path().to_path_buf(),
                    1 => kd.parent().unwrap().to_path_buf(),
                    _ => kd,
                };
                let p = basep.join(name);
                let ok = if *as_dir {
                    std::fs::create_dir_all(&p).is_ok()
                } else {
                    std::fs::write(&p, b"junk").is_ok()
                };
                if ok {
                    hemit("CcPlantJunk", format!("\"what\":{}", json!([[level, name, as_dir]])));
                }
            },
        }
        if let Some(cache) = open_cache(c, dir.path(), cap, true) {
            for k in 0..c.keys.len() {
                for s in 0..c.nch as u32 {
                    for e in s + 1..=c.nch as u32 {
                        do_op(c, &cache, &Op { kind: "get".into(), k, s, e });
                    }
                }
            }
            quiesce(c, &cache, dir.path(), true);
        }
        let ev = normalise(c, ctl.take_events());
        note(&ev);
        out.run(&ev)?;
        nruns += 1;
    }
    Ok(nruns)
}

/// Damage + concurrency (C12): a large item is put, the cache closed, one burst error planted in its file, the
/// directory re-opened, and several threads read the damaged item at the same moment.  Large chunks make the
/// checksum pass long enough for readers to overlap.
fn run_dstorm(ctl: &Arc<Ctl>, c: &Arc<Content>, cap: u64, rng: &mut impl Rng, nthreads: usize) -> Vec<String> {
    let dir = tempfile::tempdir().unwrap();
    ctl.reset_sched();
    ctl.set_controlled(false);
    let _ = ctl.take_events();
    set_thread_actor("t1");
    let cache = open_cache(c, dir.path(), cap, false).unwrap();
    let nch = c.nch as u32;
    do_op(c, &cache, &Op { kind: "put".into(), k: 0, s: 0, e: nch });
    drop(cache);
    hemit("CcClose", String::new());
    let p = c.item_path(dir.path(), 0, 0, nch);
    let mut b = std::fs::read(&p).unwrap();
    let pos = rng.gen_range(b.len() / 2..b.len());
    b[pos] ^= 1 << rng.gen_range(0..8);
    std::fs::write(&p, &b).unwrap();
    hemit("CcDamage", format!("\"k\":\"{}\",\"s\":0,\"e\":{nch},\"kind\":\"bad\"", c.names[0]));
    let Some(cache) = open_cache(c, dir.path(), cap, true) else {
        return normalise(c, ctl.take_events());
    };
    let barrier = Arc::new(std::sync::Barrier::new(nthreads));
    let mut hs = vec![];
    for i in 0..nthreads {
        let (c2, cache2, b2) = (c.clone(), cache.clone(), barrier.clone());
        // every reader asks for a range that includes the damaged half of the item
        let s = if i % 2 == 0 { 0 } else { nch / 2 };
        hs.push(std::thread::spawn(move || {
            set_thread_actor(&format!("t{}", i + 1));
            b2.wait();
            do_op(&c2, &cache2, &Op { kind: "get".into(), k: 0, s, e: nch });
        }));
    }
    for h in hs {
        let _ = h.join();
    }
    set_thread_actor("main");
    quiesce(c, &cache, dir.path(), true);
    normalise(c, ctl.take_events())
}

fn parse_op(c: &Content, v: &Value) -> Option<Op> {
    let kind = v.get("kind")?.as_str()?.to_string();
    let k = c.names.iter().position(|n| n == v["k"].as_str().unwrap_or(""))?;
    Some(Op {
        kind,
        k,
        s: v["s"].as_u64()? as u32,
        e: v["e"].as_u64()? as u32,
    })
}

pub fn run(a: &Args) -> anyhow::Result<String> {
    crate::util::silence_panics();
    let ctl = Ctl::new();
    ctl.install();
    let mode = a.str("mode", "seq");
    let seed = a.u64("seed", 1);
    let mut rng = crate::util::rng(seed);
    let nkeys = a.u64("keys", 2) as usize;
    let nch = a.u64("nch", 3) as usize;
    let c = Arc::new(Content::new_sized(&mut rng, nkeys, nch, a.u64("minlen", 1) as u32, a.u64("maxlen", 24) as u32));
    // capacity: room for roughly `capitems` average items
    let avg: u64 = (0..nkeys).map(|k| c.file(k, 0, nch as u32).1).sum::<u64>() / nkeys as u64;
    // capdiv > 1: a capacity below the size of the larger items (oversize items are accepted by put and skipped by the
    // directory scan of a re-open)
    let cap = a.u64("cap", avg * a.u64("capx", 2) / a.u64("capdiv", 1).max(1));
    // capexact: the capacity is exactly the cache-file length of the largest item of the first key (boundary of the
    // "no single item larger than the capacity" proviso)
    let cap = if a.has("capexact") { c.file(0, 0, nch as u32).1 } else { cap };
    let mut out = TraceOut::create(&a.str("out", "/dev/null"))?;
    out.run(&[c.setup_event(cap)])?;
    let n = a.u64("n", 20);
    let mut sample: Vec<String> = vec![];
    let mut panics = 0usize;
    let mut errs = 0usize;
    let mut hits = 0usize;
    let mut evictions = 0usize;
    let mut note = |ev: &Vec<String>| {
        panics += ev.iter().filter(|e| e.contains("\"CcPanic\"") || e.contains("\"what\":\"panic\"")).count();
        errs += ev.iter().filter(|e| e.contains("\"res\":\"err\"")).count();
        hits += ev.iter().filter(|e| e.contains("\"res\":\"hit\"")).count();
        evictions += ev.iter().filter(|e| e.contains("\"CcCommit\"") && !e.contains("\"evicted\":[]")).count();
        if sample.is_empty() {
            sample = ev.iter().take(14).cloned().collect();
        }
    };
    match mode.as_str() {
        "sched" => {
            let text = std::fs::read_to_string(a.str("in", ""))?;
            for line in text.lines().filter(|l| !l.trim().is_empty()) {
                let scn: Value = serde_json::from_str(line)?;
                let mut steps = vec![];
                let mut nthreads = 1;
                for st in scn["steps"].as_array().cloned().unwrap_or_default() {
                    let t = st["t"].as_str().unwrap_or("t1").trim_start_matches('t').parse::<usize>().unwrap_or(1) - 1;
                    nthreads = nthreads.max(t + 1);
                    steps.push((t, parse_op(&c, &st)));
                }
                let ev = run_schedule(&ctl, &c, cap, nthreads, &steps, &mut rng);
                note(&ev);
                out.run(&ev)?;
            }
        },
        "rsched" => {
            for i in 0..n {
                let nthreads = 2 + (i as usize % 2);
                let mut steps = vec![];
                // a small pool of operations so that identical and overlapping items collide
                let pool: Vec<Op> = (0..3).map(|_| random_op(&mut rng, &c, 75)).collect();
                for _ in 0..rng.gen_range(10..60) {
                    let t = rng.gen_range(0..nthreads);
                    if rng.gen_range(0..100) < 30 {
                        steps.push((t, Some(pool[rng.gen_range(0..pool.len())].clone())));
                    } else {
                        steps.push((t, None));
                    }
                }
                let ev = run_schedule(&ctl, &c, cap, nthreads, &steps, &mut rng);
                note(&ev);
                out.run(&ev)?;
            }
        },
        "seq" => {
            for _ in 0..n {
                let ev = run_seq(&ctl, &c, cap, &mut rng, a.u64("ops", 60) as usize, a.has("junk"));
                note(&ev);
                out.run(&ev)?;
            }
        },
        "dstorm" => {
            for _ in 0..n {
                let ev = run_dstorm(&ctl, &c, cap, &mut rng, a.u64("threads", 8) as usize);
                note(&ev);
                out.run(&ev)?;
            }
        },
        "renames" => {
            run_renames(&ctl, &c, cap, &mut out)?;
        },
        "faults" => {
            run_faults(&ctl, &c, cap, &mut rng, &mut out, a.u64("stride", 1) as usize, &mut note)?;
        },
        "storm" => {
            for i in 0..n {
                let ev = run_storm(&ctl, &c, cap, &mut rng, a.u64("threads", 8) as usize, a.u64("ops", 40) as usize, i % 2 == 0);
                note(&ev);
                out.run(&ev)?;
            }
        },
        m => anyhow::bail!("unknown mode {m}"),
    }
    let (runs, events) = out.finish()?;
    Ok(json!({"driver":"chunkcache","mode":mode,"runs":runs,"events":events,"panics":panics,"errs":errs,"hits":hits,
              "commits_with_eviction":evictions,"cap":cap,"keys":c.names,"nch":nch,
              "sample": sample.iter().map(|s| serde_json::from_str::<Value>(s).unwrap()).collect::<Vec<_>>()})
    .to_string())
}
