//! Driver for C06: content hashes.  Every code path of /repo that computes a chunk / xorb / file / range hash is run
//! on generated chunk lists and compared (through interned ids) with each other and with the independent reference
//! `merkleref`; the REAL aggregation tree built by MerkleMemDB is walked and its grouping per level recorded.
//!
//! One run = one family: a base list and variants made on purpose (changed hash, changed length, swap, insert, drop,
//! duplicate).  modes:
//!   mode=patterns maxn=N        every cut-bit pattern of 1..N leaves (leaf hashes realise the prescribed bits)
//!   mode=random n= seed=        lists of 1 .. 20000 entries, repeated hashes, lengths 0 / 1 / 2^32-1, random salts, keys
//!   mode=data n= seed=          byte strings: one-shot vs streaming vs reference hash; text forms; keyed hashes
//!   mode=sink n= seed=          HashedWrite over a sink that accepts only part of each buffer (short writes)
//!   mode=xorb n= seed=          real chunks -> uploader hash -> CasObject::serialize -> both validators
use std::collections::HashMap;
use std::io::{Cursor, Write};
use std::panic::AssertUnwindSafe;

use mdb_shard::chunk_verification::range_hash_from_chunks;
use merkledb::aggregate_hashes::{cas_node_hash, file_node_hash, with_salt};
use merkledb::{MerkleMemDB, MerkleNode};
use merklehash::{compute_data_hash, HashedWrite, MerkleHash};
use rand::rngs::StdRng;
use rand::Rng;
use serde_json::{json, Value};

use crate::intern::Interner;
use crate::merkleref::{self, H};
use crate::util::{Args, TraceOut};

fn mh(h: &MerkleHash) -> H {
    let mut o = [0u8; 32];
    o.copy_from_slice(h.as_bytes());
    o
}
fn to_mh(h: &H) -> MerkleHash {
    MerkleHash::from(h)
}
fn last_word(h: &H) -> u64 {
    u64::from_le_bytes(h[24..32].try_into().unwrap())
}
fn cut_bit(h: &H) -> bool {
    last_word(h) % 4 == 0
}

struct Tables {
    hashes: Interner, // 32-byte values: hashes, salts, keys
    texts: Interner,
    datas: Interner,
    big_lens: HashMap<u64, i64>,
    counts: HashMap<String, usize>,
}

impl Tables {
    fn new() -> Self {
        let mut t = Tables { hashes: Interner::new(), texts: Interner::new(), datas: Interner::new(), big_lens: HashMap::new(), counts: HashMap::new() };
        t.hashes.set(&[0u8; 32], 0);
        t
    }
    fn hid(&mut self, h: &H) -> i64 {
        self.hashes.id(h)
    }
    /// lengths are interned too (TLC integers are 32 bit): small ones stand for themselves
    fn lenid(&mut self, n: u64) -> i64 {
        if n < 1_000_000 {
            n as i64
        } else {
            let k = self.big_lens.len() as i64;
            *self.big_lens.entry(n).or_insert(1_000_000 + k)
        }
    }
    fn add(&mut self, k: &str, n: usize) {
        *self.counts.entry(k.to_string()).or_default() += n;
    }
}

type Leaf = (H, u64);

/// A 32-byte value whose last u64 word realises the prescribed cut bit.
fn leaf_hash(rng: &mut StdRng, bit: bool) -> H {
    loop {
        let mut h = [0u8; 32];
        rng.fill(&mut h[..]);
        let mut w = last_word(&h);
        if bit {
            w -= w % 4;
        } else if w % 4 == 0 {
            w += rng.gen_range(1..4);
        }
        h[24..32].copy_from_slice(&w.to_le_bytes());
        if h != [0u8; 32] {
            return h;
        }
    }
}

fn pick_len(rng: &mut StdRng) -> u64 {
    match rng.gen_range(0..10) {
        0 => 0,
        1 => 1,
        2 => u32::MAX as u64,
        3 => 65536,
        4 => 131072,
        _ => rng.gen_range(1..200_000),
    }
}

// ------------------------------------------------------------------------------------------------ the real tree
/// Levels of the tree under `root`, bottom-up: (cut bits of the level's nodes, group end indices), plus the leaves.
fn walk(db: &MerkleMemDB, root: &MerkleNode) -> Result<(Vec<(Vec<bool>, Vec<usize>)>, Vec<MerkleNode>), String> {
    use merkledb::prelude_v2::MerkleDBBase;
    let mut levels_top_down: Vec<(Vec<bool>, Vec<usize>)> = vec![];
    let mut cur: Vec<MerkleNode> = vec![root.clone()];
    loop {
        let interior = cur.iter().filter(|n| !n.children().is_empty()).count();
        if interior == 0 {
            break;
        }
        if interior != cur.len() {
            return Err("mixed leaf / interior nodes in one level".into());
        }
        let mut next = vec![];
        let mut ends = vec![];
        for n in &cur {
            let mut sum = 0usize;
            for (cid, clen) in n.children() {
                let c = db.find_node_by_id(*cid).ok_or("dangling child id")?;
                if c.len() != *clen {
                    return Err("child length in the parent differs from the child's".into());
                }
                sum = sum.wrapping_add(c.len());
                next.push(c);
            }
            if sum != n.len() {
                return Err("node length is not the sum of its children".into());
            }
            ends.push(next.len());
        }
        let bits = next.iter().map(|n| cut_bit(&mh(n.hash()))).collect();
        levels_top_down.push((bits, ends));
        cur = next;
        if levels_top_down.len() > 64 {
            return Err("tree deeper than 64".into());
        }
    }
    levels_top_down.reverse();
    Ok((levels_top_down, cur))
}

fn levels_json(levels: &[(Vec<bool>, Vec<usize>)]) -> Value {
    Value::Array(levels.iter().map(|(b, e)| json!({"bits": b, "ends": e})).collect())
}

/// Reference tree: levels by `merkleref::groups` (an independent transcription of the rule).
fn ref_levels(leaves: &[Leaf]) -> (Vec<(Vec<bool>, Vec<usize>)>, H) {
    let mut level: Vec<(H, u64)> = leaves.to_vec();
    let mut out = vec![];
    while level.len() > 1 {
        let g = merkleref::groups(&level);
        let bits = level.iter().map(|(h, _)| cut_bit(h)).collect();
        let ends = g.iter().map(|(_, b)| *b).collect();
        out.push((bits, ends));
        // parents through the public reference root of each group
        level = g
            .iter()
            .map(|(a, b)| {
                let kids = &level[*a..*b];
                let mut buf = String::new();
                let mut total = 0u64;
                for (h, n) in kids {
                    buf.push_str(&format!("{} : {}\n", merkleref::hex(h), n));
                    total = total.wrapping_add(*n);
                }
                (*blake3::keyed_hash(&merkleref::INTERNAL_NODE_KEY, buf.as_bytes()).as_bytes(), total)
            })
            .collect();
    }
    (out, level[0].0)
}

fn panic_text(p: &Box<dyn std::any::Any + Send>) -> String {
    if let Some(s) = p.downcast_ref::<&str>() {
        s.to_string()
    } else if let Some(s) = p.downcast_ref::<String>() {
        s.clone()
    } else {
        "panic".to_string()
    }
}

macro_rules! guarded {
    ($ev:expr, $what:expr, $body:expr) => {
        match std::panic::catch_unwind(AssertUnwindSafe(|| $body)) {
            Ok(v) => v,
            Err(e) => {
                $ev.push(json!({"ev":"MtPanic","where":$what,"what":panic_text(&e)}).to_string());
                return;
            },
        }
    };
}

// ------------------------------------------------------------------------------------------------ one list
struct ListOpts {
    tree: bool,
    ref_tree: bool,
    salts: Vec<[u8; 32]>,
    ranges: usize,
    note: String,
}

fn list_events(t: &mut Tables, ev: &mut Vec<String>, lid: usize, leaves: &[Leaf], o: &ListOpts, rng: &mut StdRng) {
    let lj: Vec<Value> = leaves.iter().map(|(h, n)| json!([t.hid(h), t.lenid(*n), cut_bit(h)])).collect();
    ev.push(json!({"ev":"MtList","lid":lid,"n":leaves.len(),"note":o.note,"leaves":lj}).to_string());
    let chunks: Vec<(MerkleHash, usize)> = leaves.iter().map(|(h, n)| (to_mh(h), *n as usize)).collect();
    let total: u64 = leaves.iter().fold(0u64, |a, (_, n)| a.wrapping_add(*n));

    // the real tree, both merge flavours
    if o.tree {
        for (path, file) in [("merge_to_cas", false), ("merge_to_file", true)] {
            let r = guarded!(ev, path, {
                use merkledb::prelude_v2::{MerkleDBBase, MerkleDBHighLevelMethodsV2};
                let mut db = MerkleMemDB::default();
                let nodes: Vec<MerkleNode> = chunks.iter().map(|(h, n)| db.maybe_add_node(h, *n, vec![]).0).collect();
                let root = if file { db.merge_to_file(&nodes) } else { db.merge_to_cas(&nodes) };
                let w = walk(&db, &root);
                (root, w)
            });
            let (root, w) = r;
            match w {
                Ok((levels, lv)) => {
                    let leafids: Vec<i64> = lv.iter().map(|n| t.hid(&mh(n.hash()))).collect();
                    let leaflens: Vec<i64> = lv.iter().map(|n| t.lenid(n.len() as u64)).collect();
                    t.add("trees", 1);
                    t.add("tree_levels", levels.len());
                    for (bits, ends) in &levels {
                        let mut prev = 0;
                        for (gi, e) in ends.iter().enumerate() {
                            let sz = e - prev;
                            let closed_by_bit = bits[e - 1] && sz >= 3 && sz <= 8;
                            if sz == 9 {
                                t.add("groups_full9", 1);
                            } else if gi + 1 == ends.len() && !closed_by_bit {
                                t.add("groups_last", 1);
                                if sz == 1 {
                                    t.add("groups_single", 1);
                                }
                            } else {
                                t.add("groups_bit", 1);
                                if sz == 3 {
                                    t.add("groups_bit3", 1);
                                }
                            }
                            // a set cut bit that did NOT close (fewer than 2 nodes before it)
                            for i in prev..(*e - 1).min(prev + 2) {
                                if bits[i] {
                                    t.add("bit_ignored_early", 1);
                                }
                            }
                            prev = *e;
                        }
                    }
                    ev.push(
                        json!({"ev":"MtTree","lid":lid,"kind":"xorb","path":path,"root":t.hid(&mh(root.hash())),"levels":levels_json(&levels),
                               "leafids":leafids,"leaflens":leaflens,"total_ok": root.len() as u64 == total})
                        .to_string(),
                    );
                },
                Err(e) => ev.push(json!({"ev":"MtAnomaly","lid":lid,"path":path,"what":e}).to_string()),
            }
        }
    }
    if o.ref_tree {
        let (levels, root) = ref_levels(leaves);
        let leafids: Vec<i64> = leaves.iter().map(|(h, _)| t.hid(h)).collect();
        let leaflens: Vec<i64> = leaves.iter().map(|(_, n)| t.lenid(*n)).collect();
        ev.push(
            json!({"ev":"MtTree","lid":lid,"kind":"xorb","path":"ref_tree","root":t.hid(&root),"levels":levels_json(&levels),
                   "leafids":leafids,"leaflens":leaflens,"total_ok":true})
            .to_string(),
        );
    }
    // xorb hash: producer path, both validators' path, reference
    let h = guarded!(ev, "cas_node_hash", cas_node_hash(&chunks));
    ev.push(json!({"ev":"MtRoot","lid":lid,"kind":"xorb","salt":0,"path":"cas_node_hash","id":t.hid(&mh(&h))}).to_string());
    let h = guarded!(ev, "add_file_finalize", {
        use merkledb::prelude::MerkleDBHighLevelMethodsV1;
        let cs: Vec<merkledb::Chunk> = chunks.iter().map(|(h, n)| merkledb::Chunk { hash: *h, length: *n }).collect();
        let mut db = MerkleMemDB::default();
        let mut staging = db.start_insertion_staging();
        db.add_file(&mut staging, &cs);
        let ret = db.finalize(staging);
        *ret.hash()
    });
    ev.push(json!({"ev":"MtRoot","lid":lid,"kind":"xorb","salt":0,"path":"add_file_finalize","id":t.hid(&mh(&h))}).to_string());
    let r = merkleref::xorb_hash(leaves);
    ev.push(json!({"ev":"MtRoot","lid":lid,"kind":"xorb","salt":0,"path":"ref","id":t.hid(&r)}).to_string());
    t.add("roots", 3);
    // file hash under several salts
    for s in &o.salts {
        let sid = t.hid(s);
        let h = guarded!(ev, "file_node_hash", file_node_hash(&chunks, s));
        match h {
            Ok(h) => ev.push(json!({"ev":"MtRoot","lid":lid,"kind":"file","salt":sid,"path":"file_node_hash","id":t.hid(&mh(&h))}).to_string()),
            Err(e) => ev.push(json!({"ev":"MtAnomaly","lid":lid,"path":"file_node_hash","what":format!("{e:?}")}).to_string()),
        }
        let r = merkleref::file_hash(leaves, s);
        ev.push(json!({"ev":"MtRoot","lid":lid,"kind":"file","salt":sid,"path":"ref_file","id":t.hid(&r)}).to_string());
        // with_salt(root, salt): the file hash is the salted root
        let root = merkleref::xorb_hash(leaves);
        if let Ok(Ok(w)) = std::panic::catch_unwind(|| with_salt(&to_mh(&root), s)) {
            let (hid, oid) = (t.hid(&root), t.hid(&mh(&w)));
            ev.push(json!({"ev":"MtKeyed","fn":"salt","path":"with_salt","h":hid,"key":sid,"out":oid}).to_string());
            ev.push(json!({"ev":"MtRoot","lid":lid,"kind":"file","salt":sid,"path":"with_salt(root)","id":oid}).to_string());
        }
        t.add("file_roots", 3);
    }
    // range-verification hashes
    for _ in 0..o.ranges {
        let a = rng.gen_range(0..leaves.len());
        let span = rng.gen_range(0..64);
        let b = rng.gen_range(a + 1..=leaves.len().min(a + 1 + span));
        let hs: Vec<MerkleHash> = chunks[a..b].iter().map(|(h, _)| *h).collect();
        let h = guarded!(ev, "range_hash_from_chunks", range_hash_from_chunks(&hs));
        ev.push(json!({"ev":"MtRange","lid":lid,"a":a,"b":b,"path":"range_hash_from_chunks","id":t.hid(&mh(&h))}).to_string());
        let hr: Vec<H> = leaves[a..b].iter().map(|(h, _)| *h).collect();
        ev.push(json!({"ev":"MtRange","lid":lid,"a":a,"b":b,"path":"ref","id":t.hid(&merkleref::range_hash(&hr))}).to_string());
        t.add("ranges", 2);
    }
}

/// text / byte forms of a hash and keyed hashes of it
fn hash_forms(t: &mut Tables, ev: &mut Vec<String>, h: &H, rng: &mut StdRng) {
    let m = to_mh(h);
    let id = t.hid(h);
    // hex
    let hex = m.hex();
    let back = MerkleHash::from_hex(&hex);
    let (tid, rtid) = (t.texts.id(hex.as_bytes()), t.texts.id(merkleref::hex(h).as_bytes()));
    ev.push(json!({"ev":"MtText","form":"hex","id":id,"ok":back.is_ok(),"back":back.map(|b| t.hid(&mh(&b))).unwrap_or(-1),"tid":tid,"ref_tid":rtid}).to_string());
    // the formatting traits print the same text
    for (form, s) in [("lowerhex", format!("{:x}", m)), ("display", format!("{}", m)), ("debug", format!("{:?}", m))] {
        let back = MerkleHash::from_hex(&s);
        let tid = t.texts.id(s.as_bytes());
        ev.push(json!({"ev":"MtText","form":form,"id":id,"ok":back.is_ok(),"back":back.map(|b| t.hid(&mh(&b))).unwrap_or(-1),"tid":tid,"ref_tid":rtid}).to_string());
    }
    // base64 (url-safe, no padding, over the raw bytes)
    {
        use base64::Engine;
        let b64 = m.base64();
        let back = MerkleHash::from_base64(&b64);
        let r = base64::engine::general_purpose::URL_SAFE_NO_PAD.encode(h);
        let (tid, rtid) = (t.texts.id(b64.as_bytes()), t.texts.id(r.as_bytes()));
        ev.push(json!({"ev":"MtText","form":"base64","id":id,"ok":back.is_ok(),"back":back.map(|b| t.hid(&mh(&b))).unwrap_or(-1),"tid":tid,"ref_tid":rtid}).to_string());
    }
    // raw bytes
    {
        let bytes = m.as_bytes().to_vec();
        let back = MerkleHash::from_slice(&bytes);
        let (tid, rtid) = (t.texts.id(&bytes), t.texts.id(h));
        ev.push(json!({"ev":"MtText","form":"slice","id":id,"ok":back.is_ok(),"back":back.map(|b| t.hid(&mh(&b))).unwrap_or(-1),"tid":tid,"ref_tid":rtid}).to_string());
        let v: Vec<u8> = m.into();
        let back = MerkleHash::try_from(&v[..]);
        let tid = t.texts.id(&v);
        ev.push(json!({"ev":"MtText","form":"vec","id":id,"ok":back.is_ok(),"back":back.map(|b| t.hid(&mh(&b))).unwrap_or(-1),"tid":tid,"ref_tid":rtid}).to_string());
    }
    t.add("texts", 7);
    // keyed hash
    for _ in 0..2 {
        let mut key = [0u8; 32];
        if rng.gen_bool(0.9) {
            rng.fill(&mut key[..]);
        }
        let kid = t.hid(&key);
        let out = m.hmac(to_mh(&key));
        let r: H = *blake3::keyed_hash(&key, h).as_bytes();
        let (oid, rid) = (t.hid(&mh(&out)), t.hid(&r));
        ev.push(json!({"ev":"MtKeyed","fn":"hmac","path":"hmac","h":id,"key":kid,"out":oid}).to_string());
        ev.push(json!({"ev":"MtKeyed","fn":"hmac","path":"ref","h":id,"key":kid,"out":rid}).to_string());
        t.add("keyed", 2);
    }
}

// ------------------------------------------------------------------------------------------------ families
fn variants(rng: &mut StdRng, base: &[Leaf], lens: &mut HashMap<H, u64>, how_many: usize) -> Vec<(String, Vec<Leaf>)> {
    let n = base.len();
    let mut out: Vec<(String, Vec<Leaf>)> = vec![];
    let mut fresh = |rng: &mut StdRng, lens: &mut HashMap<H, u64>| -> Leaf {
        let bit = rng.gen_bool(0.3);
        let h = leaf_hash(rng, bit);
        let l = pick_len(rng);
        lens.insert(h, l);
        (h, l)
    };
    let kinds = ["change", "relen", "swap", "insert", "drop", "dup", "insert_existing", "change_bit"];
    let mut order: Vec<usize> = (0..kinds.len()).collect();
    use rand::seq::SliceRandom;
    order.shuffle(rng);
    for k in order {
        if out.len() >= how_many {
            break;
        }
        let i = rng.gen_range(0..n);
        let mut v = base.to_vec();
        match kinds[k] {
            "change" => {
                v[i] = fresh(rng, lens);
            },
            "change_bit" => {
                // same length, hash replaced by one with the opposite cut bit: the tree shape changes
                let h = leaf_hash(rng, !cut_bit(&base[i].0));
                lens.insert(h, base[i].1);
                v[i] = (h, base[i].1);
            },
            "relen" => {
                // only where the hash occurs once (inside a list the length is a function of the hash), and only in
                // lists of >= 2 leaves: a single leaf is its own root, whatever length is recorded for it
                if n < 2 || base.iter().filter(|x| x.0 == base[i].0).count() != 1 {
                    continue;
                }
                v[i].1 = if v[i].1 == 0 { 1 } else { v[i].1 - 1 };
            },
            "swap" => {
                let Some(j) = (0..n.saturating_sub(1)).map(|d| (i + d) % (n - 1)).find(|j| base[*j] != base[*j + 1]) else { continue };
                v.swap(j, j + 1);
            },
            "insert" => {
                let x = fresh(rng, lens);
                v.insert(rng.gen_range(0..=n), x);
            },
            "insert_existing" => {
                let x = base[rng.gen_range(0..n)];
                v.insert(i, x);
            },
            "drop" => {
                if n < 2 {
                    continue;
                }
                v.remove(i);
            },
            "dup" => {
                let x = v[i];
                v.insert(i, x);
            },
            _ => {},
        }
        if v != base {
            out.push((kinds[k].to_string(), v));
        }
    }
    out
}

fn family(t: &mut Tables, rng: &mut StdRng, base: Vec<Leaf>, mut lens: HashMap<H, u64>, nvariants: usize, full: bool, note: &str) -> Vec<String> {
    let mut ev = vec![];
    let mut salts: Vec<[u8; 32]> = vec![[0u8; 32]];
    for _ in 0..(if full { 2 } else { 1 }) {
        let mut s = [0u8; 32];
        rng.fill(&mut s[..]);
        salts.push(s);
    }
    let small = base.len() <= 3000;
    let mut lists = vec![(note.to_string(), base.clone())];
    lists.extend(variants(rng, &base, &mut lens, nvariants));
    // the base list again, rebuilt: same value, same ids expected
    if full {
        lists.push(("again".to_string(), base.clone()));
    }
    for (i, (note, l)) in lists.iter().enumerate() {
        let o = ListOpts { tree: true, ref_tree: small, salts: if i == 0 || full { salts.clone() } else { vec![salts[1]] }, ranges: if full { 2 } else { 1 }, note: note.clone() };
        list_events(t, &mut ev, i + 1, l, &o, rng);
        t.add(&format!("variant:{note}"), 1);
    }
    // forms of the base root
    let root = merkleref::xorb_hash(&base);
    hash_forms(t, &mut ev, &root, rng);
    t.add("families", 1);
    ev
}

fn base_from_bits(rng: &mut StdRng, bits: &[bool], policy: u32, lens: &mut HashMap<H, u64>) -> Vec<Leaf> {
    // policy 0: all hashes distinct; 1: two hashes (one per bit value); 2: a pool of few hashes per bit value
    let pool: Vec<Vec<H>> = [true, false]
        .iter()
        .map(|b| {
            let k = match policy {
                1 => 1,
                2 => 3,
                _ => 0,
            };
            (0..k).map(|_| leaf_hash(rng, *b)).collect()
        })
        .collect();
    bits.iter()
        .map(|b| {
            let p = &pool[if *b { 0 } else { 1 }];
            let h = if p.is_empty() { leaf_hash(rng, *b) } else { p[rng.gen_range(0..p.len())] };
            let l = *lens.entry(h).or_insert_with(|| pick_len(rng));
            (h, l)
        })
        .collect()
}

/// An io::Write sink that takes at most `k` bytes per call.
struct ShortWriter {
    buf: Vec<u8>,
    k: usize,
}
impl Write for ShortWriter {
    fn write(&mut self, b: &[u8]) -> std::io::Result<usize> {
        let n = b.len().min(self.k);
        self.buf.extend_from_slice(&b[..n]);
        Ok(n)
    }
    // gathered writes: at most k bytes in total, so the accepted count may end inside a buffer
    fn write_vectored(&mut self, bufs: &[std::io::IoSlice<'_>]) -> std::io::Result<usize> {
        let mut left = self.k;
        let mut n = 0;
        for b in bufs {
            let m = b.len().min(left);
            self.buf.extend_from_slice(&b[..m]);
            left -= m;
            n += m;
            if left == 0 {
                break;
            }
        }
        Ok(n)
    }
    fn flush(&mut self) -> std::io::Result<()> {
        Ok(())
    }
}

/// An io::Write sink that takes at most `k` bytes per call and fails for good once `budget` bytes are in.
struct FailingWriter {
    buf: Vec<u8>,
    k: usize,
    budget: usize,
}
impl Write for FailingWriter {
    fn write(&mut self, b: &[u8]) -> std::io::Result<usize> {
        let room = self.budget - self.buf.len();
        if room == 0 {
            return Err(std::io::Error::new(std::io::ErrorKind::Other, "sink is full"));
        }
        let n = b.len().min(self.k).min(room);
        self.buf.extend_from_slice(&b[..n]);
        Ok(n)
    }
    fn flush(&mut self) -> std::io::Result<()> {
        Ok(())
    }
}

/// drives `write_vectored` the way `write_all_vectored` would: random gather lists, resubmitting what was not accepted
fn write_all_gathered<W: Write>(w: &mut W, d: &[u8], rng: &mut StdRng) -> std::io::Result<()> {
    let mut off = 0;
    while off < d.len() {
        let mut cuts = vec![off];
        let mut p = off;
        for _ in 0..rng.gen_range(1..5) {
            if p >= d.len() {
                break;
            }
            p += rng.gen_range(0..=(d.len() - p).min(300));
            cuts.push(p);
        }
        if *cuts.last().unwrap() == off {
            cuts.push((off + 1).min(d.len()));
        }
        let slices: Vec<std::io::IoSlice<'_>> = cuts.windows(2).map(|c| std::io::IoSlice::new(&d[c[0]..c[1]])).collect();
        let n = w.write_vectored(&slices)?;
        if n == 0 {
            return Err(std::io::ErrorKind::WriteZero.into());
        }
        off += n;
    }
    Ok(())
}

fn data_family(t: &mut Tables, rng: &mut StdRng, short_writer: bool) -> Vec<String> {
    let mut ev = vec![];
    let sizes = [0usize, 1, 2, 63, 64, 65, 1023, 1024, 1025, 4096, 65536, 65537, 200_000];
    let mut strings: Vec<Vec<u8>> = vec![];
    for _ in 0..6 {
        let n = if rng.gen_bool(0.5) { sizes[rng.gen_range(0..sizes.len())] } else { rng.gen_range(0..300_000) };
        let mut d = vec![0u8; n];
        match rng.gen_range(0..4) {
            0 => {},
            1 => d.iter_mut().for_each(|x| *x = 0xff),
            _ => rng.fill(&mut d[..]),
        }
        strings.push(d);
    }
    // near-collisions on purpose: one byte flipped, one byte appended, one byte dropped
    let b0 = strings[0].clone();
    if !b0.is_empty() {
        let mut x = b0.clone();
        let i = rng.gen_range(0..x.len());
        x[i] ^= 1;
        strings.push(x);
        strings.push(b0[..b0.len() - 1].to_vec());
    }
    let mut y = b0.clone();
    y.push(0);
    strings.push(y);
    strings.push(b0);
    for d in &strings {
        let did = t.datas.id(d);
        let one = compute_data_hash(d);
        ev.push(json!({"ev":"MtData","did":did,"n":d.len(),"path":"compute_data_hash","id":t.hid(&mh(&one))}).to_string());
        // streaming writer over random splits (including empty writes)
        for _ in 0..2 {
            let mut w = HashedWrite::new(Vec::new());
            let mut off = 0;
            let mut splits = 0;
            while off < d.len() {
                let k = match rng.gen_range(0..5) {
                    0 => 0,
                    1 => 1,
                    2 => rng.gen_range(0..=64),
                    _ => rng.gen_range(0..=d.len() - off),
                }
                .min(d.len() - off);
                w.write_all(&d[off..off + k]).unwrap();
                off += k;
                splits += 1;
            }
            let _ = w.flush();
            let sh = w.hash();
            let inner_ok = w.into_inner() == *d;
            ev.push(json!({"ev":"MtData","did":did,"n":d.len(),"path":"HashedWrite","splits":splits,"inner_ok":inner_ok,"id":t.hid(&mh(&sh))}).to_string());
        }
        // a sink that accepts at most k bytes per write call (io::Write allows short writes; write_all retries)
        if short_writer {
            let k = [1usize, 7, 64, 1000][rng.gen_range(0..4)];
            let mut w = HashedWrite::new(ShortWriter { buf: Vec::new(), k });
            let r = w.write_all(d);
            let _ = w.flush();
            let sh = w.hash();
            let inner_ok = r.is_ok() && w.into_inner().buf == *d;
            ev.push(json!({"ev":"MtData","did":did,"n":d.len(),"path":"HashedWrite/short_sink","k":k,"inner_ok":inner_ok,"id":t.hid(&mh(&sh))}).to_string());
            t.add("datas_short_sink", 1);
        }
        ev.push(json!({"ev":"MtData","did":did,"n":d.len(),"path":"ref","id":t.hid(&merkleref::chunk_hash(d))}).to_string());
        t.add("datas", 4);
        let h = mh(&one);
        hash_forms(t, &mut ev, &h, rng);
    }
    // special hash values through the text forms
    for h in [[0u8; 32], [0xffu8; 32], {
        let mut x = [0u8; 32];
        x[0] = 1;
        x
    }, {
        let mut x = [0u8; 32];
        x[31] = 0x80;
        x
    }] {
        hash_forms(t, &mut ev, &h, rng);
    }
    ev
}

fn xorb_family(t: &mut Tables, rng: &mut StdRng) -> Vec<String> {
    use cas_object::{CasObject, CompressionScheme};
    let mut ev = vec![];
    let n = match rng.gen_range(0..4) {
        0 => 1,
        1 => rng.gen_range(2..=9),
        2 => rng.gen_range(10..=60),
        _ => rng.gen_range(61..=400),
    };
    // real chunks, some repeated
    let mut pool: Vec<Vec<u8>> = vec![];
    let mut chunks: Vec<deduplication::Chunk> = vec![];
    for _ in 0..n {
        let d = if !pool.is_empty() && rng.gen_bool(0.2) {
            pool[rng.gen_range(0..pool.len())].clone()
        } else {
            let len = match rng.gen_range(0..5) {
                0 => 1,
                1 => rng.gen_range(1..=64),
                _ => rng.gen_range(1..=3000),
            };
            let mut d = vec![0u8; len];
            if rng.gen_bool(0.7) {
                rng.fill(&mut d[..]);
            }
            pool.push(d.clone());
            d
        };
        chunks.push(deduplication::Chunk { hash: compute_data_hash(&d), data: d.into() });
    }
    let leaves: Vec<Leaf> = chunks.iter().map(|c| (mh(&c.hash), c.data.len() as u64)).collect();
    // every chunk hash equals the reference chunk hash of its bytes
    for c in chunks.iter().take(3) {
        let did = t.datas.id(&c.data);
        ev.push(json!({"ev":"MtData","did":did,"n":c.data.len(),"path":"compute_data_hash","id":t.hid(&mh(&c.hash))}).to_string());
        ev.push(json!({"ev":"MtData","did":did,"n":c.data.len(),"path":"ref","id":t.hid(&merkleref::chunk_hash(&c.data))}).to_string());
    }
    let o = ListOpts { tree: true, ref_tree: true, salts: vec![], ranges: 1, note: "xorb".into() };
    list_events(t, &mut ev, 1, &leaves, &o, rng);
    // the uploader's hash
    let raw = match std::panic::catch_unwind(AssertUnwindSafe(|| deduplication::RawXorbData::from_chunks(&chunks))) {
        Ok(r) => r,
        Err(e) => {
            ev.push(json!({"ev":"MtPanic","where":"RawXorbData::from_chunks","what":panic_text(&e)}).to_string());
            return ev;
        },
    };
    let x = raw.hash();
    let data = raw.to_vec();
    let mut off = 0u32;
    let cb: Vec<(MerkleHash, u32)> = chunks
        .iter()
        .map(|c| {
            off += c.data.len() as u32;
            (c.hash, off)
        })
        .collect();
    let scheme = [None, Some(CompressionScheme::None), Some(CompressionScheme::LZ4), Some(CompressionScheme::ByteGrouping4LZ4)][rng.gen_range(0..4)];
    let mut buf = Cursor::new(Vec::new());
    let ser = std::panic::catch_unwind(AssertUnwindSafe(|| CasObject::serialize(&mut buf, &x, &data, &cb, scheme)));
    let info = match ser {
        Ok(Ok((cas, _))) => cas.info.cashash,
        Ok(Err(e)) => {
            ev.push(json!({"ev":"MtAnomaly","path":"CasObject::serialize","what":format!("{e:?}")}).to_string());
            return ev;
        },
        Err(e) => {
            ev.push(json!({"ev":"MtPanic","where":"CasObject::serialize","what":panic_text(&e)}).to_string());
            return ev;
        },
    };
    let bytes = buf.into_inner();
    // a wrong hash: the aggregate of a one-element variant, or a random value
    let wrong = if leaves.len() > 1 && rng.gen_bool(0.7) {
        let mut v = leaves.clone();
        if rng.gen_bool(0.5) {
            v.remove(rng.gen_range(0..v.len()));
        } else {
            let i = rng.gen_range(0..v.len() - 1);
            if v[i] != v[i + 1] {
                v.swap(i, i + 1);
            } else {
                v.remove(i);
            }
        }
        to_mh(&merkleref::xorb_hash(&v))
    } else {
        to_mh(&leaf_hash(rng, false))
    };
    let seek = |h: &MerkleHash| -> bool {
        std::panic::catch_unwind(|| matches!(CasObject::validate_cas_object(&mut Cursor::new(&bytes), h), Ok(Some(_)))).unwrap_or(false)
    };
    let stream = |h: &MerkleHash| -> bool {
        std::panic::catch_unwind(|| {
            let mut r = futures::io::Cursor::new(&bytes[..]);
            matches!(futures::executor::block_on(cas_object::validate_cas_object_from_async_read(&mut r, h)), Ok(Some(_)))
        })
        .unwrap_or(false)
    };
    let (seek_ok, stream_ok, seek_wrong, stream_wrong) = (seek(&x), stream(&x), seek(&wrong), stream(&wrong));
    ev.push(
        json!({"ev":"MtXorb","lid":1,"x":t.hid(&mh(&x)),"info":t.hid(&mh(&info)),"nchunks":chunks.len(),"bytes":bytes.len(),
               "scheme":format!("{scheme:?}"),"seek_ok":seek_ok,"stream_ok":stream_ok,"seek_wrong":seek_wrong,"stream_wrong":stream_wrong})
        .to_string(),
    );
    t.add("xorbs", 1);
    // range hash through the deserialized object
    if let Ok(cas) = CasObject::deserialize(&mut Cursor::new(&bytes)) {
        let a = rng.gen_range(0..chunks.len());
        let b = rng.gen_range(a + 1..=chunks.len());
        if let Ok(h) = cas.generate_chunk_range_hash(a as u32, b as u32) {
            ev.push(json!({"ev":"MtRange","lid":1,"a":a,"b":b,"path":"CasObject::generate_chunk_range_hash","id":t.hid(&mh(&h))}).to_string());
            let hr: Vec<H> = leaves[a..b].iter().map(|(h, _)| *h).collect();
            ev.push(json!({"ev":"MtRange","lid":1,"a":a,"b":b,"path":"ref","id":t.hid(&merkleref::range_hash(&hr))}).to_string());
        }
    }
    ev
}

pub fn run(a: &Args) -> anyhow::Result<String> {
    crate::util::silence_panics();
    let mode = a.str("mode", "random");
    let seed = a.u64("seed", 1);
    let n = a.u64("n", 20) as usize;
    let mut out = TraceOut::create(&a.str("out", "/dev/null"))?;
    out.run(&[json!({"ev":"MtSetup","mode":mode,"branching":4}).to_string()])?;
    let mut rng = crate::util::rng(seed);
    let mut t = Tables::new();
    let mut sample: Vec<String> = vec![];
    let mut sizes_seen: Vec<usize> = vec![];
    match mode.as_str() {
        "patterns" => {
            let maxn = a.u64("maxn", 8) as usize;
            let stride = a.u64("stride", 1) as usize;
            let mut idx = 0usize;
            for len in 1..=maxn {
                for pat in 0..(1u32 << len) {
                    idx += 1;
                    if idx % stride != 0 {
                        continue;
                    }
                    let bits: Vec<bool> = (0..len).map(|i| (pat >> i) & 1 == 1).collect();
                    let mut lens = HashMap::new();
                    let base = base_from_bits(&mut rng, &bits, (idx % 3) as u32, &mut lens);
                    let ev = family(&mut t, &mut rng, base, lens, 2, false, "pattern");
                    if sample.is_empty() && len == 4 {
                        sample = ev.iter().take(6).cloned().collect();
                    }
                    out.run(&ev)?;
                }
            }
        },
        "data" => {
            for _ in 0..n {
                let ev = data_family(&mut t, &mut rng, a.u64("short_sink", 0) == 1);
                if sample.is_empty() {
                    sample = ev.iter().take(6).cloned().collect();
                }
                out.run(&ev)?;
            }
        },
        "sink" => {
            // HashedWrite over a sink that takes at most k bytes per write call; one family per k
            for i in 0..n {
                let mut ev = vec![];
                for _ in 0..4 {
                    let len = [0usize, 1, 5, 64, 1000, 1001, 70_000][rng.gen_range(0..7)];
                    let mut d = vec![0u8; len];
                    rng.fill(&mut d[..]);
                    let did = t.datas.id(&d);
                    ev.push(json!({"ev":"MtData","did":did,"n":d.len(),"path":"compute_data_hash","id":t.hid(&mh(&compute_data_hash(&d)))}).to_string());
                    let k = [1usize, 7, 64, 1000, 1 << 20][i % 5];
                    let mut w = HashedWrite::new(ShortWriter { buf: Vec::new(), k });
                    let r = w.write_all(&d);
                    let _ = w.flush();
                    let sh = w.hash();
                    let inner_ok = r.is_ok() && w.into_inner().buf == d;
                    ev.push(json!({"ev":"MtData","did":did,"n":d.len(),"path":"HashedWrite/short_sink","k":k,"inner_ok":inner_ok,"id":t.hid(&mh(&sh))}).to_string());
                    // the gathered-write entry point of io::Write over the same sinks
                    let mut w = HashedWrite::new(ShortWriter { buf: Vec::new(), k });
                    let r = write_all_gathered(&mut w, &d, &mut rng);
                    let _ = w.flush();
                    let sh = w.hash();
                    let inner_ok = r.is_ok() && w.into_inner().buf == d;
                    ev.push(json!({"ev":"MtData","did":did,"n":d.len(),"path":"HashedWrite/gathered","k":k,"inner_ok":inner_ok,"id":t.hid(&mh(&sh))}).to_string());
                    ev.push(json!({"ev":"MtData","did":did,"n":d.len(),"path":"ref","id":t.hid(&merkleref::chunk_hash(&d))}).to_string());
                    t.add("datas_short_sink", 2);
                    // a sink that runs full in the middle of a write_all: the error is returned, and the hash is the hash
                    // of exactly the bytes the sink holds
                    if d.len() > 1 {
                        let budget = rng.gen_range(0..d.len());
                        let mut w = HashedWrite::new(FailingWriter { buf: Vec::new(), k, budget });
                        let r = w.write_all(&d);
                        let sh = w.hash();
                        let got = w.into_inner().buf;
                        let gid = t.datas.id(&got);
                        ev.push(json!({"ev":"MtData","did":gid,"n":got.len(),"path":"compute_data_hash","id":t.hid(&mh(&compute_data_hash(&got)))}).to_string());
                        ev.push(json!({"ev":"MtData","did":gid,"n":got.len(),"path":"HashedWrite/failing_sink","k":k,"inner_ok":r.is_err() && got[..] == d[..budget],"id":t.hid(&mh(&sh))}).to_string());
                        ev.push(json!({"ev":"MtData","did":gid,"n":got.len(),"path":"ref","id":t.hid(&merkleref::chunk_hash(&got))}).to_string());
                        t.add("datas_short_sink", 1);
                    }
                }
                if sample.is_empty() {
                    sample = ev.iter().take(3).cloned().collect();
                }
                out.run(&ev)?;
            }
        },
        "xorb" => {
            for _ in 0..n {
                let ev = xorb_family(&mut t, &mut rng);
                if sample.is_empty() {
                    sample = ev.iter().rev().take(3).cloned().collect();
                }
                out.run(&ev)?;
            }
        },
        _ => {
            let big = a.u64("big", 20000) as usize;
            for i in 0..n {
                let len = match i % 8 {
                    0 => rng.gen_range(1..=12),
                    1 => rng.gen_range(9..=40),
                    2 => {
                        if i == 2 {
                            1
                        } else {
                            rng.gen_range(1..=3)
                        }
                    },
                    3 => rng.gen_range(40..=300),
                    4 => rng.gen_range(300..=2000),
                    5 => [8usize, 9, 10, 17, 18, 19, 72, 73, 81, 82][rng.gen_range(0..10)],
                    6 => rng.gen_range(1..=100),
                    _ => {
                        if i == 7 {
                            big
                        } else {
                            rng.gen_range(2000..=big.max(2001))
                        }
                    },
                };
                sizes_seen.push(len);
                // cut-bit density: natural (1/4), none (groups of 9), all (groups of 3)
                let dens = [0.25, 0.25, 0.0, 1.0, 0.5, 0.05][rng.gen_range(0..6)];
                let bits: Vec<bool> = (0..len).map(|_| rng.gen_bool(dens)).collect();
                let mut lens = HashMap::new();
                let policy = rng.gen_range(0..3);
                let base = base_from_bits(&mut rng, &bits, policy, &mut lens);
                let nvar = if len > 3000 { 2 } else { 5 };
                let ev = family(&mut t, &mut rng, base, lens, nvar, len <= 3000, "random");
                out.run(&ev)?;
            }
        },
    }
    let (runs, events) = out.finish()?;
    sizes_seen.sort();
    Ok(json!({"driver":"merkle","mode":mode,"runs":runs - 1,"events":events,"counts":t.counts,"list_sizes":sizes_seen,
              "hashes_interned": t.hashes.len(),
              "sample": sample.iter().map(|s| { let mut v = serde_json::from_str::<Value>(s).unwrap(); if let Some(o) = v.as_object_mut() { for k in ["leaves","leafids","leaflens"] { if let Some(x) = o.get_mut(k) { if x.as_array().map(|a| a.len() > 12).unwrap_or(false) { *x = json!("(elided)"); } } } } v }).collect::<Vec<_>>()})
    .to_string())
}
