//! Driver for C19 (interrupted writes never leave a partial file under a final name).
//!
//! Each operation is run once with a crash hook that copies the directory tree at every crash point (= between two
//! file-system effects; "completed system calls persist").  A crash in the middle of writing the temporary file is
//! emulated on the snapshot taken just before the rename by truncating the temporary file to several prefix lengths
//! (a sequentially written file holds a prefix of its content).  Every snapshot is then re-opened by the real
//! component and described: which names are final / temporary, whether every final-named file is complete and
//! consistent with its name, and which of the records that were retrievable before the operation still are.
use std::collections::HashMap;
use std::io::Cursor;
use std::path::{Path, PathBuf};
use std::sync::{Arc, Mutex};

use cas_client::{LocalClient, UploadClient};
use cas_types::ChunkRange;
use chunk_cache::{CacheConfig, ChunkCache, DiskCache};
use mdb_shard::cas_structs::{CASChunkSequenceEntry, CASChunkSequenceHeader, MDBCASInfo};
use mdb_shard::session_directory::consolidate_shards_in_directory;
use mdb_shard::shard_in_memory::MDBInMemoryShard;
use mdb_shard::utils::{is_temp_shard_file, parse_shard_filename};
use mdb_shard::{MDBShardFile, MDBShardInfo};
use merklehash::{compute_data_hash, MerkleHash};
use rand::Rng;
use serde_json::{json, Value};

use crate::ctl::Ctl;
use crate::drivers::chunkcache::Content;
use crate::util::Args;

type Rng_ = rand::rngs::StdRng;

fn copy_tree(src: &Path, dst: &Path) {
    let _ = std::fs::create_dir_all(dst);
    if let Ok(rd) = std::fs::read_dir(src) {
        for e in rd.flatten() {
            let p = e.path();
            let d = dst.join(e.file_name());
            if p.is_dir() {
                copy_tree(&p, &d);
            } else {
                let _ = std::fs::copy(&p, &d);
                // snapshots must stay writable even if the original was made read-only
                if let Ok(md) = std::fs::metadata(&d) {
                    let mut perm = md.permissions();
                    #[allow(clippy::permissions_set_readonly_false)]
                    perm.set_readonly(false);
                    let _ = std::fs::set_permissions(&d, perm);
                }
            }
        }
    }
}

struct Snaps {
    root: PathBuf,
    watched: PathBuf,
    list: Vec<(String, PathBuf)>,
}

fn with_crash_points<T>(ctl: &Arc<Ctl>, watched: &Path, snaproot: &Path, f: impl FnOnce() -> T) -> (T, Vec<(String, PathBuf)>) {
    let st = Arc::new(Mutex::new(Snaps { root: snaproot.to_path_buf(), watched: watched.to_path_buf(), list: vec![] }));
    let st2 = st.clone();
    let take = move |name: &str| {
        let mut g = st2.lock().unwrap();
        let n = g.list.len();
        let d = g.root.join(format!("{n:03}_{name}"));
        copy_tree(&g.watched.clone(), &d);
        g.list.push((name.to_string(), d));
    };
    let take = Arc::new(take);
    let t1 = take.clone();
    ctl.set_crash_fn(Some(Arc::new(move |name: &str, _detail: &str| t1(name))));
    let t2 = take.clone();
    file_utils::verif::set_crash_hook(Some(Arc::new(move |name: &str, _p: &Path| t2(name))));
    take("start");
    let r = f();
    take("end");
    ctl.set_crash_fn(None);
    file_utils::verif::set_crash_hook(None);
    let list = st.lock().unwrap().list.clone();
    (r, list)
}

/// variants of a snapshot in which the temporary file (if any) holds only a prefix of its content
fn partial_variants(snap: &Path, is_temp: &dyn Fn(&Path) -> bool, out_root: &Path, tag: &str) -> Vec<(String, PathBuf)> {
    fn find(dir: &Path, is_temp: &dyn Fn(&Path) -> bool, acc: &mut Vec<PathBuf>) {
        if let Ok(rd) = std::fs::read_dir(dir) {
            for e in rd.flatten() {
                let p = e.path();
                if p.is_dir() {
                    find(&p, is_temp, acc);
                } else if is_temp(&p) {
                    acc.push(p);
                }
            }
        }
    }
    let mut temps = vec![];
    find(snap, is_temp, &mut temps);
    let mut out = vec![];
    for t in temps {
        let rel = t.strip_prefix(snap).unwrap().to_path_buf();
        let len = std::fs::metadata(&t).map(|m| m.len()).unwrap_or(0) as usize;
        let mut cuts = vec![0usize, 1, len / 2, len.saturating_sub(1)];
        cuts.sort();
        cuts.dedup();
        for c in cuts.into_iter().filter(|c| *c < len) {
            let d = out_root.join(format!("{tag}_partial_{c}"));
            copy_tree(snap, &d);
            let data = std::fs::read(&t).unwrap_or_default();
            let _ = std::fs::write(d.join(&rel), &data[..c]);
            out.push((format!("partial_write"), d));
        }
    }
    out
}

fn silent<T>(f: impl FnOnce() -> T) -> Result<T, String> {
    std::panic::catch_unwind(std::panic::AssertUnwindSafe(f)).map_err(|_| "panic".to_string())
}

// ------------------------------------------------------------------------------------------------ shards
fn small_shard(rng: &mut Rng_, tag: u64) -> (MDBInMemoryShard, MerkleHash) {
    let mut s = MDBInMemoryShard::default();
    let xh = MerkleHash::from([rng.gen(), tag, 1, 1]);
    let n = rng.gen_range(1..4);
    let mut pos = 0u32;
    let mut chunks = vec![];
    for _ in 0..n {
        let l = rng.gen_range(1..100u32);
        chunks.push(CASChunkSequenceEntry::new(MerkleHash::from([rng.gen(), rng.gen(), 2, 2]), l, pos));
        pos += l;
    }
    s.add_cas_block(MDBCASInfo { metadata: CASChunkSequenceHeader::new(xh, n, pos), chunks }).unwrap();
    (s, xh)
}

/// description of a shard directory snapshot; `names`: path file name -> abstract name of the inputs / new file
fn describe_shard_dir(dir: &Path, names: &HashMap<String, String>, before: &[(String, MerkleHash)]) -> Value {
    let mut files = vec![];
    if let Ok(rd) = std::fs::read_dir(dir) {
        for e in rd.flatten() {
            let p = e.path();
            let fname = e.file_name().to_string_lossy().to_string();
            let bytes = std::fs::read(&p).unwrap_or_default();
            if let Some(h) = parse_shard_filename(&p) {
                let parses = silent(|| {
                    let mut c = Cursor::new(&bytes);
                    MDBShardInfo::load_from_reader(&mut c).and_then(|si| si.read_all_cas_blocks_full(&mut c)).is_ok()
                })
                .unwrap_or(false);
                let ok = compute_data_hash(&bytes) == h && parses;
                files.push(json!({"name": names.get(&fname).cloned().unwrap_or_else(|| "new".into()), "kind": "final", "ok": ok}));
            } else if is_temp_shard_file(&p) {
                files.push(json!({"name": "tmp", "kind": "temp", "ok": false}));
            } else {
                files.push(json!({"name": fname, "kind": "other", "ok": false}));
            }
        }
    }
    // recovery: what the real loader makes retrievable
    let mut retr = vec![];
    let loaded = silent(|| MDBShardFile::load_all_valid(dir));
    let loader_ok = matches!(loaded, Ok(Ok(_)));
    if let Ok(Ok(shards)) = loaded {
        for (name, xh) in before {
            let found = shards.iter().any(|s| {
                let mut dest = [0u32; 8];
                s.get_reader().ok().map(|mut r| s.shard.get_cas_info_index_by_hash(&mut r, xh, &mut dest).map(|n| n > 0).unwrap_or(false)).unwrap_or(false)
            });
            if found {
                retr.push(name.clone());
            }
        }
    }
    json!({"files": files, "retrievable": retr, "loader_ok": loader_ok})
}

fn emit(out: &mut Vec<String>, v: Value) {
    out.push(v.to_string());
}

fn run_shard_protocol(ctl: &Arc<Ctl>, rng: &mut Rng_, out: &mut Vec<String>, proto: &str, run: usize) {
    let base = tempfile::tempdir().unwrap();
    let dir = base.path().join("dir");
    let snaps = base.path().join("snaps");
    std::fs::create_dir_all(&dir).unwrap();
    let k = rng.gen_range(1..5usize);
    let mut names: HashMap<String, String> = HashMap::new();
    let mut before: Vec<(String, MerkleHash)> = vec![];
    for i in 0..k {
        let (s, xh) = small_shard(rng, i as u64 + 1);
        let p = s.write_to_directory(&dir).unwrap();
        names.insert(p.file_name().unwrap().to_string_lossy().to_string(), format!("i{}", i + 1));
        before.push((format!("i{}", i + 1), xh));
        std::thread::sleep(std::time::Duration::from_millis(3));
    }
    let inputs: Vec<String> = before.iter().map(|b| b.0.clone()).collect();
    let (res, list) = match proto {
        "shard_flush" => {
            let (s, _) = small_shard(rng, 99);
            let variant = rng.gen_bool(0.5);
            with_crash_points(ctl, &dir, &snaps, || {
                silent(|| {
                    if variant {
                        s.write_to_directory(&dir).map(|_| ()).map_err(|e| format!("{e:?}"))
                    } else {
                        let mut bytes = vec![];
                        MDBShardInfo::serialize_from(&mut bytes, &s).unwrap();
                        MDBShardFile::write_out_from_reader(&dir, &mut Cursor::new(bytes)).map(|_| ()).map_err(|e| format!("{e:?}"))
                    }
                })
            })
        },
        _ => with_crash_points(ctl, &dir, &snaps, || silent(|| consolidate_shards_in_directory(&dir, 1 << 30).map(|_| ()).map_err(|e| format!("{e:?}")))),
    };
    emit(out, json!({"ev": "AfStart", "proto": proto, "run": run, "inputs": inputs, "victims": if proto == "consolidate" && k > 1 { inputs.clone() } else { vec![] }}));
    let mut idx = 0;
    for (point, snap) in &list {
        if point.ends_with("before_rename") {
            for (pp, d) in partial_variants(snap, &|p| is_temp_shard_file(p), &snaps, &format!("v{idx}")) {
                let mut v = describe_shard_dir(&d, &names, &before);
                v["ev"] = json!("AfSnapshot");
                v["point"] = json!(pp);
                v["synthetic"] = json!(true);
                emit(out, v);
            }
        }
        let mut v = describe_shard_dir(snap, &names, &before);
        v["ev"] = json!("AfSnapshot");
        v["point"] = json!(point);
        v["synthetic"] = json!(false);
        emit(out, v);
        idx += 1;
    }
    emit(out, json!({"ev": "AfEnd", "ok": matches!(res, Ok(Ok(())))}));
}

// ------------------------------------------------------------------------------------------------ local store
fn describe_xorb_dir(rt: &tokio::runtime::Runtime, root: &Path, names: &HashMap<String, String>, before: &[(String, MerkleHash)]) -> Value {
    let xdir = root.join("xorbs");
    let mut files = vec![];
    if let Ok(rd) = std::fs::read_dir(&xdir) {
        for e in rd.flatten() {
            let fname = e.file_name().to_string_lossy().to_string();
            let bytes = std::fs::read(e.path()).unwrap_or_default();
            if let Some(hex) = fname.strip_prefix("default.") {
                let ok = MerkleHash::from_hex(hex)
                    .ok()
                    .map(|h| silent(|| matches!(cas_object::CasObject::validate_cas_object(&mut Cursor::new(&bytes), &h), Ok(Some(_)))).unwrap_or(false))
                    .unwrap_or(false);
                files.push(json!({"name": names.get(&fname).cloned().unwrap_or_else(|| "new".into()), "kind": "final", "ok": ok}));
            } else if fname.starts_with('.') && fname.ends_with(".tmp") {
                files.push(json!({"name": "tmp", "kind": "temp", "ok": false}));
            } else {
                files.push(json!({"name": fname, "kind": "other", "ok": false}));
            }
        }
    }
    let mut retr = vec![];
    let root2 = root.to_path_buf();
    let client = silent(|| rt.block_on(async move { tokio::task::spawn_blocking(move || LocalClient::new(&root2, None)).await }));
    let loader_ok = matches!(client, Ok(Ok(Ok(_))));
    if let Ok(Ok(Ok(c))) = client {
        for (name, h) in before {
            if silent(|| c.get(h).is_ok()).unwrap_or(false) {
                retr.push(name.clone());
            }
        }
    }
    json!({"files": files, "retrievable": retr, "loader_ok": loader_ok})
}

fn run_local_put(ctl: &Arc<Ctl>, rng: &mut Rng_, out: &mut Vec<String>, run: usize, rt: &tokio::runtime::Runtime) {
    let base = tempfile::tempdir().unwrap();
    let root = base.path().join("store");
    let snaps = base.path().join("snaps");
    let client = rt.block_on(async {
        let r = root.clone();
        tokio::task::spawn_blocking(move || LocalClient::new(&r, None)).await.unwrap().unwrap()
    });
    let mk = |rng: &mut Rng_| {
        let n = rng.gen_range(1..4usize);
        let mut data = vec![];
        let mut cab = vec![];
        let mut leaves = vec![];
        for _ in 0..n {
            let l = rng.gen_range(1..200usize);
            let mut d = vec![0u8; l];
            rng.fill(&mut d[..]);
            let h = compute_data_hash(&d);
            data.extend_from_slice(&d);
            cab.push((h, data.len() as u32));
            leaves.push((h, l));
        }
        let xh = merkledb::aggregate_hashes::cas_node_hash(&leaves);
        (xh, data, cab)
    };
    let k = rng.gen_range(0..4usize);
    let mut names = HashMap::new();
    let mut before = vec![];
    for i in 0..k {
        let (xh, data, cab) = mk(rng);
        rt.block_on(client.put("default", &xh, data, cab)).unwrap();
        names.insert(format!("default.{xh:?}"), format!("i{}", i + 1));
        before.push((format!("i{}", i + 1), xh));
    }
    let inputs: Vec<String> = before.iter().map(|b| b.0.clone()).collect();
    let (xh, data, cab) = mk(rng);
    let (res, list) = with_crash_points(ctl, &root, &snaps, || silent(|| rt.block_on(client.put("default", &xh, data, cab)).map(|_| ()).map_err(|e| format!("{e:?}"))));
    emit(out, json!({"ev": "AfStart", "proto": "local_put", "run": run, "inputs": inputs, "victims": []}));
    for (i, (point, snap)) in list.iter().enumerate() {
        if point.ends_with("before_rename") {
            for (pp, d) in partial_variants(snap, &|p| p.file_name().map(|n| n.to_string_lossy().ends_with(".tmp")).unwrap_or(false), &snaps, &format!("v{i}")) {
                let mut v = describe_xorb_dir(rt, &d, &names, &before);
                v["ev"] = json!("AfSnapshot");
                v["point"] = json!(pp);
                v["synthetic"] = json!(true);
                emit(out, v);
            }
        }
        let mut v = describe_xorb_dir(rt, snap, &names, &before);
        v["ev"] = json!("AfSnapshot");
        v["point"] = json!(point);
        v["synthetic"] = json!(false);
        emit(out, v);
    }
    emit(out, json!({"ev": "AfEnd", "ok": matches!(res, Ok(Ok(())))}));
}

// ------------------------------------------------------------------------------------------------ chunk cache
fn describe_cache_dir(c: &Content, root: &Path, cap: u64, before: &[(String, usize, u32, u32)]) -> Value {
    // raw listing before the scan: every file under an item name must be complete and consistent with its name
    let mut files = vec![];
    fn walk(dir: &Path, acc: &mut Vec<PathBuf>) {
        if let Ok(rd) = std::fs::read_dir(dir) {
            for e in rd.flatten() {
                let p = e.path();
                if p.is_dir() {
                    walk(&p, acc);
                } else {
                    acc.push(p);
                }
            }
        }
    }
    let mut all = vec![];
    walk(root, &mut all);
    use base64::Engine;
    for p in &all {
        let fname = p.file_name().unwrap().to_string_lossy().to_string();
        let bytes = std::fs::read(p).unwrap_or_default();
        match base64::engine::general_purpose::URL_SAFE.decode(&fname) {
            Ok(b) if b.len() == 20 => {
                let len = u64::from_le_bytes(b[8..16].try_into().unwrap());
                let crc = u32::from_le_bytes(b[16..20].try_into().unwrap());
                let ok = bytes.len() as u64 == len && crc32fast::hash(&bytes) == crc;
                let (s, e) = (u32::from_le_bytes(b[0..4].try_into().unwrap()), u32::from_le_bytes(b[4..8].try_into().unwrap()));
                let name = before
                    .iter()
                    .find(|(_, k, bs, be)| *bs == s && *be == e && c.item_path(root, *k, s, e) == *p)
                    .map(|b| b.0.clone())
                    .unwrap_or_else(|| "new".into());
                files.push(json!({"name": name, "kind": "final", "ok": ok}));
            },
            _ if fname.ends_with(".tmp") => files.push(json!({"name": "tmp", "kind": "temp", "ok": false})),
            _ => files.push(json!({"name": fname, "kind": "other", "ok": false})),
        }
    }
    // recovery: re-open and read every range that was cached before
    let mut retr = vec![];
    let mut wrong = 0;
    let cfg = CacheConfig { cache_directory: root.to_path_buf(), cache_size: cap };
    let opened = silent(|| DiskCache::initialize(&cfg));
    let loader_ok = matches!(opened, Ok(Ok(_)));
    if let Ok(Ok(cache)) = opened {
        for (name, k, s, e) in before {
            if let Ok(Ok(Some(cr))) = silent(|| cache.get(&c.keys[*k], &ChunkRange { start: *s, end: *e })) {
                let (_, d) = c.data(*k, *s, *e);
                if cr.data.as_ref() == &d[..] {
                    retr.push(name.clone());
                } else {
                    wrong += 1;
                }
            }
        }
    }
    let temps_left = {
        let mut all2 = vec![];
        walk(root, &mut all2);
        all2.iter().filter(|p| p.file_name().unwrap().to_string_lossy().ends_with(".tmp")).count()
    };
    json!({"files": files, "retrievable": retr, "loader_ok": loader_ok, "wrong_data": wrong, "temps_after_recover": temps_left})
}

fn run_cache_put(ctl: &Arc<Ctl>, rng: &mut Rng_, out: &mut Vec<String>, run: usize) {
    let c = Content::new(rng, 2, 4, 40);
    let base = tempfile::tempdir().unwrap();
    let root = base.path().join("cache");
    let snaps = base.path().join("snaps");
    std::fs::create_dir_all(&root).unwrap();
    let full: u64 = c.file(0, 0, 4).1;
    let cap = full * rng.gen_range(1..3u64) + 10;
    let cache = DiskCache::initialize(&CacheConfig { cache_directory: root.clone(), cache_size: cap }).unwrap();
    // prior history: a few small items
    let mut before: Vec<(String, usize, u32, u32)> = vec![];
    for (i, (k, s, e)) in [(0usize, 0u32, 1u32), (0, 1, 2), (1, 0, 2)].iter().enumerate() {
        if rng.gen_bool(0.8) {
            let (idx, d) = c.data(*k, *s, *e);
            if cache.put(&c.keys[*k], &ChunkRange { start: *s, end: *e }, &idx, &d).is_ok() {
                before.push((format!("i{}", i + 1), *k, *s, *e));
            }
        }
    }
    // only items still cached count as "retrievable before"
    before.retain(|(_, k, s, e)| matches!(cache.get(&c.keys[*k], &ChunkRange { start: *s, end: *e }), Ok(Some(_))));
    let inputs: Vec<String> = before.iter().map(|b| b.0.clone()).collect();
    // the operation: a covering item of key 0 (subsumes i1, i2; may evict i3)
    let (idx, d) = c.data(0, 0, 4);
    let (res, list) = with_crash_points(ctl, &root, &snaps, || silent(|| cache.put(&c.keys[0], &ChunkRange { start: 0, end: 4 }, &idx, &d).map_err(|e| format!("{e:?}"))));
    // victims: whatever is no longer cached afterwards (subsumed or evicted)
    let victims: Vec<String> = before
        .iter()
        .filter(|(_, k, s, e)| !(c.item_path(&root, *k, *s, *e).exists()))
        .map(|b| b.0.clone())
        .collect();
    emit(out, json!({"ev": "AfStart", "proto": "cache_put", "run": run, "inputs": inputs, "victims": victims}));
    for (i, (point, snap)) in list.iter().enumerate() {
        if point.ends_with("before_rename") {
            for (pp, dd) in partial_variants(snap, &|p| p.file_name().map(|n| n.to_string_lossy().ends_with(".tmp")).unwrap_or(false), &snaps, &format!("v{i}")) {
                let mut v = describe_cache_dir(&c, &dd, cap, &before);
                v["ev"] = json!("AfSnapshot");
                v["point"] = json!(pp);
                v["synthetic"] = json!(true);
                emit(out, v);
            }
        }
        // describe a copy: the scan of the re-open modifies the directory
        let cp = snaps.join(format!("d{i}"));
        copy_tree(snap, &cp);
        let mut v = describe_cache_dir(&c, &cp, cap, &before);
        v["ev"] = json!("AfSnapshot");
        v["point"] = json!(point);
        v["synthetic"] = json!(false);
        emit(out, v);
    }
    emit(out, json!({"ev": "AfEnd", "ok": matches!(res, Ok(Ok(())))}));
}

// ------------------------------------------------------------------------------------------------ syscall level
// Hook-independent crash exploration (bin/checks/c19.py `sys`): the operation runs in its own process under strace;
// the python side kills a fresh run just before every file-system-modifying system call (strace fault injection,
// SIGKILL on syscall entry) and has the surviving directory described by the real components here.
//   mode=sys_setup    proto= seed= base=     build <base>/dir with the prior history, write <base>/meta.json
//   mode=sys_run      proto= seed= dir=      perform the operation on dir (between two marker system calls)
//   mode=sys_describe proto= seed= base= dirs=a,b,c out=   describe every directory (re-open by the real component)
const MARK_BEGIN: &str = "/nonexistent-xv-marker-begin";
const MARK_END: &str = "/nonexistent-xv-marker-end";

fn sys_rt() -> tokio::runtime::Runtime {
    tokio::runtime::Builder::new_multi_thread().worker_threads(1).enable_all().build().unwrap()
}

fn mk_xorb(rng: &mut Rng_) -> (MerkleHash, Vec<u8>, Vec<(MerkleHash, u32)>) {
    let n = rng.gen_range(1..4usize);
    let mut data = vec![];
    let mut cab = vec![];
    let mut leaves = vec![];
    for _ in 0..n {
        let l = rng.gen_range(1..200usize);
        let mut d = vec![0u8; l];
        rng.fill(&mut d[..]);
        let h = compute_data_hash(&d);
        data.extend_from_slice(&d);
        cab.push((h, data.len() as u32));
        leaves.push((h, l));
    }
    (merkledb::aggregate_hashes::cas_node_hash(&leaves), data, cab)
}

fn sys_cache_prior() -> [(usize, u32, u32); 3] {
    [(0usize, 0u32, 1u32), (0, 1, 2), (1, 0, 2)]
}

fn sys_setup(a: &Args) -> anyhow::Result<String> {
    let proto = a.str("proto", "shard_flush");
    let seed = a.u64("seed", 1);
    let base = PathBuf::from(a.str("base", "/nonexistent"));
    let dir = base.join("dir");
    std::fs::create_dir_all(&dir)?;
    let mut rng = crate::util::rng(seed);
    let mut names = serde_json::Map::new();
    let mut before: Vec<Value> = vec![];
    let mut extra = json!({});
    match proto.as_str() {
        "shard_flush" | "consolidate" => {
            let k = rng.gen_range(1..5usize);
            for i in 0..k {
                let (s, xh) = small_shard(&mut rng, i as u64 + 1);
                let p = s.write_to_directory(&dir).unwrap();
                names.insert(p.file_name().unwrap().to_string_lossy().to_string(), json!(format!("i{}", i + 1)));
                before.push(json!([format!("i{}", i + 1), xh.hex()]));
                std::thread::sleep(std::time::Duration::from_millis(3));
            }
        },
        "local_put" => {
            let rt = sys_rt();
            let client = rt.block_on(async {
                let r = dir.clone();
                tokio::task::spawn_blocking(move || LocalClient::new(&r, None)).await.unwrap().unwrap()
            });
            let k = rng.gen_range(0..4usize);
            for i in 0..k {
                let (xh, data, cab) = mk_xorb(&mut rng);
                rt.block_on(client.put("default", &xh, data, cab)).unwrap();
                names.insert(format!("default.{xh:?}"), json!(format!("i{}", i + 1)));
                before.push(json!([format!("i{}", i + 1), xh.hex()]));
            }
        },
        _ => {
            let c = Content::new(&mut rng, 2, 4, 40);
            let full: u64 = c.file(0, 0, 4).1;
            let cap = full * rng.gen_range(1..3u64) + 10;
            let cache = DiskCache::initialize(&CacheConfig { cache_directory: dir.clone(), cache_size: cap }).unwrap();
            let mut bf: Vec<(String, usize, u32, u32)> = vec![];
            for (i, (k, s, e)) in sys_cache_prior().iter().enumerate() {
                if rng.gen_bool(0.8) {
                    let (idx, d) = c.data(*k, *s, *e);
                    if cache.put(&c.keys[*k], &ChunkRange { start: *s, end: *e }, &idx, &d).is_ok() {
                        bf.push((format!("i{}", i + 1), *k, *s, *e));
                    }
                }
            }
            bf.retain(|(_, k, s, e)| matches!(cache.get(&c.keys[*k], &ChunkRange { start: *s, end: *e }), Ok(Some(_))));
            for (n, k, s, e) in &bf {
                before.push(json!([n, k, s, e]));
                names.insert(c.item_path(&dir, *k, *s, *e).strip_prefix(&dir).unwrap().to_string_lossy().to_string(), json!(n));
            }
            extra = json!({"cap": cap});
        },
    }
    let meta = json!({"proto": proto, "seed": seed, "names": names, "before": before, "extra": extra});
    std::fs::write(base.join("meta.json"), meta.to_string())?;
    Ok(json!({"driver": "atomicfs", "mode": "sys_setup", "inputs": before.len()}).to_string())
}

fn sys_run(a: &Args) -> anyhow::Result<String> {
    let proto = a.str("proto", "shard_flush");
    let seed = a.u64("seed", 1);
    let dir = PathBuf::from(a.str("dir", "/nonexistent"));
    // retry=1: the operation of the next process in a directory that an interrupted run left behind: the same kind
    // of operation on other, smaller data (what is written now is shorter than anything the dead process left)
    let retry = a.has("retry");
    let mut rng2 = crate::util::rng(seed.wrapping_add(if retry { 9999 } else { 7777 }));
    if retry {
        let res: Result<Result<(), String>, String> = match proto.as_str() {
            "shard_flush" => {
                let (s, _) = small_shard(&mut rng2, 98);
                silent(|| s.write_to_directory(&dir).map(|_| ()).map_err(|e| format!("{e:?}")))
            },
            "consolidate" => silent(|| consolidate_shards_in_directory(&dir, 1 << 30).map(|_| ()).map_err(|e| format!("{e:?}"))),
            "local_put" => {
                let rt = sys_rt();
                let l = rng2.gen_range(1..8usize);
                let mut d = vec![0u8; l];
                rng2.fill(&mut d[..]);
                let h = compute_data_hash(&d);
                let xh = merkledb::aggregate_hashes::cas_node_hash(&[(h, l)]);
                let d2 = dir.clone();
                match rt.block_on(async move { LocalClient::new(&d2, None) }) {
                    Err(e) => Ok(Err(format!("{e:?}"))),
                    Ok(client) => silent(|| rt.block_on(client.put("default", &xh, d, vec![(h, l as u32)])).map(|_| ()).map_err(|e| format!("{e:?}"))),
                }
            },
            _ => {
                let mut rng = crate::util::rng(seed);
                let c = Content::new(&mut rng, 2, 4, 40);
                let cap = a.u64("cap", 1000);
                match silent(|| DiskCache::initialize(&CacheConfig { cache_directory: dir.clone(), cache_size: cap })) {
                    Ok(Ok(cache)) => {
                        let (idx, d) = c.data(0, 2, 3);
                        silent(|| cache.put(&c.keys[0], &ChunkRange { start: 2, end: 3 }, &idx, &d).map_err(|e| format!("{e:?}")))
                    },
                    _ => Ok(Err("initialize failed".into())),
                }
            },
        };
        return Ok(json!({"driver": "atomicfs", "mode": "sys_run", "retry": true, "ok": matches!(res, Ok(Ok(()))), "res": format!("{res:?}")}).to_string());
    }
    let res: Result<Result<(), String>, String> = match proto.as_str() {
        "shard_flush" => {
            let (s, _) = small_shard(&mut rng2, 99);
            let mut bytes = vec![];
            MDBShardInfo::serialize_from(&mut bytes, &s).unwrap();
            let _ = std::fs::remove_file(MARK_BEGIN);
            // the four ways a shard file comes into a directory: flush of a memory shard, copy from a reader, and
            // the two exports (with expiration: how session shards reach the shard cache; keyed: global dedup)
            let srcdir = tempfile::tempdir().unwrap();
            let src = if seed % 4 >= 2 { s.write_to_directory(srcdir.path()).ok().and_then(|p| MDBShardFile::load_from_file(&p).ok()) } else { None };
            // (seed % 5 == 4: the shard written is byte-identical to one that is already in the directory)
            let again: Option<Vec<u8>> = if seed % 5 == 4 {
                let mut names: Vec<PathBuf> = std::fs::read_dir(&dir).map(|rd| rd.flatten().map(|e| e.path()).filter(|p| parse_shard_filename(p).is_some()).collect()).unwrap_or_default();
                names.sort();
                names.first().and_then(|p| std::fs::read(p).ok())
            } else {
                None
            };
            if let Some(b) = &again {
                let _ = std::fs::remove_file(MARK_BEGIN);
                let r = silent(|| MDBShardFile::write_out_from_reader(&dir, &mut Cursor::new(b.clone())).map(|_| ()).map_err(|e| format!("{e:?}")));
                let _ = std::fs::remove_file(MARK_END);
                return Ok(json!({"driver": "atomicfs", "mode": "sys_run", "ok": matches!(r, Ok(Ok(()))), "res": format!("{r:?}")}).to_string());
            }
            let r = silent(|| match (seed % 4, &src) {
                (0, _) => s.write_to_directory(&dir).map(|_| ()).map_err(|e| format!("{e:?}")),
                (1, _) => MDBShardFile::write_out_from_reader(&dir, &mut Cursor::new(bytes)).map(|_| ()).map_err(|e| format!("{e:?}")),
                (2, Some(sf)) => sf.export_with_expiration(&dir, std::time::Duration::from_secs(3600)).map(|_| ()).map_err(|e| format!("{e:?}")),
                (_, Some(sf)) => sf
                    .export_as_keyed_shard(&dir, MerkleHash::from([7, 7, 7, seed]), std::time::Duration::from_secs(3600), true, true, true)
                    .map(|_| ())
                    .map_err(|e| format!("{e:?}")),
                _ => Err("source shard could not be prepared".to_string()),
            });
            let _ = std::fs::remove_file(MARK_END);
            r
        },
        "consolidate" => {
            let _ = std::fs::remove_file(MARK_BEGIN);
            let r = silent(|| consolidate_shards_in_directory(&dir, 1 << 30).map(|_| ()).map_err(|e| format!("{e:?}")));
            let _ = std::fs::remove_file(MARK_END);
            r
        },
        "local_put" => {
            let rt = sys_rt();
            let (xh, data, cab) = mk_xorb(&mut rng2);
            let d2 = dir.clone();
            let client = rt.block_on(async move { LocalClient::new(&d2, None) }).map_err(|e| format!("{e:?}"));
            match client {
                Err(e) => Ok(Err(e)),
                Ok(client) => {
                    let _ = std::fs::remove_file(MARK_BEGIN);
                    let r = silent(|| rt.block_on(client.put("default", &xh, data, cab)).map(|_| ()).map_err(|e| format!("{e:?}")));
                    let _ = std::fs::remove_file(MARK_END);
                    r
                },
            }
        },
        _ => {
            let mut rng = crate::util::rng(seed);
            let c = Content::new(&mut rng, 2, 4, 40);
            let cap = a.u64("cap", 1000);
            match silent(|| DiskCache::initialize(&CacheConfig { cache_directory: dir.clone(), cache_size: cap })) {
                Ok(Ok(cache)) => {
                    let (idx, d) = c.data(0, 0, 4);
                    let _ = std::fs::remove_file(MARK_BEGIN);
                    let r = silent(|| cache.put(&c.keys[0], &ChunkRange { start: 0, end: 4 }, &idx, &d).map_err(|e| format!("{e:?}")));
                    let _ = std::fs::remove_file(MARK_END);
                    r
                },
                _ => Ok(Err("initialize failed".into())),
            }
        },
    };
    Ok(json!({"driver": "atomicfs", "mode": "sys_run", "ok": matches!(res, Ok(Ok(()))), "res": format!("{res:?}")}).to_string())
}

fn sys_describe(a: &Args) -> anyhow::Result<String> {
    let base = PathBuf::from(a.str("base", "/nonexistent"));
    let meta: Value = serde_json::from_str(&std::fs::read_to_string(base.join("meta.json"))?)?;
    let proto = meta["proto"].as_str().unwrap_or("").to_string();
    let seed = meta["seed"].as_u64().unwrap_or(1);
    let mut names: HashMap<String, String> = HashMap::new();
    for (k, v) in meta["names"].as_object().unwrap() {
        // the cache records relative paths; only the file name is looked at by the describers
        let fname = Path::new(k).file_name().unwrap().to_string_lossy().to_string();
        names.insert(fname, v.as_str().unwrap().to_string());
    }
    let rt = sys_rt();
    let mut out = vec![];
    for d in a.str("dirs", "").split(',').filter(|d| !d.is_empty()) {
        let dir = base.join(d).join("dir");
        let mut v = match proto.as_str() {
            "shard_flush" | "consolidate" => {
                let before: Vec<(String, MerkleHash)> = meta["before"]
                    .as_array()
                    .unwrap()
                    .iter()
                    .map(|b| (b[0].as_str().unwrap().to_string(), MerkleHash::from_hex(b[1].as_str().unwrap()).unwrap()))
                    .collect();
                describe_shard_dir(&dir, &names, &before)
            },
            "local_put" => {
                let before: Vec<(String, MerkleHash)> = meta["before"]
                    .as_array()
                    .unwrap()
                    .iter()
                    .map(|b| (b[0].as_str().unwrap().to_string(), MerkleHash::from_hex(b[1].as_str().unwrap()).unwrap()))
                    .collect();
                describe_xorb_dir(&rt, &dir, &names, &before)
            },
            _ => {
                let mut rng = crate::util::rng(seed);
                let c = Content::new(&mut rng, 2, 4, 40);
                let before: Vec<(String, usize, u32, u32)> = meta["before"]
                    .as_array()
                    .unwrap()
                    .iter()
                    .map(|b| (b[0].as_str().unwrap().to_string(), b[1].as_u64().unwrap() as usize, b[2].as_u64().unwrap() as u32, b[3].as_u64().unwrap() as u32))
                    .collect();
                describe_cache_dir(&c, &dir, meta["extra"]["cap"].as_u64().unwrap_or(1000), &before)
            },
        };
        v["ev"] = json!(if d.ends_with('r') && d.starts_with('k') { "AfSysRetry" } else { "AfSysCrash" });
        v["dir"] = json!(d);
        out.push(v.to_string());
    }
    let path = a.str("out", "/dev/null");
    std::fs::write(&path, out.join("\n") + "\n")?;
    Ok(json!({"driver": "atomicfs", "mode": "sys_describe", "n": out.len()}).to_string())
}

pub fn run(a: &Args) -> anyhow::Result<String> {
    crate::util::silence_panics();
    match a.str("mode", "hooks").as_str() {
        "sys_setup" => return sys_setup(a),
        "sys_run" => return sys_run(a),
        "sys_describe" => return sys_describe(a),
        _ => {},
    }
    let ctl = Ctl::new();
    ctl.install();
    let seed = a.u64("seed", 1);
    let n = a.u64("n", 6) as usize;
    let mut rng = crate::util::rng(seed);
    let rt = tokio::runtime::Builder::new_multi_thread().worker_threads(2).enable_all().build()?;
    let mut out: Vec<String> = vec![json!({"ev": "AfSetup"}).to_string()];
    let mut runs = 0;
    for i in 0..n {
        for proto in ["shard_flush", "consolidate", "local_put", "cache_put"] {
            match proto {
                "shard_flush" | "consolidate" => run_shard_protocol(&ctl, &mut rng, &mut out, proto, i),
                "local_put" => run_local_put(&ctl, &mut rng, &mut out, i, &rt),
                _ => run_cache_put(&ctl, &mut rng, &mut out, i),
            }
            out.push("{\"ev\":\"reset\"}".to_string());
            runs += 1;
        }
    }
    let path = a.str("out", "/dev/null");
    if let Some(p) = Path::new(&path).parent() {
        std::fs::create_dir_all(p)?;
    }
    std::fs::write(&path, out.join("\n") + "\n")?;
    let mut points: HashMap<String, usize> = HashMap::new();
    for e in &out {
        if let Ok(v) = serde_json::from_str::<Value>(e) {
            if v["ev"] == "AfSnapshot" {
                *points.entry(v["point"].as_str().unwrap_or("").to_string()).or_default() += 1;
            }
        }
    }
    let sample: Vec<Value> = out.iter().skip(1).take(4).map(|e| serde_json::from_str(e).unwrap()).collect();
    Ok(json!({"driver": "atomicfs", "runs": runs, "events": out.len(), "points": points, "sample": sample}).to_string())
}
