//! Driver for C17 (file reconstruction): a REAL `cas_client::RemoteClient` is pointed at the harness's loopback HTTP
//! server, which plays the CAS reconstruction endpoint (derives the plan for the `Range` header it receives) and the
//! blob store (serves byte ranges of really serialized xorbs).  Every request goes end to end through
//! `ReconstructionClient::get_file`; the writer (sequential / parallel) is the one the repository's own
//! `HF_XET_RECONSTRUCT_WRITE_SEQUENTIALLY` variable selects, so one process = one writer.
//!
//! One trace run = one scenario variant: `RcScenario` (xorbs as interned chunk ids, file, cache on/off), then per
//! request `RcCall`, `RcPlan` (server), `RcServe` (server, one per blob request), the hook events of
//! remote_client.rs (`RcHit`, `RcFetched`, `RcTerm`, `RcSeqWrite`, `RcParPlan`, `RcParWrite`) and `RcEnd` with the
//! returned length and the OUTPUT FILE projected to pieces [chunk id, offset, n] (`RcFail` for an error, a panic or a
//! timeout: no spec action matches it).  Requests of one run share the chunk cache directory (cold, then warm).
//!
//! modes:
//!   mode=scn in=<file>    scenarios printed by Gen_Reconstruct (chunk lengths 1..3: every byte value of a scenario
//!                         is unique, the output is projected byte by byte through the byte -> (chunk, offset) table)
//!   mode=random n= seed=  random plans: up to `terms=` terms, repeated xorbs, chunk sizes from 1 byte to tens of KiB,
//!                         random coverings, whole file / single byte / mid-term ranges, several requests per cache
use std::collections::HashMap;
use std::io::Cursor;
use std::path::{Path, PathBuf};
use std::sync::{Arc, Mutex};
use std::time::Duration;

use cas_client::{CacheConfig, FileProvider, OutputProvider, ReconstructionClient, RemoteClient};
use cas_object::{CasObject, CompressionScheme};
use cas_types::{CASReconstructionFetchInfo, CASReconstructionTerm, FileRange, HexMerkleHash, QueryReconstructionResponse, Range};
use merklehash::{compute_data_hash, MerkleHash};
use rand::rngs::StdRng;
use rand::seq::SliceRandom;
use rand::Rng;
use serde_json::{json, Value};
use xet_threadpool::ThreadPool;

use crate::ctl::{hemit, Ctl};
use crate::httpd::{parse_range, Httpd, Request, Response};
use crate::intern::Interner;
use crate::util::{Args, TraceOut};

type Term = (usize, u32, u32); // xorb index (0-based), chunk lo, chunk hi

#[derive(Clone)]
struct Req {
    s: u64,
    e: u64,
    whole: bool,
    fetch: Vec<Vec<(u32, u32)>>, // per xorb, ordered
    delays: Vec<(usize, u32, u64)>, // (xorb, fetch lo) -> ms
}

struct Scn {
    xorbs: Vec<Vec<Vec<u8>>>, // chunk contents
    file: Vec<Term>,
    requests: Vec<Req>,
    unique_bytes: bool,
}

struct XorbReal {
    hash: MerkleHash,
    blob: Vec<u8>,
    bounds: Vec<u32>, // serialized end offset of every chunk
    ids: Vec<i64>,
}

#[derive(Default)]
struct ServerState {
    xorbs: Vec<Arc<XorbServe>>,
    file_hex: String,
    file: Vec<Term>,
    tlen: Vec<u64>,
    fetch: Vec<Vec<(u32, u32)>>,
    shared: bool,
    gen: u64,
    base: String,
    delays: HashMap<(usize, u32), u64>,
}

struct XorbServe {
    hash: MerkleHash,
    blob: Vec<u8>,
    bounds: Vec<u32>,
}

fn url_range(bounds: &[u32], lo: u32, hi: u32) -> (u32, u32) {
    let a = if lo == 0 { 0 } else { bounds[lo as usize - 1] };
    (a, bounds[hi as usize - 1] - 1)
}

/// The CAS server's derivation: the terms overlapping [s, e) and the offset of s in the first of them.
fn plan_terms(tlen: &[u64], s: u64, e: u64) -> Option<(usize, usize, u64)> {
    let mut pos = 0u64;
    let mut first = None;
    let mut n = 0;
    let mut off = 0;
    for (j, l) in tlen.iter().enumerate() {
        if pos < e && pos + l > s {
            if first.is_none() {
                first = Some(j);
                off = s - pos;
            }
            n += 1;
        }
        pos += l;
    }
    first.map(|f| (f, n, off))
}

fn handle(state: &Mutex<ServerState>, req: &Request) -> Response {
    let st = state.lock().unwrap();
    let parts: Vec<&str> = req.path.trim_start_matches('/').split('/').collect();
    if req.method != "GET" {
        return Response::text(400, "method");
    }
    if parts.len() == 2 && parts[0] == "reconstruction" {
        if parts[1] != st.file_hex {
            return Response::text(404, "unknown file");
        }
        let total: u64 = st.tlen.iter().sum();
        let hdr = req.header("range").and_then(parse_range);
        let (s, e) = match hdr {
            Some((a, b)) => (a, b + 1),
            None => (0, total),
        };
        let Some((first, n, off)) = plan_terms(&st.tlen, s, e.min(total)) else {
            return Response::text(416, "range outside the file");
        };
        let terms: Vec<CASReconstructionTerm> = st.file[first..first + n]
            .iter()
            .zip(&st.tlen[first..first + n])
            .map(|(t, l)| CASReconstructionTerm {
                hash: HexMerkleHash::from(st.xorbs[t.0].hash),
                unpacked_length: *l as u32,
                range: Range { start: t.1, end: t.2 },
            })
            .collect();
        let mut fetch_info: HashMap<HexMerkleHash, Vec<CASReconstructionFetchInfo>> = HashMap::new();
        let mut logged = vec![];
        for (x, fl) in st.fetch.iter().enumerate() {
            let mut l = vec![];
            let mut infos = vec![];
            for (lo, hi) in fl {
                let (a, b) = url_range(&st.xorbs[x].bounds, *lo, *hi);
                let url = if st.shared {
                    format!("{}/g{}/xorb/{}", st.base, st.gen, x + 1)
                } else {
                    format!("{}/g{}/xorb/{}/{}-{}", st.base, st.gen, x + 1, lo, hi)
                };
                infos.push(CASReconstructionFetchInfo { range: Range { start: *lo, end: *hi }, url, url_range: Range { start: a, end: b } });
                l.push(json!([lo, hi, a, b]));
            }
            if !infos.is_empty() {
                fetch_info.insert(HexMerkleHash::from(st.xorbs[x].hash), infos);
            }
            logged.push(Value::Array(l));
        }
        let body = serde_json::to_vec(&QueryReconstructionResponse { offset_into_first_range: off, terms, fetch_info }).unwrap();
        let (hs, he) = hdr.map(|(a, b)| (a as i64, b as i64)).unwrap_or((-1, -1));
        hemit(
            "RcPlan",
            format!(
                "\"hasrange\":{},\"hs\":{hs},\"he\":{he},\"first\":{},\"n\":{n},\"off\":{off},\"shared\":{},\"fetch\":{}",
                hdr.is_some(),
                first + 1,
                st.shared,
                Value::Array(logged)
            ),
        );
        return Response::new(200, "application/json", body);
    }
    // /g<gen>/xorb/<x>[/<lo>-<hi>]
    if parts.len() >= 3 && parts[1] == "xorb" {
        if parts[0] != format!("g{}", st.gen) {
            return Response::text(404, "stale url");
        }
        let Some(x) = parts[2].parse::<usize>().ok().filter(|x| *x >= 1 && *x <= st.xorbs.len()) else {
            return Response::text(404, "unknown xorb");
        };
        let xs = st.xorbs[x - 1].clone();
        let Some((a, b)) = req.header("range").filter(|v| v.trim().starts_with("bytes=")).and_then(parse_range) else {
            return Response::text(400, "a Range: bytes=a-b header is required");
        };
        let (plo, phi) = if parts.len() == 4 { parts[3].split_once('-').map(|(l, h)| (l.parse().unwrap_or(-1), h.parse().unwrap_or(-1))).unwrap_or((-1, -1)) } else { (-1i64, -1i64) };
        hemit("RcServe", format!("\"x\":{x},\"a\":{a},\"b\":{b},\"plo\":{plo},\"phi\":{phi}"));
        let data_end = *xs.bounds.last().unwrap() as u64;
        if a > b || b >= data_end {
            return Response::text(416, "range outside the chunk section");
        }
        if plo >= 0 {
            // a per-range URL only serves its own range
            let (ea, eb) = url_range(&xs.bounds, plo as u32, phi as u32);
            if (ea as u64, eb as u64) != (a, b) {
                return Response::text(416, "range does not belong to this url");
            }
        }
        let delay = xs.bounds.iter().position(|e| *e as u64 == a).map(|i| i as u32 + 1).or(if a == 0 { Some(0) } else { None });
        let delay_ms = delay.and_then(|lo| st.delays.get(&(x - 1, lo)).copied()).unwrap_or(0);
        let mut r = Response::new(206, "application/octet-stream", xs.blob[a as usize..=b as usize].to_vec());
        r.headers.push(("Content-Range".into(), format!("bytes {a}-{b}/{}", xs.blob.len())));
        r.delay_ms = delay_ms;
        return r;
    }
    Response::text(404, "no such route")
}

struct Env {
    tp: Arc<ThreadPool>,
    ctl: Arc<Ctl>,
    state: Arc<Mutex<ServerState>>,
    base: String,
    work: PathBuf,
    writer: &'static str,
    chunks: Mutex<Interner>,
    counts: Mutex<HashMap<String, usize>>,
    gen: Mutex<u64>,
    /// building a RemoteClient costs ~0.2 s (three reqwest clients): requests without a cache share one client, and
    /// most cache runs share one client over one process-wide cache directory (xorb names are unique per run, so
    /// every run starts cold); every `fresh`-th scenario gets its own directory and a new client per request, which
    /// makes the warm request re-open the DiskCache from disk
    pool_nocache: Arc<RemoteClient>,
    pool_cache: Arc<RemoteClient>,
}

impl Env {
    fn count(&self, k: &str, n: usize) {
        *self.counts.lock().unwrap().entry(k.to_string()).or_default() += n;
    }
}

fn build_xorbs(env: &Env, scn: &Scn, compression: CompressionScheme) -> anyhow::Result<Vec<XorbReal>> {
    let mut res = vec![];
    for (xi, chunks) in scn.xorbs.iter().enumerate() {
        let mut data = vec![];
        let mut cb = vec![];
        let mut ids = vec![];
        for c in chunks {
            data.extend_from_slice(c);
            cb.push((compute_data_hash(c), data.len() as u32));
            ids.push(env.chunks.lock().unwrap().id(c));
        }
        let hash = compute_data_hash(format!("xorb{xi}").as_bytes()); // renamed per run
        let mut w = Cursor::new(Vec::new());
        let (obj, _) = CasObject::serialize(&mut w, &hash, &data, &cb, Some(compression)).map_err(|e| anyhow::anyhow!("serialize: {e:?}"))?;
        res.push(XorbReal { hash, blob: w.into_inner(), bounds: obj.info.chunk_boundary_offsets.clone(), ids });
    }
    Ok(res)
}

/// Output bytes -> pieces [chunk id, offset, n] (id 0: bytes that are not the bytes of any chunk at that place).
/// `unique`: every byte value of the scenario occurs once, each output byte is looked up on its own.
/// otherwise: the output is cut where the FILE's chunk instances end (file position = s + output position) and each
/// cut is compared with the bytes of that chunk.
fn project(out: &[u8], s: u64, scn: &Scn, reals: &[XorbReal]) -> Vec<[i64; 3]> {
    let mut pieces: Vec<[i64; 3]> = vec![];
    fn push(pieces: &mut Vec<[i64; 3]>, p: [i64; 3], merge: bool) {
        if merge {
            if let Some(l) = pieces.last_mut() {
                if (l[0] == p[0] && p[0] != 0 && l[1] + l[2] == p[1]) || (l[0] == 0 && p[0] == 0) {
                    l[2] += p[2];
                    return;
                }
            }
        }
        pieces.push(p);
    }
    if scn.unique_bytes {
        let mut table: HashMap<u8, (i64, i64)> = HashMap::new();
        for (x, chunks) in scn.xorbs.iter().enumerate() {
            for (i, c) in chunks.iter().enumerate() {
                for (o, b) in c.iter().enumerate() {
                    table.insert(*b, (reals[x].ids[i], o as i64));
                }
            }
        }
        for b in out {
            match table.get(b) {
                Some((id, o)) => push(&mut pieces, [*id, *o, 1], true),
                None => push(&mut pieces, [0, 0, 1], true),
            }
        }
        return pieces;
    }
    // chunk instances of the file
    let mut inst: Vec<(u64, usize, usize)> = vec![]; // (file start, xorb, chunk)
    let mut pos = 0u64;
    for (x, lo, hi) in &scn.file {
        for c in *lo..*hi {
            inst.push((pos, *x, c as usize));
            pos += scn.xorbs[*x][c as usize].len() as u64;
        }
    }
    let total = pos;
    let mut p = 0usize;
    let mut j = inst.partition_point(|i| i.0 <= s).saturating_sub(1);
    while p < out.len() {
        let q = s + p as u64;
        if q >= total || j >= inst.len() {
            push(&mut pieces, [0, 0, (out.len() - p) as i64], false);
            break;
        }
        let (start, x, c) = inst[j];
        let bytes = &scn.xorbs[x][c];
        let o = (q - start) as usize;
        let n = (bytes.len() - o).min(out.len() - p);
        if out[p..p + n] == bytes[o..o + n] {
            push(&mut pieces, [reals[x].ids[c], o as i64, n as i64], false);
        } else {
            push(&mut pieces, [0, 0, n as i64], false);
        }
        p += n;
        j += 1;
    }
    pieces
}

fn writer_mode() -> &'static str {
    match std::env::var("HF_XET_RECONSTRUCT_WRITE_SEQUENTIALLY").ok().and_then(|v| v.parse::<bool>().ok()) {
        Some(true) => "seq",
        _ => "par",
    }
}

/// One trace run: the scenario with the given cache / URL flavour, its requests one after the other.
fn run_variant(env: &Env, scn: &Scn, reals: &mut [XorbReal], dir: &Path, cache: bool, shared: bool, fresh: bool, requests: &[Req]) -> Vec<String> {
    let _ = env.ctl.take_events();
    let uid = {
        let mut g = env.gen.lock().unwrap();
        *g += 1;
        *g
    };
    // xorb names are unique per run (the download path never re-hashes a xorb; that is C08's business)
    for (xi, r) in reals.iter_mut().enumerate() {
        r.hash = compute_data_hash(format!("xorb-{uid}-{xi}").as_bytes());
    }
    let reals: &[XorbReal] = reals;
    let tlen: Vec<u64> = scn.file.iter().map(|(x, lo, hi)| (*lo..*hi).map(|c| scn.xorbs[*x][c as usize].len() as u64).sum()).collect();
    let total: u64 = tlen.iter().sum();
    let file_hash = compute_data_hash(format!("file-{}", dir.display()).as_bytes());
    {
        let mut st = env.state.lock().unwrap();
        st.xorbs = reals.iter().map(|r| Arc::new(XorbServe { hash: r.hash, blob: r.blob.clone(), bounds: r.bounds.clone() })).collect();
        st.file_hex = file_hash.hex();
        st.file = scn.file.clone();
        st.tlen = tlen.clone();
        st.shared = shared;
        st.base = env.base.clone();
    }
    let xj: Vec<Value> = scn
        .xorbs
        .iter()
        .zip(reals)
        .map(|(chunks, r)| {
            Value::Array(
                chunks
                    .iter()
                    .enumerate()
                    .map(|(i, c)| json!({"id": r.ids[i], "len": c.len(), "ser": r.bounds[i] - if i == 0 { 0 } else { r.bounds[i - 1] }}))
                    .collect(),
            )
        })
        .collect();
    let fj: Vec<Value> = scn.file.iter().map(|(x, lo, hi)| json!([x + 1, lo, hi])).collect();
    hemit("RcScenario", format!("\"xorbs\":{},\"file\":{},\"cache\":{cache}", Value::Array(xj), Value::Array(fj)));
    let cache_dir = dir.join(format!("cache_{}", if shared { "s" } else { "r" }));
    for (ri, rq) in requests.iter().enumerate() {
        let gen = {
            let mut g = env.gen.lock().unwrap();
            *g += 1;
            *g
        };
        {
            let mut st = env.state.lock().unwrap();
            st.fetch = rq.fetch.clone();
            st.gen = gen;
            st.delays = rq.delays.iter().map(|(x, lo, ms)| ((*x, *lo), *ms)).collect();
        }
        hemit("RcCall", format!("\"s\":{},\"e\":{},\"whole\":{},\"writer\":\"{}\"", rq.s, rq.e, rq.whole, env.writer));
        env.count("requests", 1);
        let cache_config = if cache { Some(CacheConfig { cache_directory: cache_dir.clone(), cache_size: 1 << 32 }) } else { None };
        let out_path = dir.join(format!("out_{gen}"));
        let _ = std::fs::remove_file(&out_path);
        let client = if !cache {
            env.pool_nocache.clone()
        } else if !fresh {
            env.pool_cache.clone()
        } else {
            env.count("fresh_clients", 1);
            Arc::new(RemoteClient::new(env.tp.clone(), &env.base, Some(CompressionScheme::LZ4), &None, &cache_config, dir.join("shards"), false))
        };
        let provider = OutputProvider::File(FileProvider::new(out_path.clone()));
        let range = if rq.whole { None } else { Some(FileRange { start: rq.s, end: rq.e }) };
        let res = env.tp.external_run_async_task(async move {
            let r = tokio::time::timeout(Duration::from_secs(20), client.get_file(&file_hash, range, &provider, None)).await;
            drop(client); // the DiskCache goes away with the client: the next request re-opens the directory
            r
        });
        let got = std::fs::read(&out_path).unwrap_or_default();
        let _ = std::fs::remove_file(&out_path);
        let pieces = project(&got, rq.s, scn, reals);
        let pj = serde_json::to_string(&pieces).unwrap();
        let _ = total;
        let ok = matches!(res, Ok(Ok(Ok(_))));
        match res {
            Ok(Ok(Ok(n))) => hemit("RcEnd", format!("\"n\":{n},\"out\":{pj}")),
            Ok(Ok(Err(e))) => {
                hemit("RcFail", format!("\"what\":{},\"out\":{pj}", json!(format!("error: {e:?}"))));
                env.count("fail", 1);
            },
            Ok(Err(_)) => {
                hemit("RcFail", format!("\"what\":\"timeout\",\"out\":{pj}"));
                env.count("fail", 1);
            },
            Err(e) => {
                hemit("RcFail", format!("\"what\":{},\"out\":{pj}", json!(format!("panic: {e:?}"))));
                env.count("fail", 1);
            },
        }
        if !ok {
            // let stray term tasks of the failed call finish before the next run starts recording
            std::thread::sleep(Duration::from_millis(300));
            let _ = ri;
            break;
        }
    }
    // projection of the hook events: xorb hash -> xorb index; only Rc* events belong to this module's trace
    let hex_to_x: HashMap<String, usize> = reals.iter().enumerate().map(|(i, r)| (r.hash.hex(), i + 1)).collect();
    let mut res = vec![];
    for line in env.ctl.take_events() {
        let Ok(mut v) = serde_json::from_str::<Value>(&line) else { continue };
        let ev = v["ev"].as_str().unwrap_or("").to_string();
        if !ev.starts_with("Rc") {
            if ev == "SfGetCall" {
                env.count(if v["created"].as_bool() == Some(true) { "flight_created" } else { "flight_joined" }, 1);
            }
            continue;
        }
        env.count(&ev, 1);
        if let Some(h) = v.get("x").and_then(|x| x.as_str()).map(|s| s.to_string()) {
            v["x"] = json!(hex_to_x.get(&h).copied().unwrap_or(0));
        }
        if let Some(o) = v.as_object_mut() {
            o.remove("actor");
        }
        res.push(v.to_string());
    }
    res
}

// ------------------------------------------------------------------------------------------------ scenarios
fn scenario_from_json(v: &Value) -> Scn {
    let lens: Vec<Vec<usize>> = v["xorbs"].as_array().unwrap().iter().map(|x| x.as_array().unwrap().iter().map(|l| l.as_u64().unwrap() as usize).collect()).collect();
    // every byte of the scenario gets its own value (1, 2, 3, ...): 0 never occurs, so holes are visible
    let mut next = 1u8;
    let xorbs: Vec<Vec<Vec<u8>>> = lens
        .iter()
        .map(|x| {
            x.iter()
                .map(|l| {
                    (0..*l)
                        .map(|_| {
                            let b = next;
                            next += 1;
                            b
                        })
                        .collect()
                })
                .collect()
        })
        .collect();
    let file = v["file"].as_array().unwrap().iter().map(|t| (t[0].as_u64().unwrap() as usize - 1, t[1].as_u64().unwrap() as u32, t[2].as_u64().unwrap() as u32)).collect();
    let fetch: Vec<Vec<(u32, u32)>> = v["fetch"]
        .as_array()
        .unwrap()
        .iter()
        .map(|fl| fl.as_array().unwrap().iter().map(|r| (r[0].as_u64().unwrap() as u32, r[1].as_u64().unwrap() as u32)).collect())
        .collect();
    let rq = Req { s: v["s"].as_u64().unwrap(), e: v["e"].as_u64().unwrap(), whole: v["whole"].as_bool().unwrap(), fetch, delays: vec![] };
    Scn { xorbs, file, requests: vec![rq], unique_bytes: true }
}

fn random_covering(rng: &mut StdRng, nch: usize, terms: &[(u32, u32)]) -> Vec<(u32, u32)> {
    let n = nch as u32;
    let mut distinct: Vec<(u32, u32)> = terms.to_vec();
    distinct.sort();
    distinct.dedup();
    let mut res: Vec<(u32, u32)> = match rng.gen_range(0..6) {
        0 => distinct.clone(),                                                                             // exactly the term ranges
        1 => vec![(distinct.iter().map(|r| r.0).min().unwrap(), distinct.iter().map(|r| r.1).max().unwrap())], // hull
        2 => vec![(0, n)],                                                                                 // the whole xorb
        3 => distinct.iter().map(|(lo, hi)| (rng.gen_range(0..=*lo), rng.gen_range(*hi..=n))).collect(),   // supersets
        4 => {
            // groups of neighbouring term ranges merged
            let mut out: Vec<(u32, u32)> = vec![];
            for r in &distinct {
                match out.last_mut() {
                    Some(l) if rng.gen_bool(0.5) => {
                        l.0 = l.0.min(r.0);
                        l.1 = l.1.max(r.1);
                    },
                    _ => out.push(*r),
                }
            }
            out
        },
        _ => {
            // exact ranges plus a larger range somewhere in the list (first match wins)
            let mut out = distinct.clone();
            let r = distinct[rng.gen_range(0..distinct.len())];
            out.push((rng.gen_range(0..=r.0), rng.gen_range(r.1..=n)));
            out
        },
    };
    res.dedup();
    res.shuffle(rng);
    res
}

fn random_scenario(rng: &mut StdRng, max_terms: usize, big: bool) -> Scn {
    let nx = rng.gen_range(1..=4);
    let mut seen: std::collections::HashSet<Vec<u8>> = Default::default();
    let mut xorbs = vec![];
    for _ in 0..nx {
        let nch = if rng.gen_bool(0.2) { rng.gen_range(7..=12) } else { rng.gen_range(1..=6) };
        let mut chunks = vec![];
        for _ in 0..nch {
            loop {
                let len = match rng.gen_range(0..10) {
                    0..=2 => rng.gen_range(1..=4),
                    3..=7 => rng.gen_range(5..=600),
                    8 => rng.gen_range(600..=5000),
                    _ => {
                        if big {
                            rng.gen_range(20_000..=70_000)
                        } else {
                            rng.gen_range(600..=3000)
                        }
                    },
                };
                // compressible and incompressible contents
                let c: Vec<u8> = if rng.gen_bool(0.3) { (0..len).map(|_| rng.gen_range(0..4u8)).collect() } else { (0..len).map(|_| rng.gen()).collect() };
                if seen.insert(c.clone()) {
                    chunks.push(c);
                    break;
                }
            }
        }
        xorbs.push(chunks);
    }
    let nterms = if rng.gen_bool(0.3) { rng.gen_range(1..=3) } else { rng.gen_range(1..=max_terms) };
    let mut file: Vec<Term> = vec![];
    for _ in 0..nterms {
        if !file.is_empty() && rng.gen_bool(0.15) {
            file.push(*file.last().unwrap()); // the same term again
            continue;
        }
        let x = rng.gen_range(0..nx);
        let n = xorbs[x].len() as u32;
        let lo = rng.gen_range(0..n);
        let hi = rng.gen_range(lo + 1..=n);
        file.push((x, lo, hi));
    }
    let tlen: Vec<u64> = file.iter().map(|(x, lo, hi)| (*lo..*hi).map(|c| xorbs[*x][c as usize].len() as u64).sum()).collect();
    let total: u64 = tlen.iter().sum();
    let mut starts = vec![0u64];
    for l in &tlen {
        starts.push(starts.last().unwrap() + l);
    }
    let nreq = rng.gen_range(1..=3);
    let mut requests = vec![];
    for _ in 0..nreq {
        let (s, e, whole) = match rng.gen_range(0..8) {
            0 => (0, total, true),
            1 => (0, total, false),
            2 => {
                let s = rng.gen_range(0..total);
                (s, s + 1, false) // a single byte
            },
            3 => (rng.gen_range(0..total), total, false), // from the middle of some term to the end
            4 => (0, rng.gen_range(1..=total), false),
            5 => {
                // term-aligned
                let a = rng.gen_range(0..file.len());
                let b = rng.gen_range(a + 1..=file.len());
                (starts[a], starts[b], false)
            },
            6 => {
                // one byte either side of a term boundary
                let a = starts[rng.gen_range(0..starts.len())];
                let s = a.saturating_sub(1).min(total - 1);
                (s, (a + 1).min(total).max(s + 1), false)
            },
            _ => {
                let s = rng.gen_range(0..total);
                (s, rng.gen_range(s + 1..=total), false)
            },
        };
        let (first, n, _) = plan_terms(&tlen, s, e).unwrap();
        let mut fetch = vec![];
        let mut delays = vec![];
        for x in 0..nx {
            let tr: Vec<(u32, u32)> = file[first..first + n].iter().filter(|t| t.0 == x).map(|t| (t.1, t.2)).collect();
            let fl = if tr.is_empty() { vec![] } else { random_covering(rng, xorbs[x].len(), &tr) };
            for (lo, _) in &fl {
                if rng.gen_bool(0.3) {
                    delays.push((x, *lo, rng.gen_range(1..=12)));
                }
            }
            fetch.push(fl);
        }
        requests.push(Req { s, e, whole, fetch, delays });
    }
    Scn { xorbs, file, requests, unique_bytes: false }
}

pub fn run(a: &Args) -> anyhow::Result<String> {
    crate::util::silence_panics();
    let ctl = Ctl::new();
    ctl.install();
    let mode = a.str("mode", "random");
    let seed = a.u64("seed", 1);
    let n = a.u64("n", 10) as usize;
    let writer = writer_mode();
    let flavours: Vec<bool> = match a.str("urls", "both").as_str() {
        "shared" => vec![true],
        "perrange" => vec![false],
        _ => vec![false, true],
    };
    let caches: Vec<bool> = match a.str("cache", "both").as_str() {
        "on" => vec![true],
        "off" => vec![false],
        _ => vec![false, true],
    };
    let steer = a.u64("steer", 0);
    let work = PathBuf::from(a.str("dir", "/verif/work/reconstruct/run"));
    let _ = std::fs::remove_dir_all(&work);
    std::fs::create_dir_all(&work)?;
    let state = Arc::new(Mutex::new(ServerState::default()));
    let st2 = state.clone();
    let httpd = Httpd::start(Arc::new(move |r: &Request| handle(&st2, r)))?;
    let tp = Arc::new(ThreadPool::new().map_err(|e| anyhow::anyhow!("{e:?}"))?);
    let pool_nocache = Arc::new(RemoteClient::new(tp.clone(), &httpd.base(), Some(CompressionScheme::LZ4), &None, &None, work.join("shards"), false));
    let pool_cfg = Some(CacheConfig { cache_directory: work.join("cache_pool"), cache_size: 1 << 32 });
    let pool_cache = Arc::new(RemoteClient::new(tp.clone(), &httpd.base(), Some(CompressionScheme::LZ4), &None, &pool_cfg, work.join("shards"), false));
    let fresh_every = a.u64("fresh", 10) as usize;
    let env = Env {
        pool_nocache,
        pool_cache,
        tp,
        ctl,
        state,
        base: httpd.base(),
        work: work.clone(),
        writer,
        chunks: Mutex::new(Interner::new()),
        counts: Mutex::new(HashMap::new()),
        gen: Mutex::new(0),
    };
    let mut out = TraceOut::create(&a.str("out", "/dev/null"))?;
    out.run(&[json!({"ev":"RcSetup","mode":mode,"writer":writer,"concurrent_gets": std::env::var("HF_XET_NUM_CONCURRENT_RANGE_GETS").unwrap_or_default()}).to_string()])?;
    let mut rng = crate::util::rng(seed);
    let scn_lines: Vec<Value> = if mode == "scn" {
        std::fs::read_to_string(a.str("in", ""))?.lines().filter(|l| !l.trim().is_empty()).map(|l| serde_json::from_str(l).unwrap()).collect()
    } else {
        vec![]
    };
    let total = if mode == "scn" { scn_lines.len() } else { n };
    let mut sample: Vec<String> = vec![];
    let schemes = [CompressionScheme::LZ4, CompressionScheme::None, CompressionScheme::ByteGrouping4LZ4];
    for i in 0..total {
        let mut scn = if mode == "scn" { scenario_from_json(&scn_lines[i]) } else { random_scenario(&mut rng, a.u64("terms", 12) as usize, a.has("big")) };
        if mode == "scn" {
            // cold then warm against the same cache directory
            let mut again = scn.requests[0].clone();
            if steer > 0 && i as u64 % steer == 0 {
                // hold the answers back in a random order of the fetch ranges
                let mut keys: Vec<(usize, u32)> = again.fetch.iter().enumerate().flat_map(|(x, fl)| fl.iter().map(move |r| (x, r.0))).collect();
                keys.shuffle(&mut rng);
                let d: Vec<(usize, u32, u64)> = keys.iter().enumerate().map(|(k, (x, lo))| (*x, *lo, 4 * k as u64)).collect();
                scn.requests[0].delays = d.clone();
                again.delays = d;
            }
            scn.requests.push(again);
        }
        let mut reals = build_xorbs(&env, &scn, schemes[i % schemes.len()])?;
        let fresh = fresh_every > 0 && i % fresh_every == 0;
        let dir = env.work.join(format!("s{i}"));
        std::fs::create_dir_all(&dir)?;
        for shared in &flavours {
            for cache in &caches {
                // without a cache a second identical request adds nothing
                let reqs: &[Req] = if !*cache && mode == "scn" { &scn.requests[..1] } else { &scn.requests[..] };
                let ev = run_variant(&env, &scn, &mut reals, &dir, *cache, *shared, fresh, reqs);
                if sample.is_empty() {
                    sample = ev.iter().take(14).cloned().collect();
                }
                out.run(&ev)?;
            }
        }
        let _ = std::fs::remove_dir_all(&dir);
    }
    let (runs, events) = out.finish()?;
    drop(httpd);
    let counts = env.counts.lock().unwrap().clone();
    Ok(json!({"driver":"reconstruct","mode":mode,"writer":writer,"scenarios":total,"runs":runs - 1,"events":events,"counts":counts,
              "sample": sample.iter().map(|s| serde_json::from_str::<Value>(s).unwrap()).collect::<Vec<_>>()})
    .to_string())
}
