pub mod singleflight;
pub mod chunkcache;
pub mod upload;
