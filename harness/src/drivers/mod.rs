pub mod singleflight;
