pub mod singleflight;
pub mod chunkcache;
