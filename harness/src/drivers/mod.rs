pub mod singleflight;
pub mod chunkcache;
pub mod upload;
pub mod shard;
pub mod chunker;
pub mod xorb;
pub mod merkle;
pub mod reconstruct;
