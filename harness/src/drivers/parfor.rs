//! Driver for parutils::tokio_par_for_each / run_tokio_parallel (the worker pool under data_client::upload_async and
//! download_async).  No hook is needed: the closure handed to the pool logs its own start and end under one mutex and
//! the caller logs what the call returned.  Validated by Trace_ParFor.tla against ParForObs.tla, which the algorithm
//! model ParFor.tla is model-checked to implement.
use std::sync::{Arc, Mutex};
use std::time::Duration;

use parutils::{run_tokio_parallel, tokio_par_for_each, ParallelError};
use rand::Rng;
use serde_json::json;

use crate::util::{Args, TraceOut};

fn value_of(i: usize) -> u64 {
    (i as u64 + 1) * 7 + 1
}

pub fn run(a: &Args) -> anyhow::Result<String> {
    crate::util::silence_panics();
    let n = a.u64("n", 50) as usize;
    let seed = a.u64("seed", 1);
    let mut rng = crate::util::rng(seed);
    let mut out = TraceOut::create(&a.str("out", "/dev/null"))?;
    out.run(&[json!({"ev":"PfSetup"}).to_string()])?;
    let rt = tokio::runtime::Builder::new_multi_thread().worker_threads(4).enable_all().build()?;
    let (mut oks, mut errs, mut panics) = (0usize, 0usize, 0usize);
    for c in 0..n {
        // sizes around the worker count, the empty input, more workers than items; none, one or several failing items
        let items = match c % 6 {
            0 => rng.gen_range(0..3usize),
            1 => rng.gen_range(1..6),
            _ => rng.gen_range(3..14),
        };
        let k = match c % 5 {
            0 => 1,
            1 => items.max(1) + rng.gen_range(0..3),
            _ => rng.gen_range(1..6usize),
        };
        let nfail = if c % 3 == 0 { 0 } else { rng.gen_range(0..3usize).min(items) };
        let mut fails: Vec<usize> = vec![];
        while fails.len() < nfail {
            let f = rng.gen_range(1..=items);
            if !fails.contains(&f) {
                fails.push(f);
            }
        }
        let api = if c % 4 == 3 { "run" } else { "each" };
        let delays: Vec<u64> = (0..items).map(|_| if rng.gen_bool(0.5) { 0 } else { rng.gen_range(0..400u64) }).collect();
        let log: Arc<Mutex<Vec<String>>> = Arc::new(Mutex::new(vec![]));
        log.lock().unwrap().push(json!({"ev":"PfCall","api":api,"n":items,"k":k,"fails":fails}).to_string());
        let fails2 = Arc::new(fails.clone());
        let delays2 = Arc::new(delays);
        let log2 = log.clone();
        let api2 = api.to_string();
        let res = std::panic::catch_unwind(std::panic::AssertUnwindSafe(|| {
            let (log2, fails2, delays2, api2) = (log2.clone(), fails2.clone(), delays2.clone(), api2.clone());
            rt.block_on(async move {
                // the scoped pool blocks its thread until the workers are done: it has to run on a runtime worker
                tokio::task::spawn(async move {
                let body = move |idx: usize| {
                    let (log, fails, delays) = (log2.clone(), fails2.clone(), delays2.clone());
                    async move {
                        log.lock().unwrap().push(json!({"ev":"PfStart","i":idx + 1}).to_string());
                        let d = delays[idx];
                        if d > 0 {
                            tokio::time::sleep(Duration::from_micros(d)).await;
                        } else {
                            tokio::task::yield_now().await;
                        }
                        let ok = !fails.contains(&(idx + 1));
                        log.lock().unwrap().push(json!({"ev":"PfEnd","i":idx + 1,"ok":ok}).to_string());
                        if ok {
                            Ok(value_of(idx))
                        } else {
                            Err(format!("item {}", idx + 1))
                        }
                    }
                };
                {
                    if api2 == "each" {
                        let input: Vec<usize> = (0..items).collect();
                        match tokio_par_for_each(input, k, |item, idx| {
                            let b = body(idx);
                            async move {
                                let v = b.await?;
                                // the item handed over must be the one at that index
                                if item != idx {
                                    return Ok(u64::MAX);
                                }
                                Ok::<u64, String>(v)
                            }
                        })
                        .await
                        {
                            Ok(v) => ("ok".to_string(), v),
                            Err(ParallelError::TaskError(_)) => ("err".to_string(), vec![]),
                            Err(ParallelError::JoinError) => ("join".to_string(), vec![]),
                        }
                    } else {
                        match run_tokio_parallel(items, k, |idx| {
                            let b = body(idx);
                            async move { b.await.map(|_| ()) }
                        })
                        .await
                        {
                            Ok(()) => ("ok".to_string(), (0..items).map(value_of).collect()),
                            Err(ParallelError::TaskError(_)) => ("err".to_string(), vec![]),
                            Err(ParallelError::JoinError) => ("join".to_string(), vec![]),
                        }
                    }
                }
                })
                .await
            })
        }));
        let mut ev = std::mem::take(&mut *log.lock().unwrap());
        match res {
            Ok(Ok((r, v))) => {
                if r == "ok" {
                    oks += 1;
                } else {
                    errs += 1;
                }
                let expect: Vec<u64> = (0..items).map(value_of).collect();
                ev.push(json!({"ev":"PfReturn","res":r,"out":v,"expect":expect}).to_string());
            },
            _ => {
                panics += 1;
                ev.push(json!({"ev":"PfPanic"}).to_string());
            },
        }
        out.run(&ev)?;
    }
    let (runs, events) = out.finish()?;
    Ok(json!({"driver":"parfor","runs":runs,"events":events,"ok":oks,"err":errs,"panics":panics}).to_string())
}
