//! Driver for the mdb_shard crate (C05 dedup answers, C09 lookups / search, C10 set operations / consolidation,
//! C18 keyed export / expiry).
//!
//! Hashes are engineered [u64; 4] values (colliding 64-bit prefixes on purpose); events carry a hash as
//! [prefix id, full id] (interned).  The first record of a trace file holds the HMAC table (plain chunk hash x key ->
//! keyed hash, computed with blake3 directly) so that the specification can evaluate KeyedH.
//!
//! modes: search | lookup | dedup | setops | keyed
use std::collections::{BTreeMap, HashMap, HashSet};
use std::io::{Cursor, Read, Seek, SeekFrom};
use std::path::{Path, PathBuf};
use std::sync::Arc;
use std::time::Duration;

use mdb_shard::cas_structs::{CASChunkSequenceEntry, CASChunkSequenceHeader, MDBCASInfo};
use mdb_shard::file_structs::{FileDataSequenceEntry, FileDataSequenceHeader, FileMetadataExt, FileVerificationEntry, MDBFileInfo};
use mdb_shard::interpolation_search::search_on_sorted_u64s;
use mdb_shard::session_directory::consolidate_shards_in_directory;
use mdb_shard::set_operations::{shard_file_difference, shard_file_union, shard_set_difference, shard_set_union};
use mdb_shard::shard_file_reconstructor::FileReconstructor;
use mdb_shard::shard_in_memory::MDBInMemoryShard;
use mdb_shard::streaming_shard::{process_shard_stream, process_shard_stream_async, MDBMinimalShard};
use mdb_shard::{MDBShardFile, MDBShardInfo, ShardFileManager};
use merklehash::{compute_data_hash, MerkleHash};
use rand::seq::SliceRandom;
use rand::Rng;
use serde_json::{json, Value};

use crate::ctl::Ctl;
use crate::intern::Interner;
use crate::util::Args;

type Rng_ = rand::rngs::StdRng;

fn hb(h: &MerkleHash) -> [u8; 32] {
    let mut o = [0u8; 32];
    o.copy_from_slice(h.as_bytes());
    o
}

struct Ids {
    prefixes: Interner,
    fulls: Interner,
}

impl Ids {
    fn new() -> Self {
        let mut fulls = Interner::new();
        fulls.set(&[0u8; 32], 0); // the zero hash / zero key is id 0
        Ids { prefixes: Interner::new(), fulls }
    }
    fn h(&mut self, h: &MerkleHash) -> Value {
        let b = hb(h);
        json!([self.prefixes.id(&b[0..8]), self.fulls.id(&b)])
    }
}

#[derive(Clone, Debug)]
struct XorbRec {
    h: MerkleHash,
    chunks: Vec<(MerkleHash, u32, MerkleHash)>, // (stored chunk hash, len, plain chunk hash)
}

#[derive(Clone, Debug)]
struct FileRec {
    h: MerkleHash,
    segs: Vec<(MerkleHash, u32, u32, u32)>, // xorb, lo, hi, bytes
    verif: Option<Vec<MerkleHash>>,
    meta: Option<MerkleHash>,
}

#[derive(Clone, Debug, Default)]
struct Model {
    sid: String,
    key: Option<MerkleHash>,
    xorbs: Vec<XorbRec>,
    files: Vec<FileRec>,
}

fn keyed(h: &MerkleHash, key: &MerkleHash) -> MerkleHash {
    // independent of merklehash::DataHash::hmac: blake3 keyed hash of the 32 hash bytes
    MerkleHash::from(*blake3::keyed_hash(&hb(key), &hb(h)).as_bytes())
}

struct Pool {
    chunk_hashes: Vec<MerkleHash>,
    xorb_hashes: Vec<MerkleHash>,
    file_hashes: Vec<MerkleHash>,
    keys: Vec<MerkleHash>,
}

fn engineered(rng: &mut Rng_, n: usize, nprefix: usize) -> Vec<MerkleHash> {
    // a few prefixes shared by many hashes, extreme and consecutive prefix values
    let mut prefixes: Vec<u64> = vec![0, 1, 2, u64::MAX, u64::MAX - 1, 1 << 63];
    while prefixes.len() < nprefix.max(6) {
        prefixes.push(rng.gen());
    }
    prefixes.truncate(nprefix.max(1));
    let mut seen = HashSet::new();
    let mut out = vec![];
    while out.len() < n {
        let p = prefixes[rng.gen_range(0..prefixes.len())];
        let h = MerkleHash::from([p, rng.gen_range(0..4u64), rng.gen(), rng.gen()]);
        if seen.insert(hb(&h)) {
            out.push(h);
        }
    }
    out
}

fn distinct_prefix(rng: &mut Rng_, n: usize) -> Vec<MerkleHash> {
    let mut seen = HashSet::new();
    let mut out = vec![];
    while out.len() < n {
        let p: u64 = rng.gen();
        if seen.insert(p) {
            out.push(MerkleHash::from([p, rng.gen(), rng.gen(), rng.gen()]));
        }
    }
    out
}

impl Pool {
    fn new_distinct(rng: &mut Rng_, n: usize) -> Self {
        let mut p = Pool::new(rng, 1, 1);
        p.chunk_hashes = distinct_prefix(rng, n);
        p.xorb_hashes = distinct_prefix(rng, n);
        p.file_hashes = distinct_prefix(rng, n);
        p
    }

    fn new(rng: &mut Rng_, n: usize, nprefix: usize) -> Self {
        let mut k1 = [0u8; 32];
        k1[0] = 7;
        let mut k2 = [0u8; 32];
        rng.fill(&mut k2);
        let chunk_hashes = engineered(rng, n, nprefix);
        let mut xorb_hashes = engineered(rng, n, nprefix);
        // a xorb holding a single chunk is named by that chunk's hash (the aggregate of one leaf is the leaf)
        for c in chunk_hashes.iter().take((n / 3).max(1)) {
            xorb_hashes.push(*c);
        }
        Pool {
            chunk_hashes,
            xorb_hashes,
            file_hashes: engineered(rng, n, nprefix),
            keys: vec![MerkleHash::from(k1), MerkleHash::from(k2)],
        }
    }
}

fn random_model(rng: &mut Rng_, pool: &Pool, sid: &str, max_x: usize, max_f: usize, max_chunks: usize) -> Model {
    let mut m = Model { sid: sid.to_string(), ..Default::default() };
    let nx = rng.gen_range(0..=max_x);
    let mut xs: Vec<MerkleHash> = pool.xorb_hashes.clone();
    xs.shuffle(rng);
    for h in xs.into_iter().take(nx) {
        // content addressing: the chunk list is a function of the xorb hash (two shards naming the same xorb agree)
        let mut r2 = crate::util::rng(u64::from_le_bytes(hb(&h)[16..24].try_into().unwrap()) ^ 0xc0ffee);
        if pool.chunk_hashes.contains(&h) {
            m.xorbs.push(XorbRec { h, chunks: vec![(h, r2.gen_range(1..2000u32), h)] });
            continue;
        }
        let nc = r2.gen_range(1..=max_chunks);
        let mut chunks = vec![];
        for _ in 0..nc {
            // repeated chunk hashes inside and across xorbs on purpose
            let c = pool.chunk_hashes[r2.gen_range(0..pool.chunk_hashes.len())];
            chunks.push((c, r2.gen_range(1..2000u32), c));
        }
        m.xorbs.push(XorbRec { h, chunks });
    }
    let nf = rng.gen_range(0..=max_f);
    let mut fs: Vec<MerkleHash> = pool.file_hashes.clone();
    fs.shuffle(rng);
    for h in fs.into_iter().take(nf) {
        m.files.push(random_file(rng, pool, &m.xorbs, h));
    }
    m
}

fn random_file(rng: &mut Rng_, pool: &Pool, xorbs: &[XorbRec], h: MerkleHash) -> FileRec {
    // the record of a file hash is a function of the hash (two shards holding the same file agree on its segments)
    let mut r2 = crate::util::rng(u64::from_le_bytes(hb(&h)[8..16].try_into().unwrap()) ^ 0x5eed);
    let nseg = r2.gen_range(0..4usize);
    let mut segs = vec![];
    for _ in 0..nseg {
        let x = pool.xorb_hashes[r2.gen_range(0..pool.xorb_hashes.len())];
        let lo = r2.gen_range(0..5u32);
        let hi = lo + r2.gen_range(1..4u32);
        // mostly small; sometimes at the 32-bit extremes, so that per-file and per-shard totals pass 2^32
        let nbytes = match r2.gen_range(0..10) {
            0 => [u32::MAX, u32::MAX - 1, 1 << 31, 3 << 30, (1 << 31) + 1][r2.gen_range(0..5)],
            1 => r2.gen_range(1u32 << 28..=u32::MAX),
            _ => r2.gen_range(1..100000u32),
        };
        segs.push((x, lo, hi, nbytes));
    }
    let _ = xorbs;
    let verif = if rng.gen_bool(0.5) {
        Some((0..nseg).map(|i| MerkleHash::from([r2.gen(), i as u64, 3, 3])).collect())
    } else {
        None
    };
    let meta = if rng.gen_bool(0.5) { Some(MerkleHash::from([hb(&h)[0] as u64, 9, 9, 9])) } else { None };
    FileRec { h, segs, verif, meta }
}

fn to_cas_info(x: &XorbRec) -> MDBCASInfo {
    let mut pos = 0u32;
    let mut chunks = vec![];
    for (c, len, _) in &x.chunks {
        chunks.push(CASChunkSequenceEntry::new(*c, *len, pos));
        pos += *len;
    }
    MDBCASInfo { metadata: CASChunkSequenceHeader::new(x.h, x.chunks.len(), pos), chunks }
}

fn to_file_info(f: &FileRec) -> MDBFileInfo {
    MDBFileInfo {
        metadata: FileDataSequenceHeader::new(f.h, f.segs.len(), f.verif.is_some(), f.meta.is_some()),
        segments: f.segs.iter().map(|(x, lo, hi, b)| FileDataSequenceEntry::new(*x, *b, *lo, *hi)).collect(),
        verification: f.verif.clone().unwrap_or_default().into_iter().map(FileVerificationEntry::new).collect(),
        metadata_ext: f.meta.map(FileMetadataExt::new),
    }
}

fn to_mem(m: &Model) -> MDBInMemoryShard {
    let mut s = MDBInMemoryShard::default();
    for x in &m.xorbs {
        s.add_cas_block(to_cas_info(x)).unwrap();
    }
    for f in &m.files {
        s.add_file_reconstruction_info(to_file_info(f)).unwrap();
    }
    s
}

fn serialize(mem: &MDBInMemoryShard) -> Vec<u8> {
    let mut v = vec![];
    MDBShardInfo::serialize_from(&mut v, mem).unwrap();
    v
}

/// 64-bit totals as <<low 16 bits, rest>> (TLC integers are 32-bit)
fn limbs(x: u64) -> Value {
    json!([x & 0xffff, x >> 16])
}

fn file_json(ids: &mut Ids, f: &MDBFileInfo) -> Value {
    json!({
        "h": ids.h(&f.metadata.file_hash),
        "segs": f.segments.iter().map(|s| json!([ids.h(&s.cas_hash), s.chunk_index_start, s.chunk_index_end, s.unpacked_segment_bytes & 0xffff, s.unpacked_segment_bytes >> 16])).collect::<Vec<_>>(),
        "verif": f.contains_verification(),
        "meta": f.contains_metadata_ext(),
        "vids": f.verification.iter().map(|v| ids.h(&v.range_hash)).collect::<Vec<_>>(),
        "sha": f.metadata_ext.as_ref().map(|m| ids.h(&m.sha256)).unwrap_or(json!([0, 0])),
        "nseg_hdr": f.metadata.num_entries,
    })
}

fn cas_json(ids: &mut Ids, c: &MDBCASInfo) -> Value {
    json!({
        "h": ids.h(&c.metadata.cas_hash),
        "chunks": c.chunks.iter().map(|e| json!([ids.h(&e.chunk_hash), e.unpacked_segment_bytes])).collect::<Vec<_>>(),
        "nbytes": c.metadata.num_bytes_in_cas,
        "n_hdr": c.metadata.num_entries,
    })
}

fn model_json(ids: &mut Ids, m: &Model) -> Value {
    let files: Vec<Value> = m.files.iter().map(|f| file_json(ids, &to_file_info(f))).collect();
    let xorbs: Vec<Value> = m
        .xorbs
        .iter()
        .map(|x| {
            let mut j = cas_json(ids, &to_cas_info(x));
            j["plain"] = Value::Array(x.chunks.iter().map(|c| ids.h(&c.2)).collect());
            j
        })
        .collect();
    json!({"sid": m.sid, "key": m.key.map(|k| ids.h(&k)[1].clone()).unwrap_or(json!(0)), "files": files, "xorbs": xorbs})
}

/// listing of a serialized shard through the seekable reader (the observation channel for derived shards)
/// a seekable source that returns short reads (`read` may; only `read_exact` promises the full count)
fn short(bytes: &[u8]) -> crate::drivers::xorb::ShortSeekReader {
    crate::drivers::xorb::ShortSeekReader::new(bytes, &[1, 2, 3, 5, 8, 13, 21, 64, 4096, 7, 48, 47, 49, 100_000])
}

fn listing(ids: &mut Ids, bytes: &[u8]) -> Result<Value, String> {
    let mut cur = short(bytes);
    let si = MDBShardInfo::load_from_reader(&mut cur).map_err(|e| format!("{e:?}"))?;
    let files = si.read_all_file_info_sections(&mut cur).map_err(|e| format!("{e:?}"))?;
    let cas = si.read_all_cas_blocks_full(&mut cur).map_err(|e| format!("{e:?}"))?;
    Ok(json!({
        "files": files.iter().map(|f| file_json(ids, f)).collect::<Vec<_>>(),
        "xorbs": cas.iter().map(|c| cas_json(ids, c)).collect::<Vec<_>>(),
        "key": ids.h(&si.metadata.chunk_hash_hmac_key)[1],
        "materialized": limbs(si.materialized_bytes()), "stored": si.stored_bytes(),
        "n_file_lookup": si.metadata.file_lookup_num_entry, "n_cas_lookup": si.metadata.cas_lookup_num_entry,
        "n_chunk_lookup": si.metadata.chunk_lookup_num_entry,
    }))
}

struct Out {
    events: Vec<String>,
    runs: usize,
    // every event is also appended (and flushed) to `<out>.partial`: if the process dies inside the code under test
    // (an allocation failure aborts without unwinding) the trace up to that point is still there to be judged
    partial: Option<std::fs::File>,
}

impl Out {
    fn line(&mut self, l: &str) {
        use std::io::Write;
        if let Some(f) = self.partial.as_mut() {
            let _ = writeln!(f, "{l}");
            let _ = f.flush();
        }
    }
    fn ev(&mut self, name: &str, mut v: Value) {
        v["ev"] = json!(name);
        let l = v.to_string();
        self.line(&l);
        self.events.push(l);
    }
    fn reset(&mut self) {
        self.line("{\"ev\":\"reset\"}");
        self.events.push("{\"ev\":\"reset\"}".to_string());
        self.runs += 1;
    }
}

fn guarded<T>(f: impl FnOnce() -> T) -> Result<T, String> {
    std::panic::catch_unwind(std::panic::AssertUnwindSafe(f)).map_err(|p| {
        if let Some(s) = p.downcast_ref::<String>() {
            s.clone()
        } else if let Some(s) = p.downcast_ref::<&str>() {
            s.to_string()
        } else {
            "panic".into()
        }
    })
}

// ------------------------------------------------------------------------------------------------ search
fn run_search(ctl: &Arc<Ctl>, rng: &mut Rng_, out: &mut Out, thorough: bool) {
    let vals: Vec<u64> = vec![0, 1, 2, 3, 1000, u64::MAX - 1, u64::MAX];
    let mut do_one = |arr: &[u64], key: u64, w: u64, d: u64, cap: usize, out: &mut Out| {
        ctl.set_param("search_read_window", Some(w));
        ctl.set_param("search_expected_dups", Some(d));
        let mut buf = vec![];
        for (i, k) in arr.iter().enumerate() {
            buf.extend_from_slice(&k.to_le_bytes());
            buf.extend_from_slice(&(i as u32 + 1).to_le_bytes());
        }
        let mut res = vec![0u32; cap];
        let r = guarded(|| {
            search_on_sorted_u64s(&mut Cursor::new(&buf), 0, arr.len() as u64, key, utils::serialization_utils::read_u32::<Cursor<&Vec<u8>>>, &mut res[..])
        });
        // order-preserving ranks instead of 64-bit values
        let mut distinct: Vec<u64> = arr.to_vec();
        distinct.push(key);
        distinct.sort();
        distinct.dedup();
        let rank = |v: u64| distinct.binary_search(&v).unwrap();
        let ranks: Vec<usize> = arr.iter().map(|v| rank(*v)).collect();
        match r {
            Ok(Ok(n)) => out.ev("SsSearch", json!({"arr": ranks, "key": rank(key), "w": w, "d": d, "cap": cap, "res": "ok", "found": res[..n.min(cap)].to_vec()})),
            Ok(Err(e)) => out.ev("SsSearch", json!({"arr": ranks, "key": rank(key), "w": w, "d": d, "cap": cap, "res": format!("err {e:?}"), "found": []})),
            Err(p) => out.ev("SsSearch", json!({"arr": ranks, "key": rank(key), "w": w, "d": d, "cap": cap, "res": format!("panic {p}"), "found": []})),
        }
    };
    // all non-decreasing arrays up to a length over the value set
    fn rec(vals: &[u64], start: usize, cur: &mut Vec<u64>, maxlen: usize, all: &mut Vec<Vec<u64>>) {
        all.push(cur.clone());
        if cur.len() == maxlen {
            return;
        }
        for i in start..vals.len() {
            cur.push(vals[i]);
            rec(vals, i, cur, maxlen, all);
            cur.pop();
        }
    }
    let mut all = vec![];
    rec(&vals, 0, &mut vec![], if thorough { 6 } else { 5 }, &mut all);
    for arr in &all {
        for w in [1u64, 2, 3] {
            let d = [1u64, 2, 4][(arr.len() + w as usize) % 3];
            for key in [0u64, 1, 2, 1000, 500, u64::MAX - 1, u64::MAX] {
                do_one(arr, key, w, d, 3, out);
            }
        }
    }
    out.reset();
    // large tables with the default constants (the interpolation phase needs more than 256 entries)
    for t in 0..(if thorough { 40 } else { 8 }) {
        let n = rng.gen_range(257..4000usize);
        let mut arr: Vec<u64> = match t % 4 {
            0 => (0..n).map(|_| rng.gen()).collect(),
            1 => (0..n).map(|_| rng.gen_range(0..50u64)).collect(), // many duplicates
            2 => (0..n).map(|i| (i as u64 / 3) * 7 + 1000).collect(), // consecutive clusters
            _ => (0..n).map(|_| if rng.gen_bool(0.5) { rng.gen_range(0..5u64) } else { u64::MAX - rng.gen_range(0..5u64) }).collect(),
        };
        arr.sort();
        for _ in 0..40 {
            let key = if rng.gen_bool(0.7) { arr[rng.gen_range(0..n)] } else { rng.gen() };
            do_one(&arr, key, 256, 4, 8, out);
        }
    }
    ctl.set_param("search_read_window", None);
    ctl.set_param("search_expected_dups", None);
    out.reset();
}

// ------------------------------------------------------------------------------------------------ lookup (C09)
fn lookup_all(ids: &mut Ids, out: &mut Out, m: &Model, bytes: &[u8], mem: &MDBInMemoryShard, pool: &Pool, rng: &mut Rng_) {
    let mut cur = Cursor::new(bytes);
    let si = match MDBShardInfo::load_from_reader(&mut cur) {
        Ok(s) => s,
        Err(e) => {
            out.ev("ShError", json!({"sid": m.sid, "what": format!("{e:?}")}));
            return;
        },
    };
    // file lookups: every stored file, plus absent hashes (same prefix as a stored one, and unrelated)
    let mut fq: Vec<MerkleHash> = m.files.iter().map(|f| f.h).collect();
    for _ in 0..6 {
        fq.push(pool.file_hashes[rng.gen_range(0..pool.file_hashes.len())]);
    }
    for h in &fq {
        let r = guarded(|| si.get_file_reconstruction_info(&mut short(bytes), h));
        let (res, rec) = match r {
            Ok(Ok(Some(fi))) => ("hit".to_string(), file_json(ids, &fi)),
            Ok(Ok(None)) => ("none".to_string(), json!({})),
            Ok(Err(e)) => (if format!("{e:?}").contains("TruncatedHashCollision") { "collision_error".to_string() } else { format!("err {e:?}") }, json!({})),
            Err(p) => (format!("panic {p}"), json!({})),
        };
        out.ev("ShLookup", json!({"sid": m.sid, "reader": "seek", "kind": "file", "h": ids.h(h), "res": res, "rec": rec}));
        let mr = mem.get_file_reconstruction_info(h);
        out.ev("ShLookup", json!({"sid": m.sid, "reader": "mem", "kind": "file", "h": ids.h(h), "res": if mr.is_some() { "hit" } else { "none" },
                                  "rec": mr.map(|fi| file_json(ids, &fi)).unwrap_or(json!({}))}));
    }
    let mut xq: Vec<MerkleHash> = m.xorbs.iter().map(|x| x.h).collect();
    for _ in 0..6 {
        xq.push(pool.xorb_hashes[rng.gen_range(0..pool.xorb_hashes.len())]);
    }
    for h in &xq {
        let r = guarded(|| -> Result<Option<MDBCASInfo>, String> {
            let mut cur = Cursor::new(bytes);
            let mut dest = [0u32; 8];
            let n = si.get_cas_info_index_by_hash(&mut cur, h, &mut dest).map_err(|e| format!("{e:?}"))?;
            for idx in dest.iter().take(n) {
                cur.seek(SeekFrom::Start(si.metadata.cas_info_offset + 48 * (*idx as u64))).map_err(|e| format!("{e:?}"))?;
                if let Some(c) = MDBCASInfo::deserialize(&mut cur).map_err(|e| format!("{e:?}"))? {
                    if c.metadata.cas_hash == *h {
                        return Ok(Some(c));
                    }
                }
            }
            Ok(None)
        });
        let (res, rec) = match r {
            Ok(Ok(Some(c))) => ("hit".to_string(), cas_json(ids, &c)),
            Ok(Ok(None)) => ("none".to_string(), json!({})),
            Ok(Err(e)) => (if e.contains("TruncatedHashCollision") { "collision_error".to_string() } else { format!("err {e}") }, json!({})),
            Err(p) => (format!("panic {p}"), json!({})),
        };
        out.ev("ShLookup", json!({"sid": m.sid, "reader": "seek", "kind": "xorb", "h": ids.h(h), "res": res, "rec": rec}));
        let mr = mem.cas_content.get(h);
        out.ev("ShLookup", json!({"sid": m.sid, "reader": "mem", "kind": "xorb", "h": ids.h(h), "res": if mr.is_some() { "hit" } else { "none" },
                                  "rec": mr.map(|c| cas_json(ids, c)).unwrap_or(json!({}))}));
    }
}

/// by-hash lookups in an exported (possibly keyed) shard: every file / xorb of the source, and absent hashes
#[allow(clippy::too_many_arguments)]
fn export_lookups(ids: &mut Ids, out: &mut Out, src: &Model, outsid: &str, bytes: &[u8], incl_file: bool, incl_cas: bool, pool: &Pool, rng: &mut Rng_) {
    let Ok(si) = MDBShardInfo::load_from_reader(&mut Cursor::new(bytes)) else { return };
    if incl_file {
        let mut fq: Vec<MerkleHash> = src.files.iter().map(|f| f.h).collect();
        for _ in 0..3 {
            fq.push(pool.file_hashes[rng.gen_range(0..pool.file_hashes.len())]);
        }
        for h in &fq {
            let (res, rec) = match guarded(|| si.get_file_reconstruction_info(&mut short(bytes), h)) {
                Ok(Ok(Some(fi))) => ("hit".to_string(), file_json(ids, &fi)),
                Ok(Ok(None)) => ("none".to_string(), json!({})),
                Ok(Err(e)) => (format!("err {e:?}"), json!({})),
                Err(p) => (format!("panic {p}"), json!({})),
            };
            out.ev("ShExportLookup", json!({"src": src.sid, "out": outsid, "kind": "file", "h": ids.h(h), "res": res, "rec": rec}));
        }
    }
    if incl_cas {
        let mut xq: Vec<MerkleHash> = src.xorbs.iter().map(|x| x.h).collect();
        for _ in 0..3 {
            xq.push(pool.xorb_hashes[rng.gen_range(0..pool.xorb_hashes.len())]);
        }
        for h in &xq {
            let r = guarded(|| -> Result<bool, String> {
                let mut cur = Cursor::new(bytes);
                let mut dest = [0u32; 8];
                let n = si.get_cas_info_index_by_hash(&mut cur, h, &mut dest).map_err(|e| format!("{e:?}"))?;
                for idx in dest.iter().take(n) {
                    cur.seek(SeekFrom::Start(si.metadata.cas_info_offset + 48 * (*idx as u64))).map_err(|e| format!("{e:?}"))?;
                    if let Some(c) = MDBCASInfo::deserialize(&mut cur).map_err(|e| format!("{e:?}"))? {
                        if c.metadata.cas_hash == *h {
                            return Ok(true);
                        }
                    }
                }
                Ok(false)
            });
            let res = match r {
                Ok(Ok(true)) => "hit".to_string(),
                Ok(Ok(false)) => "none".to_string(),
                Ok(Err(e)) => format!("err {e}"),
                Err(p) => format!("panic {p}"),
            };
            out.ev("ShExportLookup", json!({"src": src.sid, "out": outsid, "kind": "xorb", "h": ids.h(h), "res": res, "rec": {}}));
        }
    }
}

fn scan_all(ids: &mut Ids, out: &mut Out, sid: &str, bytes: &[u8]) {
    // seekable reader
    match guarded(|| listing(ids, bytes)) {
        Ok(Ok(l)) => out.ev("ShScan", json!({"sid": sid, "reader": "seek", "files": l["files"], "xorbs": l["xorbs"], "materialized": l["materialized"], "stored": l["stored"]})),
        Ok(Err(e)) => out.ev("ShError", json!({"sid": sid, "what": e})),
        Err(p) => out.ev("ShPanic", json!({"sid": sid, "what": p})),
    }
    // minimal reader
    match guarded(|| MDBMinimalShard::from_reader(&mut short(bytes), true, true)) {
        Ok(Ok(ms)) => {
            let mut files = vec![];
            for i in 0..ms.num_files() {
                let v = ms.file(i);
                let fi = MDBFileInfo {
                    metadata: v.header().clone(),
                    segments: (0..v.num_entries()).map(|j| v.entry(j)).collect(),
                    verification: if v.contains_verification() { (0..v.num_entries()).map(|j| v.verification(j)).collect() } else { vec![] },
                    metadata_ext: None,
                };
                let mut j = file_json(ids, &fi);
                j["sha"] = json!([-1, -1]); // the view does not expose the metadata extension
                files.push(j);
            }
            let mut xorbs = vec![];
            for i in 0..ms.num_cas() {
                let v = ms.cas(i);
                let c = MDBCASInfo { metadata: v.header().clone(), chunks: (0..v.num_entries()).map(|j| v.chunk(j)).collect() };
                xorbs.push(cas_json(ids, &c));
            }
            out.ev("ShScan", json!({"sid": sid, "reader": "minimal", "files": files, "xorbs": xorbs}));
            // the minimal reader writes the shard out again (no lookup tables, totals re-computed from the records)
            let mut again = vec![];
            match guarded(|| ms.serialize(&mut again).map(|_| ())) {
                Ok(Ok(())) => match guarded(|| listing(ids, &again)) {
                    Ok(Ok(l)) => out.ev("ShScan", json!({"sid": sid, "reader": "minimal_reser", "files": l["files"], "xorbs": l["xorbs"], "materialized": l["materialized"], "stored": l["stored"]})),
                    Ok(Err(e)) => out.ev("ShError", json!({"sid": sid, "what": format!("minimal re-serialized: {e}")})),
                    Err(p) => out.ev("ShPanic", json!({"sid": sid, "what": p})),
                },
                Ok(Err(e)) => out.ev("ShError", json!({"sid": sid, "what": format!("minimal serialize {e:?}")})),
                Err(p) => out.ev("ShPanic", json!({"sid": sid, "what": p})),
            }
        },
        Ok(Err(e)) => out.ev("ShError", json!({"sid": sid, "what": format!("minimal {e:?}")})),
        Err(p) => out.ev("ShPanic", json!({"sid": sid, "what": p})),
    }
    // streaming reader
    let mut files = vec![];
    let mut xorbs = vec![];
    let ids_cell = std::cell::RefCell::new(&mut *ids);
    let r = guarded(|| {
        process_shard_stream(
            &mut short(bytes),
            Some(|v: mdb_shard::file_structs::MDBFileInfoView| {
                let fi = MDBFileInfo {
                    metadata: v.header().clone(),
                    segments: (0..v.num_entries()).map(|j| v.entry(j)).collect(),
                    verification: if v.contains_verification() { (0..v.num_entries()).map(|j| v.verification(j)).collect() } else { vec![] },
                    metadata_ext: None,
                };
                let mut j = file_json(&mut ids_cell.borrow_mut(), &fi);
                j["sha"] = json!([-1, -1]);
                files.push(j);
                Ok(())
            }),
            Some(|v: mdb_shard::cas_structs::MDBCASInfoView| {
                let c = MDBCASInfo { metadata: v.header().clone(), chunks: (0..v.num_entries()).map(|j| v.chunk(j)).collect() };
                xorbs.push(cas_json(&mut ids_cell.borrow_mut(), &c));
                Ok(())
            }),
        )
    });
    match r {
        Ok(Ok(())) => out.ev("ShScan", json!({"sid": sid, "reader": "stream", "files": files, "xorbs": xorbs})),
        Ok(Err(e)) => out.ev("ShError", json!({"sid": sid, "what": format!("stream {e:?}")})),
        Err(p) => out.ev("ShPanic", json!({"sid": sid, "what": p})),
    }
    drop(ids_cell);
    scan_accessors(ids, out, sid, bytes);
    // the same on the shard as the minimal reader writes it out again (no lookup tables at all)
    if let Ok(Ok(ms)) = guarded(|| MDBMinimalShard::from_reader(&mut Cursor::new(bytes), true, true)) {
        let mut again = vec![];
        if let Ok(Ok(())) = guarded(|| ms.serialize(&mut again).map(|_| ())) {
            scan_accessors(ids, out, sid, &again);
        }
    }
    scan_sections(ids, out, sid, bytes);
}

/// the remaining read accessors of the format: xorb headers with their positions, the (truncated chunk hash ->
/// location) list - read from the chunk lookup table or, when the shard has none, rebuilt from the records - and the
/// byte ranges of the file records
fn scan_accessors(ids: &mut Ids, out: &mut Out, sid: &str, bytes: &[u8]) {
    {
        let r = guarded(|| -> Result<(Vec<Value>, Vec<Value>, bool, Vec<Value>), String> {
            let mut cur = Cursor::new(bytes);
            let si = MDBShardInfo::load_from_reader(&mut cur).map_err(|e| format!("{e:?}"))?;
            let mut xs = vec![];
            for (hdr, pos) in si.read_all_cas_blocks(&mut cur).map_err(|e| format!("{e:?}"))? {
                cur.seek(SeekFrom::Start(pos)).map_err(|e| format!("{e:?}"))?;
                match MDBCASInfo::deserialize(&mut cur).map_err(|e| format!("{e:?}"))? {
                    Some(c) if c.metadata.cas_hash == hdr.cas_hash && c.metadata.num_entries == hdr.num_entries => xs.push(cas_json(ids, &c)),
                    _ => return Err("position returned with a xorb header does not hold that header".into()),
                }
            }
            let mut locs = vec![];
            let mut consistent = true;
            for (trunc, (ci, off)) in si.read_all_truncated_hashes(&mut cur).map_err(|e| format!("{e:?}"))? {
                cur.seek(SeekFrom::Start(si.metadata.cas_info_offset + 48 * ci as u64)).map_err(|e| format!("{e:?}"))?;
                match MDBCASInfo::deserialize(&mut cur).map_err(|e| format!("{e:?}"))? {
                    Some(c) if (off as usize) < c.chunks.len() => {
                        consistent &= mdb_shard::utils::truncate_hash(&c.chunks[off as usize].chunk_hash) == trunc;
                        locs.push(json!([ids.h(&c.metadata.cas_hash), off]));
                    },
                    _ => {
                        consistent = false;
                        locs.push(json!([[-1, -1], off]));
                    },
                }
            }
            let mut fhs = vec![];
            for (fh, _, _, _) in MDBShardInfo::read_file_info_ranges(&mut Cursor::new(bytes)).map_err(|e| format!("{e:?}"))? {
                fhs.push(json!(ids.h(&fh)));
            }
            Ok((xs, locs, consistent, fhs))
        });
        match r {
            Ok(Ok((xs, locs, consistent, fhs))) => {
                out.ev("ShScanPart", json!({"sid": sid, "reader": "headers", "part": "xorbs", "xorbs": xs, "files": []}));
                out.ev("ShIndexScan", json!({"sid": sid, "locs": locs, "consistent": consistent, "file_hashes": fhs}));
            },
            Ok(Err(e)) => out.ev("ShError", json!({"sid": sid, "what": format!("accessors {e}")})),
            Err(p) => out.ev("ShPanic", json!({"sid": sid, "what": p})),
        }
    }
}

fn scan_sections(ids: &mut Ids, out: &mut Out, sid: &str, bytes: &[u8]) {
    // the streaming reader asked for one section only (the other callback absent)
    {
        let mut only_x = vec![];
        let ids_cell = std::cell::RefCell::new(&mut *ids);
        let r = guarded(|| {
            process_shard_stream(
                &mut Cursor::new(bytes),
                None::<fn(mdb_shard::file_structs::MDBFileInfoView) -> mdb_shard::error::Result<()>>,
                Some(|v: mdb_shard::cas_structs::MDBCASInfoView| {
                    let c = MDBCASInfo { metadata: v.header().clone(), chunks: (0..v.num_entries()).map(|j| v.chunk(j)).collect() };
                    only_x.push(cas_json(&mut ids_cell.borrow_mut(), &c));
                    Ok(())
                }),
            )
        });
        drop(ids_cell);
        match r {
            Ok(Ok(())) => out.ev("ShScanPart", json!({"sid": sid, "reader": "stream_cas_only", "part": "xorbs", "xorbs": only_x, "files": []})),
            Ok(Err(e)) => out.ev("ShError", json!({"sid": sid, "what": format!("stream cas only {e:?}")})),
            Err(p) => out.ev("ShPanic", json!({"sid": sid, "what": p})),
        }
        let mut only_f = vec![];
        let ids_cell = std::cell::RefCell::new(&mut *ids);
        let r = guarded(|| {
            process_shard_stream(
                &mut Cursor::new(bytes),
                Some(|v: mdb_shard::file_structs::MDBFileInfoView| {
                    let fi = MDBFileInfo {
                        metadata: v.header().clone(),
                        segments: (0..v.num_entries()).map(|j| v.entry(j)).collect(),
                        verification: if v.contains_verification() { (0..v.num_entries()).map(|j| v.verification(j)).collect() } else { vec![] },
                        metadata_ext: None,
                    };
                    let mut j = file_json(&mut ids_cell.borrow_mut(), &fi);
                    j["sha"] = json!([-1, -1]);
                    only_f.push(j);
                    Ok(())
                }),
                None::<fn(mdb_shard::cas_structs::MDBCASInfoView) -> mdb_shard::error::Result<()>>,
            )
        });
        drop(ids_cell);
        match r {
            Ok(Ok(())) => out.ev("ShScanPart", json!({"sid": sid, "reader": "stream_files_only", "part": "files", "files": only_f, "xorbs": []})),
            Ok(Err(e)) => out.ev("ShError", json!({"sid": sid, "what": format!("stream files only {e:?}")})),
            Err(p) => out.ev("ShPanic", json!({"sid": sid, "what": p})),
        }
    }
    // the asynchronous variants of the streaming and the minimal reader, fed in pieces of 1..64 bytes (short reads)
    let sizes: Vec<usize> = (0..17).map(|k| 1 + (k * 37 + bytes.len()) % 64).collect();
    let mut files = vec![];
    let mut xorbs = vec![];
    let ids_cell = std::cell::RefCell::new(&mut *ids);
    let r = guarded(|| {
        futures::executor::block_on(process_shard_stream_async(
            &mut crate::drivers::xorb::PieceReader::new(bytes, &sizes),
            Some(|v: mdb_shard::file_structs::MDBFileInfoView| {
                let fi = MDBFileInfo {
                    metadata: v.header().clone(),
                    segments: (0..v.num_entries()).map(|j| v.entry(j)).collect(),
                    verification: if v.contains_verification() { (0..v.num_entries()).map(|j| v.verification(j)).collect() } else { vec![] },
                    metadata_ext: None,
                };
                let mut j = file_json(&mut ids_cell.borrow_mut(), &fi);
                j["sha"] = json!([-1, -1]);
                files.push(j);
                Ok(())
            }),
            Some(|v: mdb_shard::cas_structs::MDBCASInfoView| {
                let c = MDBCASInfo { metadata: v.header().clone(), chunks: (0..v.num_entries()).map(|j| v.chunk(j)).collect() };
                xorbs.push(cas_json(&mut ids_cell.borrow_mut(), &c));
                Ok(())
            }),
        ))
    });
    match r {
        Ok(Ok(())) => out.ev("ShScan", json!({"sid": sid, "reader": "stream_async", "files": files, "xorbs": xorbs})),
        Ok(Err(e)) => out.ev("ShError", json!({"sid": sid, "what": format!("stream_async {e:?}")})),
        Err(p) => out.ev("ShPanic", json!({"sid": sid, "what": p})),
    }
    drop(ids_cell);
    match guarded(|| futures::executor::block_on(MDBMinimalShard::from_reader_async(&mut crate::drivers::xorb::PieceReader::new(bytes, &sizes), true, true))) {
        Ok(Ok(ms)) => {
            let same = guarded(|| MDBMinimalShard::from_reader(&mut Cursor::new(bytes), true, true)).ok().and_then(|r| r.ok()).map(|m2| m2 == ms).unwrap_or(false);
            let mut again = vec![];
            match guarded(|| ms.serialize(&mut again).map(|_| ())) {
                Ok(Ok(())) => match guarded(|| listing(ids, &again)) {
                    Ok(Ok(l)) if same => out.ev("ShScan", json!({"sid": sid, "reader": "minimal_reser", "via": "async", "files": l["files"], "xorbs": l["xorbs"], "materialized": l["materialized"], "stored": l["stored"]})),
                    Ok(Ok(_)) => out.ev("ShError", json!({"sid": sid, "what": "minimal reader: async and sync results differ"})),
                    Ok(Err(e)) => out.ev("ShError", json!({"sid": sid, "what": format!("minimal async re-serialized: {e}")})),
                    Err(p) => out.ev("ShPanic", json!({"sid": sid, "what": p})),
                },
                Ok(Err(e)) => out.ev("ShError", json!({"sid": sid, "what": format!("minimal async serialize {e:?}")})),
                Err(p) => out.ev("ShPanic", json!({"sid": sid, "what": p})),
            }
        },
        Ok(Err(e)) => out.ev("ShError", json!({"sid": sid, "what": format!("minimal async {e:?}")})),
        Err(p) => out.ev("ShPanic", json!({"sid": sid, "what": p})),
    }
}

fn run_lookup(ctl: &Arc<Ctl>, rng: &mut Rng_, ids: &mut Ids, out: &mut Out, n: usize) {
    for i in 0..n {
        // small pools with few prefixes: up to 7 entries share a truncated prefix
        let (np, sz) = [(1usize, 7usize), (2, 10), (4, 30), (40, 300)][i % 4];
        let pool = Pool::new(rng, sz, np);
        let w = [1u64, 2, 3, 256][i % 4];
        ctl.set_param("search_read_window", Some(w));
        ctl.set_param("search_expected_dups", Some([1u64, 2, 4][i % 3]));
        let big = i % 4 == 3;
        let m = random_model(rng, &pool, &format!("L{i}"), if big { 280 } else { sz.min(7) }, if big { 280 } else { sz.min(7) }, if big { 6 } else { 4 });
        let mem = to_mem(&m);
        let bytes = serialize(&mem);
        out.ev("ShBuild", model_json(ids, &m));
        out.ev("ShSizes", json!({"sid": m.sid, "mem_size": mem.shard_file_size(), "file_size": bytes.len(),
                                  "mem_materialized": limbs(mem.materialized_bytes()), "mem_stored": mem.stored_bytes()}));
        lookup_all(ids, out, &m, &bytes, &mem, &pool, rng);
        scan_all(ids, out, &m.sid, &bytes);
        out.reset();
    }
    ctl.set_param("search_read_window", None);
    ctl.set_param("search_expected_dups", None);
}

// ------------------------------------------------------------------------------------------------ dedup (C05)
fn ans_json(ids: &mut Ids, a: &Option<(usize, FileDataSequenceEntry)>) -> Value {
    match a {
        None => json!({"found": false}),
        Some((n, e)) => json!({"found": true, "n": n, "x": ids.h(&e.cas_hash), "lo": e.chunk_index_start, "hi": e.chunk_index_end, "bytes": e.unpacked_segment_bytes}),
    }
}

fn queries(rng: &mut Rng_, pool: &Pool, models: &[&Model], n: usize) -> Vec<Vec<MerkleHash>> {
    // plain (unkeyed) chunk hashes of every xorb of the models are needed: models passed here hold PLAIN hashes
    let mut qs = vec![];
    let xs: Vec<&XorbRec> = models.iter().flat_map(|m| m.xorbs.iter()).collect();
    for _ in 0..n {
        let mut q: Vec<MerkleHash> = vec![];
        if !xs.is_empty() && rng.gen_bool(0.8) {
            let x = xs[rng.gen_range(0..xs.len())];
            let a = rng.gen_range(0..x.chunks.len());
            let l = rng.gen_range(1..=(x.chunks.len() - a));
            q = x.chunks[a..a + l].iter().map(|c| c.2).collect();
            match rng.gen_range(0..5) {
                0 => {
                    let p = rng.gen_range(0..q.len());
                    q[p] = pool.chunk_hashes[rng.gen_range(0..pool.chunk_hashes.len())]; // mutated in one position
                },
                1 => {
                    // running past the end of the xorb: random hashes, or the name of the xorb stored right after it
                    q = x.chunks[a..].iter().map(|c| c.2).collect();
                    let mut names: Vec<MerkleHash> = models.iter().flat_map(|m| m.xorbs.iter().map(|y| y.h)).collect();
                    names.sort();
                    let next = names.iter().find(|h| **h > x.h).copied();
                    match next {
                        Some(nx) if rng.gen_bool(0.6) => q.push(nx),
                        _ => {},
                    }
                    for _ in 0..rng.gen_range(0..3) {
                        q.push(pool.chunk_hashes[rng.gen_range(0..pool.chunk_hashes.len())]);
                    }
                },
                _ => {},
            }
        } else {
            for _ in 0..rng.gen_range(0..4) {
                q.push(pool.chunk_hashes[rng.gen_range(0..pool.chunk_hashes.len())]);
            }
        }
        qs.push(q);
    }
    qs
}

fn keyed_model(m: &Model, key: &MerkleHash, sid: &str, incl_files: bool) -> Model {
    Model {
        sid: sid.to_string(),
        key: Some(*key),
        xorbs: m.xorbs.iter().map(|x| XorbRec { h: x.h, chunks: x.chunks.iter().map(|(c, l, _)| (keyed(c, key), *l, *c)).collect() }).collect(),
        files: if incl_files { m.files.clone() } else { vec![] },
    }
}

fn run_dedup(rng: &mut Rng_, ids: &mut Ids, out: &mut Out, n: usize, rt: &tokio::runtime::Runtime) {
    for i in 0..n {
        let (np, sz) = [(1usize, 6usize), (2, 12), (6, 40), (60, 400)][i % 4];
        let pool = Pool::new(rng, sz, np);
        let big = i % 4 == 3;
        let nm = rng.gen_range(1..4);
        let models: Vec<Model> = (0..nm).map(|j| random_model(rng, &pool, &format!("D{i}m{j}"), if big { 60 } else { 4 }, 2, if big { 40 } else { 4 })).collect();
        for m in &models {
            out.ev("ShBuild", model_json(ids, m));
        }
        let refs: Vec<&Model> = models.iter().collect();
        let qs = queries(rng, &pool, &refs, if big { 120 } else { 40 });
        // (a) in-memory shard and (b) serialized shard, each model on its own
        for m in &models {
            let mem = to_mem(m);
            let bytes = serialize(&mem);
            let si = MDBShardInfo::load_from_reader(&mut Cursor::new(&bytes)).unwrap();
            for q in &qs {
                let qj: Vec<Value> = q.iter().map(|h| ids.h(h)).collect();
                let a = guarded(|| mem.chunk_hash_dedup_query(q));
                match a {
                    Ok(a) => out.ev("ShDedup", json!({"impl": "mem", "sids": [m.sid], "q": qj, "ans": ans_json(ids, &a), "must_find": false})),
                    Err(p) => out.ev("ShPanic", json!({"what": p})),
                }
                let a = guarded(|| si.chunk_hash_dedup_query(&mut short(&bytes), q));
                match a {
                    Ok(Ok(a)) => out.ev("ShDedup", json!({"impl": "disk", "sids": [m.sid], "q": qj, "ans": ans_json(ids, &a), "must_find": false})),
                    Ok(Err(e)) => out.ev("ShError", json!({"what": format!("{e:?}")})),
                    Err(p) => out.ev("ShPanic", json!({"what": p})),
                }
            }
        }
        // (c) manager over a history: add / flush / register keyed exports / consolidate
        let dir = tempfile::tempdir().unwrap();
        let mut present: Vec<String> = vec![];
        let r: Result<(), String> = rt.block_on(async {
            let mgr = ShardFileManager::new_in_session_directory(dir.path()).await.map_err(|e| format!("{e:?}"))?;
            for (j, m) in models.iter().enumerate() {
                for x in &m.xorbs {
                    mgr.add_cas_block(to_cas_info(x)).await.map_err(|e| format!("{e:?}"))?;
                }
                for f in &m.files {
                    mgr.add_file_reconstruction_info(to_file_info(f)).await.map_err(|e| format!("{e:?}"))?;
                }
                present.push(m.sid.clone());
                let step = rng.gen_range(0..4);
                if step == 0 {
                    mgr.flush().await.map_err(|e| format!("{e:?}"))?;
                } else if step == 1 {
                    // a keyed export of this model registered next to it
                    let src = tempfile::tempdir().unwrap();
                    let p = to_mem(m).write_to_directory(src.path()).map_err(|e| format!("{e:?}"))?;
                    let sf = MDBShardFile::load_from_file(&p).map_err(|e| format!("{e:?}"))?;
                    let key = pool.keys[j % pool.keys.len()];
                    let incl_chunk = rng.gen_bool(0.5);
                    let kf = sf
                        .export_as_keyed_shard(dir.path(), key, Duration::from_secs(3600), rng.gen_bool(0.5), rng.gen_bool(0.5), incl_chunk)
                        .map_err(|e| format!("{e:?}"))?;
                    mgr.register_shards(&[kf]).await.map_err(|e| format!("{e:?}"))?;
                    let km = keyed_model(m, &key, &format!("{}k", m.sid), true);
                    out.ev("ShBuild", model_json(ids, &km));
                    present.push(km.sid.clone());
                }
                let qs2 = &qs[..qs.len().min(25)];
                for q in qs2 {
                    let qj: Vec<Value> = q.iter().map(|h| ids.h(h)).collect();
                    if q.is_empty() {
                        continue; // the manager indexes query_hashes[0]
                    }
                    match mgr.chunk_hash_dedup_query(q).await {
                        Ok(a) => out.ev("ShDedup", json!({"impl": "manager", "sids": present, "q": qj, "ans": ans_json(ids, &a), "must_find": false})),
                        Err(e) => out.ev("ShError", json!({"what": format!("{e:?}")})),
                    }
                }
            }
            // every file record added so far is found through the manager, before and after the final flush
            for phase in ["before_flush", "after_flush"] {
                for m in models.iter() {
                    for f in &m.files {
                        match mgr.get_file_reconstruction_info(&f.h).await {
                            Ok(Some((fi, _))) => out.ev("ShMgrLookup", json!({"phase": phase, "sids": present, "h": ids.h(&f.h), "res": "hit", "rec": file_json(ids, &fi)})),
                            Ok(None) => out.ev("ShMgrLookup", json!({"phase": phase, "sids": present, "h": ids.h(&f.h), "res": "none", "rec": {}})),
                            Err(e) => out.ev("ShError", json!({"what": format!("{e:?}")})),
                        }
                    }
                }
                if phase == "before_flush" {
                    mgr.flush().await.map_err(|e| format!("{e:?}"))?;
                }
            }
            let nreg = mgr.registered_shard_list().await.map(|l| l.len()).unwrap_or(0);
            let all = mgr.all_file_info().await.map(|v| v.len()).unwrap_or(0);
            let nfiles: HashSet<[u8; 32]> = models.iter().flat_map(|m| m.files.iter().map(|f| hb(&f.h))).collect();
            out.ev("ShMgrEnd", json!({"registered": nreg, "all_file_info": all, "distinct_files": nfiles.len()}));
            Ok(())
        });
        if let Err(e) = r {
            out.ev("ShError", json!({"what": e}));
        }
        out.reset();
    }
}

// ------------------------------------------------------------------------------------------------ set operations (C10)
fn overlapping_pair(rng: &mut Rng_, pool: &Pool, i: usize) -> (Model, Model) {
    let a = random_model(rng, pool, &format!("S{i}a"), 5, 5, 4);
    let mut b = random_model(rng, pool, &format!("S{i}b"), 5, 5, 4);
    match i % 5 {
        0 => {}, // whatever overlap the small pool gives
        1 => b = Model { sid: b.sid.clone(), ..a.clone() }, // identical
        2 => b = Model { sid: b.sid.clone(), ..Default::default() }, // empty second
        3 => {
            // same files with every combination of flags, same xorb names
            b.files = a
                .files
                .iter()
                .map(|f| {
                    let mut g = f.clone();
                    let mut r2 = crate::util::rng(7);
                    g.verif = if rng.gen_bool(0.5) { Some((0..g.segs.len()).map(|k| MerkleHash::from([r2.gen(), k as u64, 3, 3])).collect()) } else { None };
                    g.meta = if rng.gen_bool(0.5) { Some(MerkleHash::from([1, 9, 9, 9])) } else { None };
                    g
                })
                .collect();
            b.xorbs = a.xorbs.clone();
        },
        _ => {
            // b shares some xorbs (same name => same content) and adds others
            for x in a.xorbs.iter().take(2) {
                if !b.xorbs.iter().any(|y| y.h == x.h) {
                    b.xorbs.push(x.clone());
                }
            }
        },
    }
    // same xorb name => same chunk list in both (content addressing)
    for y in b.xorbs.iter_mut() {
        if let Some(x) = a.xorbs.iter().find(|x| x.h == y.h) {
            y.chunks = x.chunks.clone();
        }
    }
    // same file hash => same segments; verification / metadata values are a function of the hash
    for g in b.files.iter_mut() {
        if let Some(f) = a.files.iter().find(|f| f.h == g.h) {
            g.segs = f.segs.clone();
            if let (Some(v), Some(_)) = (&f.verif, &g.verif) {
                g.verif = Some(v.clone());
            }
            if let (Some(v), Some(_)) = (&f.meta, &g.meta) {
                g.meta = Some(*v);
            }
        }
    }
    (a, b)
}

fn run_setops(rng: &mut Rng_, ids: &mut Ids, out: &mut Out, n: usize) {
    for i in 0..n {
        let pool = Pool::new(rng, [6usize, 10, 16][i % 3], [1usize, 2, 4][i % 3]);
        let (a, b) = overlapping_pair(rng, &pool, i);
        out.ev("ShBuild", model_json(ids, &a));
        out.ev("ShBuild", model_json(ids, &b));
        let (ma, mb) = (to_mem(&a), to_mem(&b));
        let (ba, bb) = (serialize(&ma), serialize(&mb));
        let (sa, sb) = (MDBShardInfo::load_from_reader(&mut Cursor::new(&ba)).unwrap(), MDBShardInfo::load_from_reader(&mut Cursor::new(&bb)).unwrap());
        let dir = tempfile::tempdir().unwrap();
        let (pa, pb) = (dir.path().join("a.mdb"), dir.path().join("b.mdb"));
        std::fs::write(&pa, &ba).unwrap();
        std::fs::write(&pb, &bb).unwrap();
        for op in ["union", "difference"] {
            // readers
            let mut o = vec![];
            let r = guarded(|| {
                if op == "union" {
                    shard_set_union(&sa, &mut Cursor::new(&ba), &sb, &mut Cursor::new(&bb), &mut o)
                } else {
                    shard_set_difference(&sa, &mut Cursor::new(&ba), &sb, &mut Cursor::new(&bb), &mut o)
                }
            });
            let sid = format!("S{i}{op}r");
            emit_setop(ids, out, op, "readers", &a.sid, &b.sid, &sid, r.map(|r| r.map(|_| o.clone()).map_err(|e| format!("{e:?}"))), &pool, rng);
            // files
            let po = dir.path().join(format!("{op}.mdb"));
            let r = guarded(|| if op == "union" { shard_file_union(&pa, &pb, &po) } else { shard_file_difference(&pa, &pb, &po) });
            let sid = format!("S{i}{op}f");
            let r2 = r.map(|r| {
                r.map_err(|e| format!("{e:?}")).and_then(|(h, _)| {
                    let bytes = std::fs::read(&po).map_err(|e| format!("{e:?}"))?;
                    if compute_data_hash(&bytes) != h {
                        return Err("returned hash is not the hash of the written file".to_string());
                    }
                    Ok(bytes)
                })
            });
            emit_setop(ids, out, op, "files", &a.sid, &b.sid, &sid, r2, &pool, rng);
            // in memory
            let r = guarded(|| if op == "union" { ma.union(&mb) } else { ma.difference(&mb) });
            let sid = format!("S{i}{op}m");
            let r2 = r.map(|r| r.map(|m| serialize(&m)).map_err(|e| format!("{e:?}")));
            emit_setop(ids, out, op, "mem", &a.sid, &b.sid, &sid, r2, &pool, rng);
        }
        out.reset();
    }
}

#[allow(clippy::too_many_arguments)]
fn emit_setop(ids: &mut Ids, out: &mut Out, op: &str, imp: &str, a: &str, b: &str, sid: &str, r: Result<Result<Vec<u8>, String>, String>, pool: &Pool, rng: &mut Rng_) {
    match r {
        Ok(Ok(bytes)) => match listing(ids, &bytes) {
            Ok(l) => {
                out.ev("ShSetOp", json!({"op": op, "impl": imp, "a": a, "b": b, "out": sid, "files": l["files"], "xorbs": l["xorbs"],
                                          "materialized": l["materialized"], "stored": l["stored"]}));
                // every record stays retrievable through the lookup tables of the result
                let m = Model { sid: sid.to_string(), ..Default::default() };
                let mut cur = Cursor::new(&bytes);
                if let Ok(si) = MDBShardInfo::load_from_reader(&mut cur) {
                    let files = si.read_all_file_info_sections(&mut cur).unwrap_or_default();
                    for f in files.iter() {
                        let r = si.get_file_reconstruction_info(&mut Cursor::new(&bytes), &f.metadata.file_hash);
                        let (res, rec) = match r {
                            Ok(Some(fi)) => ("hit".to_string(), file_json(ids, &fi)),
                            Ok(None) => ("none".to_string(), json!({})),
                            Err(e) => (if format!("{e:?}").contains("TruncatedHashCollision") { "collision_error".into() } else { format!("err {e:?}") }, json!({})),
                        };
                        out.ev("ShLookup", json!({"sid": sid, "reader": "seek", "kind": "file", "h": ids.h(&f.metadata.file_hash), "res": res, "rec": rec}));
                    }
                    let cas = si.read_all_cas_blocks_full(&mut Cursor::new(&bytes)).unwrap_or_default();
                    // ... every xorb through the xorb lookup table of the result
                    for c in cas.iter() {
                        let h = c.metadata.cas_hash;
                        let r = guarded(|| -> Result<Option<MDBCASInfo>, String> {
                            let mut cur = short(&bytes);
                            let mut dest = [0u32; 8];
                            let n = si.get_cas_info_index_by_hash(&mut cur, &h, &mut dest).map_err(|e| format!("{e:?}"))?;
                            for idx in dest.iter().take(n) {
                                cur.seek(SeekFrom::Start(si.metadata.cas_info_offset + 48 * (*idx as u64))).map_err(|e| format!("{e:?}"))?;
                                if let Some(c2) = MDBCASInfo::deserialize(&mut cur).map_err(|e| format!("{e:?}"))? {
                                    if c2.metadata.cas_hash == h {
                                        return Ok(Some(c2));
                                    }
                                }
                            }
                            Ok(None)
                        });
                        let (res, rec) = match r {
                            Ok(Ok(Some(c2))) => ("hit".to_string(), cas_json(ids, &c2)),
                            Ok(Ok(None)) => ("none".to_string(), json!({})),
                            Ok(Err(e)) => (if e.contains("TruncatedHashCollision") { "collision_error".to_string() } else { format!("err {e}") }, json!({})),
                            Err(p) => (format!("panic {p}"), json!({})),
                        };
                        out.ev("ShLookup", json!({"sid": sid, "reader": "seek", "kind": "xorb", "h": ids.h(&h), "res": res, "rec": rec}));
                    }
                    for c in cas.iter() {
                        if c.chunks.is_empty() {
                            continue;
                        }
                        let q: Vec<MerkleHash> = c.chunks.iter().map(|e| e.chunk_hash).collect();
                        if let Ok(a) = si.chunk_hash_dedup_query(&mut Cursor::new(&bytes), &q) {
                            let qj: Vec<Value> = q.iter().map(|h| ids.h(h)).collect();
                            out.ev("ShDedup", json!({"impl": "disk", "sids": [sid], "q": qj, "ans": ans_json(ids, &a), "must_find": true}));
                        }
                    }
                }
                let _ = (m, pool, rng);
            },
            Err(e) => out.ev("ShError", json!({"what": format!("result of {op}/{imp} unreadable: {e}")})),
        },
        Ok(Err(e)) => out.ev("ShError", json!({"what": format!("{op}/{imp}: {e}")})),
        Err(p) => out.ev("ShPanic", json!({"what": format!("{op}/{imp}: {p}")})),
    }
}

fn run_consolidate(rng: &mut Rng_, ids: &mut Ids, out: &mut Out, n: usize) {
    for i in 0..n {
        let pool = Pool::new(rng, 12, 3);
        let dir = tempfile::tempdir().unwrap();
        let k = if i % 3 == 2 { rng.gen_range(4..=8usize) } else { rng.gen_range(1..=8usize) };
        let mut before = vec![];
        let mut sizes = vec![];
        let mut names: HashMap<String, String> = HashMap::new(); // file name -> sid
        let mut prev_model: Option<Model> = None;
        let mut first_two: Vec<Model> = vec![];
        for j in 0..k {
            let mut m = random_model(rng, &pool, &format!("C{i}s{j}"), 3, 3, 3);
            while m.xorbs.is_empty() && m.files.is_empty() {
                m = random_model(rng, &pool, &format!("C{i}s{j}"), 3, 3, 3);
            }
            // now and then a shard whose records are a part of the previous shard's: merging the two gives the content
            // (and so the name) of one of the inputs
            if let Some(prev) = prev_model.as_ref().filter(|_| rng.gen_bool(0.3)) {
                let prev: &Model = prev;
                let mut sub = Model { sid: m.sid.clone(), ..Default::default() };
                sub.xorbs = prev.xorbs.iter().filter(|_| rng.gen_bool(0.6)).cloned().collect();
                sub.files = prev.files.iter().filter(|_| rng.gen_bool(0.6)).cloned().collect();
                if !(sub.xorbs.is_empty() && sub.files.is_empty()) {
                    m = sub;
                }
            }
            // a directory in which an earlier consolidation was interrupted after it had written its output: the first
            // two shards AND their union are there (the union's content - and so its name - is what merging the two
            // gives again), followed by younger shards that may be merged with it
            if j == 2 && i % 3 == 2 && before.len() == 2 {
                if let (Some(a), Some(b)) = (first_two.first().cloned(), first_two.get(1).cloned()) {
                    let (a, b): (Model, Model) = (a, b);
                    let mut u = Model { sid: m.sid.clone(), ..Default::default() };
                    for x in a.xorbs.iter().chain(b.xorbs.iter()) {
                        if !u.xorbs.iter().any(|y| y.h == x.h) {
                            u.xorbs.push(x.clone());
                        }
                    }
                    for f in a.files.iter().chain(b.files.iter()) {
                        if !u.files.iter().any(|y| y.h == f.h) {
                            u.files.push(f.clone());
                        }
                    }
                    m = u;
                }
            }
            if first_two.len() < 2 {
                first_two.push(m.clone());
            }
            prev_model = Some(m.clone());
            // mostly as flushed; sometimes without lookup tables (as the minimal reader writes a shard out: the
            // footer's lookup counts are 0 although the shard has records)
            let p = if rng.gen_bool(0.3) && !(j == 2 && i % 3 == 2) {
                let full = serialize(&to_mem(&m));
                let mut bare = vec![];
                match MDBMinimalShard::from_reader(&mut Cursor::new(&full), true, true).and_then(|ms| ms.serialize(&mut bare)) {
                    Ok(_) => {
                        let p = dir.path().join(mdb_shard::utils::shard_file_name(&compute_data_hash(&bare)));
                        std::fs::write(&p, &bare).unwrap();
                        p
                    },
                    Err(_) => to_mem(&m).write_to_directory(dir.path()).unwrap(),
                }
            } else {
                to_mem(&m).write_to_directory(dir.path()).unwrap()
            };
            let fname = p.file_name().unwrap().to_string_lossy().to_string();
            if names.contains_key(&fname) {
                continue; // identical content: same file
            }
            names.insert(fname, m.sid.clone());
            sizes.push(std::fs::metadata(&p).unwrap().len());
            out.ev("ShBuild", model_json(ids, &m));
            before.push(m.sid.clone());
            // distinct modification times give a defined order
            std::thread::sleep(Duration::from_millis(3));
        }
        // a session directory is not always tidy: leftovers of interrupted shard writes, foreign files, a
        // sub-directory.  Several of them, under names that sort and hash differently, so that whatever order the
        // file system lists a directory in, some come before a shard.  None of them is a shard: nothing changes.
        let mut strays = 0;
        if i % 2 == 1 {
            let h = |b: u8| format!("{:02x}", b).repeat(32);
            let mut stray_names: Vec<String> = vec![
                ".0d1f3c5a-7b9e-4c2d-8f6a-1b3c5d7e9f00.mdb_temp".into(),
                ".zz-interrupted.mdb_temp".into(),
                "notes.txt".into(),
                "0".into(),
                "~backup".into(),
                format!("{}.mdb.bak", h(0x11)),
                format!("{}.tmp", h(0xee)),
                format!("{}.mdb", &h(0x77)[..40]),
            ];
            for q in 0..rng.gen_range(0..6usize) {
                stray_names.push(format!("{}{:x}", ["x", ".y", "Z", "_"][q % 4], rng.gen::<u64>()));
            }
            for sname in &stray_names {
                let l = rng.gen_range(0..200usize);
                let mut b = vec![0u8; l];
                rng.fill(&mut b[..]);
                std::fs::write(dir.path().join(sname), &b).unwrap();
                strays += 1;
            }
            std::fs::create_dir(dir.path().join("subdir")).unwrap();
            std::fs::write(dir.path().join("subdir").join(format!("{}.mdb", h(0x33))), b"not looked at").unwrap();
            strays += 1;
        }
        let total: u64 = sizes.iter().sum();
        let threshold = if i % 3 == 2 && sizes.len() >= 4 {
            // the first two form one merge group (a shard joins a group while the sum stays below the threshold), their
            // union - the third file - starts the next group and is merged with the fourth
            (sizes[0] + sizes[1]).max(sizes[2] + sizes[3]) + 1
        } else { match i % 4 {
            0 => 1,
            1 => total + 1,
            2 => sizes[0] + sizes.get(1).copied().unwrap_or(0) + 1,
            _ => rng.gen_range(1..=total + 1),
        } };
        let r = guarded(|| consolidate_shards_in_directory(dir.path(), threshold));
        match r {
            Ok(Ok(list)) => {
                let mut returned = vec![];
                for s in &list {
                    let exists = s.path.exists();
                    let bytes = std::fs::read(&s.path).unwrap_or_default();
                    let name_ok = exists && compute_data_hash(&bytes) == s.shard_hash
                        && mdb_shard::utils::parse_shard_filename(&s.path) == Some(s.shard_hash);
                    let l = listing(ids, &bytes).unwrap_or(json!({"files": [], "xorbs": []}));
                    // the records of a returned shard are found through its own lookup tables (where it has them: an
                    // input written without tables that is returned as it is has none)
                    let lookup_ok = guarded(|| -> Result<bool, String> {
                        let mut cur = Cursor::new(&bytes);
                        let si = MDBShardInfo::load_from_reader(&mut cur).map_err(|e| format!("{e:?}"))?;
                        let mut ok = true;
                        if si.metadata.cas_lookup_num_entry > 0 {
                            for c in si.read_all_cas_blocks_full(&mut cur).map_err(|e| format!("{e:?}"))? {
                                let mut dest = [0u32; 8];
                                // (more records share the 64-bit prefix than a lookup returns: reported as an error)
                                let n = match si.get_cas_info_index_by_hash(&mut cur, &c.metadata.cas_hash, &mut dest) {
                                    Ok(n) => n,
                                    Err(e) if format!("{e:?}").contains("TruncatedHashCollision") => continue,
                                    Err(e) => return Err(format!("{e:?}")),
                                };
                                let mut found = false;
                                for idx in dest.iter().take(n) {
                                    cur.seek(SeekFrom::Start(si.metadata.cas_info_offset + 48 * (*idx as u64))).map_err(|e| format!("{e:?}"))?;
                                    if let Some(c2) = MDBCASInfo::deserialize(&mut cur).map_err(|e| format!("{e:?}"))? {
                                        found |= c2.metadata.cas_hash == c.metadata.cas_hash && c2.chunks.len() == c.chunks.len();
                                    }
                                }
                                ok &= found || n == 8;
                            }
                        }
                        if si.metadata.file_lookup_num_entry > 0 {
                            for f in si.read_all_file_info_sections(&mut cur).map_err(|e| format!("{e:?}"))? {
                                match si.get_file_reconstruction_info(&mut cur, &f.metadata.file_hash) {
                                    Ok(Some(fi)) => ok &= fi.metadata.file_hash == f.metadata.file_hash && fi.segments.len() == f.segments.len(),
                                    Ok(None) => ok = false,
                                    Err(e) => ok &= format!("{e:?}").contains("TruncatedHashCollision"),
                                }
                            }
                        }
                        Ok(ok)
                    });
                    let lookup_ok = matches!(lookup_ok, Ok(Ok(true)));
                    returned.push(json!({"exists": exists, "name_ok": name_ok, "files": l["files"], "xorbs": l["xorbs"], "lookup_ok": lookup_ok}));
                }
                let mut remaining = vec![];
                let mut others = 0;
                for e in std::fs::read_dir(dir.path()).unwrap().flatten() {
                    let n = e.file_name().to_string_lossy().to_string();
                    match names.get(&n) {
                        Some(sid) => remaining.push(sid.clone()),
                        None => others += 1,
                    }
                }
                out.ev("ShConsolidate", json!({"before": before, "sizes": sizes, "threshold": threshold, "returned": returned, "remaining": remaining, "other_files": others, "strays": strays}));
            },
            Ok(Err(e)) => out.ev("ShError", json!({"what": format!("consolidate: {e:?}")})),
            Err(p) => out.ev("ShPanic", json!({"what": format!("consolidate: {p}")})),
        }
        out.reset();
    }
}

// ------------------------------------------------------------------------------------------------ keyed shards (C18)
fn run_keyed(ctl: &Arc<Ctl>, rng: &mut Rng_, ids: &mut Ids, out: &mut Out, n: usize, rt: &tokio::runtime::Runtime) {
    for i in 0..n {
        let pool = Pool::new_distinct(rng, [8usize, 20, 60][i % 3]);
        let m = random_model(rng, &pool, &format!("K{i}"), 5, 3, 5);
        out.ev("ShBuild", model_json(ids, &m));
        let src = tempfile::tempdir().unwrap();
        let p = to_mem(&m).write_to_directory(src.path()).unwrap();
        let sf = MDBShardFile::load_from_file(&p).unwrap();
        let zero = MerkleHash::default();
        let keys = [zero, pool.keys[0], pool.keys[1]];
        // original directory for the comparison of dedup answers
        let odir = tempfile::tempdir().unwrap();
        std::fs::copy(&p, odir.path().join(p.file_name().unwrap())).unwrap();
        for (ki, key) in keys.iter().enumerate() {
            for flags in 0..8u32 {
                let (inc_f, inc_c, inc_k) = (flags & 1 != 0, flags & 2 != 0, flags & 4 != 0);
                let dir = tempfile::tempdir().unwrap();
                let r = guarded(|| sf.export_as_keyed_shard(dir.path(), *key, Duration::from_secs(1000), inc_f, inc_c, inc_k));
                let sid = format!("K{i}k{ki}f{flags}");
                match r {
                    Ok(Ok(kf)) => {
                        let bytes = std::fs::read(&kf.path).unwrap();
                        match listing(ids, &bytes) {
                            Ok(l) => out.ev("ShExport", json!({"src": m.sid, "out": sid,
                                "expect_xorbs": m.xorbs.iter().map(|x| json!({"h": ids.h(&x.h), "chunks": x.chunks.iter().map(|c| json!([ids.h(&if *key == zero { c.0 } else { keyed(&c.0, key) }), c.1])).collect::<Vec<_>>()})).collect::<Vec<_>>(), "key": if *key == zero { json!(0) } else { ids.h(key)[1].clone() },
                                "incl_file": inc_f, "incl_cas": inc_c, "incl_chunk": inc_k, "files": l["files"], "xorbs": l["xorbs"], "out_key": l["key"],
                                "n_file_lookup": l["n_file_lookup"], "n_cas_lookup": l["n_cas_lookup"], "n_chunk_lookup": l["n_chunk_lookup"]})),
                            Err(e) => out.ev("ShError", json!({"what": format!("export unreadable: {e}")})),
                        }
                        export_lookups(ids, out, &m, &sid, &bytes, inc_f, inc_c, &pool, rng);
                        // dedup through the manager with unkeyed hashes: same answers as the original
                        let qs = queries(rng, &pool, &[&m], 12);
                        let r: Result<(), String> = rt.block_on(async {
                            let mk = ShardFileManager::new_in_session_directory(dir.path()).await.map_err(|e| format!("{e:?}"))?;
                            mk.register_shards_by_path(&[dir.path()]).await.map_err(|e| format!("{e:?}"))?;
                            let mo = ShardFileManager::new_in_session_directory(odir.path()).await.map_err(|e| format!("{e:?}"))?;
                            mo.register_shards_by_path(&[odir.path()]).await.map_err(|e| format!("{e:?}"))?;
                            for q in &qs {
                                if q.is_empty() {
                                    continue;
                                }
                                let qj: Vec<Value> = q.iter().map(|h| ids.h(h)).collect();
                                let ak = mk.chunk_hash_dedup_query(q).await.map_err(|e| format!("{e:?}"))?;
                                let ao = mo.chunk_hash_dedup_query(q).await.map_err(|e| format!("{e:?}"))?;
                                out.ev("ShDedupPair", json!({"orig": m.sid, "keyed": sid, "q": qj, "ans_orig": ans_json(ids, &ao), "ans_keyed": ans_json(ids, &ak)}));
                            }
                            // file records are kept or dropped as requested
                            for f in &m.files {
                                let r = mk.get_file_reconstruction_info(&f.h).await.map_err(|e| format!("{e:?}"))?;
                                out.ev("ShKeyedFile", json!({"keyed": sid, "h": ids.h(&f.h), "found": r.is_some(), "incl_file": inc_f}));
                            }
                            Ok(())
                        });
                        if let Err(e) = r {
                            out.ev("ShError", json!({"what": e}));
                        }
                    },
                    Ok(Err(e)) => out.ev("ShError", json!({"what": format!("export: {e:?}")})),
                    Err(p) => out.ev("ShPanic", json!({"what": format!("export: {p}")})),
                }
                // the streaming variant of the export (reader -> writer, no shard handle)
                let src_bytes = std::fs::read(&p).unwrap();
                let mut outb = vec![];
                let r = guarded(|| MDBShardInfo::export_as_keyed_shard_streaming(&mut Cursor::new(&src_bytes), &mut outb, *key, Duration::from_secs(1000), inc_f, inc_c, inc_k));
                match r {
                    Ok(Ok(_)) => match listing(ids, &outb) {
                        Ok(l) => out.ev("ShExport", json!({"src": m.sid, "out": format!("{sid}s"),
                            "expect_xorbs": m.xorbs.iter().map(|x| json!({"h": ids.h(&x.h), "chunks": x.chunks.iter().map(|c| json!([ids.h(&if *key == zero { c.0 } else { keyed(&c.0, key) }), c.1])).collect::<Vec<_>>()})).collect::<Vec<_>>(), "key": if *key == zero { json!(0) } else { ids.h(key)[1].clone() },
                            "incl_file": inc_f, "incl_cas": inc_c, "incl_chunk": inc_k, "files": l["files"], "xorbs": l["xorbs"], "out_key": l["key"],
                            "n_file_lookup": l["n_file_lookup"], "n_cas_lookup": l["n_cas_lookup"], "n_chunk_lookup": l["n_chunk_lookup"]})),
                        Err(e) => out.ev("ShError", json!({"what": format!("streaming export unreadable: {e}")})),
                    },
                    Ok(Err(e)) => out.ev("ShError", json!({"what": format!("streaming export: {e:?}")})),
                    Err(p) => out.ev("ShPanic", json!({"what": format!("streaming export: {p}")})),
                }
                if !outb.is_empty() {
                    export_lookups(ids, out, &m, &format!("{sid}s"), &outb, inc_f, inc_c, &pool, rng);
                }
            }
        }
        // one manager over a directory that mixes exports under several keys (two distinct non-zero keys, a repeated
        // key, the zero key), all registered by one call: every model still answers as its original does
        {
            let mix = tempfile::tempdir().unwrap();
            let omix = tempfile::tempdir().unwrap();
            let mut ms: Vec<(Model, Pool)> = vec![];
            let nmix = rng.gen_range(3..6usize);
            let mut kpaths = vec![];
            for j in 0..nmix {
                let pj = Pool::new_distinct(rng, 12);
                let mj = random_model(rng, &pj, &format!("K{i}x{j}"), 3, 2, 4);
                out.ev("ShBuild", model_json(ids, &mj));
                let srcj = tempfile::tempdir().unwrap();
                let pp = to_mem(&mj).write_to_directory(srcj.path()).unwrap();
                std::fs::copy(&pp, omix.path().join(pp.file_name().unwrap())).unwrap();
                let sfj = MDBShardFile::load_from_file(&pp).unwrap();
                let key = [pool.keys[0], pool.keys[1], zero, pool.keys[0], pool.keys[2 % pool.keys.len()]][j % 5];
                match guarded(|| sfj.export_as_keyed_shard(mix.path(), key, Duration::from_secs(1000), true, true, true)) {
                    Ok(Ok(kf)) => kpaths.push(kf.path.clone()),
                    Ok(Err(e)) => out.ev("ShError", json!({"what": format!("export: {e:?}")})),
                    Err(p) => out.ev("ShPanic", json!({"what": format!("export: {p}")})),
                }
                ms.push((mj, pj));
            }
            let by_files = rng.gen_bool(0.5);
            let r: Result<(), String> = rt.block_on(async {
                let mk = ShardFileManager::new_in_session_directory(mix.path()).await.map_err(|e| format!("{e:?}"))?;
                if by_files {
                    mk.register_shards_by_path(&kpaths).await.map_err(|e| format!("{e:?}"))?;
                } else {
                    mk.register_shards_by_path(&[mix.path()]).await.map_err(|e| format!("{e:?}"))?;
                }
                let mo = ShardFileManager::new_in_session_directory(omix.path()).await.map_err(|e| format!("{e:?}"))?;
                mo.register_shards_by_path(&[omix.path()]).await.map_err(|e| format!("{e:?}"))?;
                for (mj, pj) in &ms {
                    for q in queries(rng, pj, &[mj], 8) {
                        if q.is_empty() {
                            continue;
                        }
                        let qj: Vec<Value> = q.iter().map(|h| ids.h(h)).collect();
                        let ak = mk.chunk_hash_dedup_query(&q).await.map_err(|e| format!("{e:?}"))?;
                        let ao = mo.chunk_hash_dedup_query(&q).await.map_err(|e| format!("{e:?}"))?;
                        out.ev("ShDedupPair", json!({"orig": mj.sid, "keyed": format!("{}mix", mj.sid), "q": qj, "ans_orig": ans_json(ids, &ao), "ans_keyed": ans_json(ids, &ak)}));
                    }
                    for f in &mj.files {
                        let r = mk.get_file_reconstruction_info(&f.h).await.map_err(|e| format!("{e:?}"))?;
                        out.ev("ShKeyedFile", json!({"keyed": format!("{}mix", mj.sid), "h": ids.h(&f.h), "found": r.is_some(), "incl_file": true}));
                    }
                }
                Ok(())
            });
            if let Err(e) = r {
                out.ev("ShError", json!({"what": e}));
            }
            // the same keyed exports next to a plain "decoy" shard whose chunk hashes share their 64-bit prefix with
            // first chunks of the keyed models: the unkeyed collection (always asked first) has a table entry for the
            // query's prefix that does not verify, and the answer must still come from the keyed collection
            let mixd = tempfile::tempdir().unwrap();
            for kp in &kpaths {
                let _ = std::fs::copy(kp, mixd.path().join(kp.file_name().unwrap()));
            }
            let keyof = |j: usize| [pool.keys[0], pool.keys[1], zero, pool.keys[0], pool.keys[2 % pool.keys.len()]][j % 5];
            let mut twins = vec![];
            let mut musts: Vec<(String, Vec<MerkleHash>)> = vec![];
            for (j, (mj, _)) in ms.iter().enumerate() {
                if keyof(j) == zero {
                    continue;
                }
                for x in &mj.xorbs {
                    let first = x.chunks[0].2;
                    let p = u64::from_le_bytes(hb(&first)[0..8].try_into().unwrap());
                    twins.push((MerkleHash::from([p, rng.gen(), rng.gen(), rng.gen()]), rng.gen_range(1..500u32)));
                    musts.push((mj.sid.clone(), x.chunks.iter().take(3).map(|c| c.2).collect()));
                }
            }
            if !twins.is_empty() {
                let decoy = Model {
                    sid: format!("K{i}xdecoy"),
                    xorbs: vec![XorbRec { h: MerkleHash::from([rng.gen(), rng.gen(), 7, 7]), chunks: twins.iter().map(|(t, l)| (*t, *l, *t)).collect() }],
                    ..Default::default()
                };
                out.ev("ShBuild", model_json(ids, &decoy));
                let _ = to_mem(&decoy).write_to_directory(mixd.path());
                let r: Result<(), String> = rt.block_on(async {
                    let md = ShardFileManager::new_in_session_directory(mixd.path()).await.map_err(|e| format!("{e:?}"))?;
                    md.register_shards_by_path(&[mixd.path()]).await.map_err(|e| format!("{e:?}"))?;
                    for (owner, q) in &musts {
                        let qj: Vec<Value> = q.iter().map(|h| ids.h(h)).collect();
                        let a = md.chunk_hash_dedup_query(q).await.map_err(|e| format!("{e:?}"))?;
                        out.ev("ShDedupMust", json!({"owner": owner, "q": qj, "ans": ans_json(ids, &a)}));
                    }
                    Ok(())
                });
                if let Err(e) = r {
                    out.ev("ShError", json!({"what": e}));
                }
            }
        }
        // a shard that also holds a xorb with more chunks than a 16-bit chunk offset can address (limits above the
        // default allow it): whatever the index does with that xorb's far chunks, the chunks of the shard's other xorbs
        // are found
        if i % 4 == 0 && m.key.is_none() && !m.xorbs.is_empty() {
            let wide = tempfile::tempdir().unwrap();
            let mut mem = to_mem(&m);
            let nwide = 66_000usize;
            let hx = MerkleHash::from([rng.gen(), rng.gen(), 9, 9]);
            let chunks: Vec<(MerkleHash, u32, MerkleHash)> = (0..nwide)
                .map(|_| {
                    let h = MerkleHash::from([rng.gen(), rng.gen(), rng.gen(), 9]);
                    (h, 1u32, h)
                })
                .collect();
            let r: Result<(), String> = (|| {
                mem.add_cas_block(to_cas_info(&XorbRec { h: hx, chunks })).map_err(|e| format!("{e:?}"))?;
                mem.write_to_directory(wide.path()).map_err(|e| format!("{e:?}"))?;
                rt.block_on(async {
                    let md = ShardFileManager::new_in_session_directory(wide.path()).await.map_err(|e| format!("{e:?}"))?;
                    md.register_shards_by_path(&[wide.path()]).await.map_err(|e| format!("{e:?}"))?;
                    for x in &m.xorbs {
                        let q: Vec<MerkleHash> = x.chunks.iter().take(3).map(|c| c.2).collect();
                        let qj: Vec<Value> = q.iter().map(|h| ids.h(h)).collect();
                        let a = md.chunk_hash_dedup_query(&q).await.map_err(|e| format!("{e:?}"))?;
                        out.ev("ShDedupMust", json!({"owner": m.sid, "q": qj, "ans": ans_json(ids, &a), "beside": "wide xorb"}));
                    }
                    Ok(())
                })
            })();
            if let Err(e) = r {
                out.ev("ShError", json!({"what": format!("wide xorb: {e}")}));
            }
        }
        // expiry: all orderings of now against expiry and expiry + grace, at the exact boundaries
        let t0 = 1_000_000u64 + rng.gen_range(0..1000u64);
        let valid = rng.gen_range(10..100u64);
        // (a grace period of 0 is legal: deletion as soon as the shard has expired, never before)
        let grace = if i % 3 == 2 { 0 } else { rng.gen_range(5..50u64) };
        // (and a reader whose clock is behind the writer's: now < creation <= expiry is an unexpired shard)
        for (ni, now) in [t0 - 1, 1_000_000u64, t0, t0 + valid - 1, t0 + valid, t0 + valid + 1, (t0 + valid + grace).saturating_sub(1), t0 + valid + grace, t0 + valid + grace + 1, t0 - 2, t0 + 1].into_iter().enumerate() {
            let dir = tempfile::tempdir().unwrap();
            ctl.set_clock(t0);
            // (the plain export keeps the source's creation time, 0; the keyed export stamps the time of the export)
            let as_keyed = (ni + i) % 2 == 1;
            let export = |d: &Path| {
                if as_keyed {
                    sf.export_as_keyed_shard(d, pool.keys[0], Duration::from_secs(valid), true, true, true)
                } else {
                    sf.export_with_expiration(d, Duration::from_secs(valid))
                }
            };
            let r = guarded(|| export(dir.path()));
            match r {
                Ok(Ok(ef)) => {
                    let expiry = ef.shard.metadata.shard_key_expiry;
                    ctl.set_clock(now);
                    let loaded = MDBShardFile::load_all_valid(dir.path()).map(|v| !v.is_empty());
                    let _ = MDBShardFile::clean_expired_shards(dir.path(), grace);
                    let still_there = ef.path.exists();
                    // the same shard handed to a manager by explicit file path and by directory, before the clean-up ran
                    let mut via = vec![];
                    {
                        let d2 = tempfile::tempdir().unwrap();
                        let ctl2 = ctl.clone();
                        ctl2.set_clock(t0);
                        if let Ok(Ok(ef2)) = guarded(|| export(d2.path())) {
                            ctl2.set_clock(now);
                            let q: Vec<MerkleHash> = m.xorbs.iter().flat_map(|x| x.chunks.iter().map(|c| c.2)).take(1).collect();
                            for (how, target) in [("file", ef2.path.clone()), ("dir", d2.path().to_path_buf())] {
                                // (a session-directory manager does not scan its directory by itself)
                                let found = rt.block_on(async {
                                    let mg = ShardFileManager::new_in_session_directory(d2.path()).await.ok()?;
                                    mg.register_shards_by_path(&[target.clone()]).await.ok()?;
                                    let n = mg.registered_shard_list().await.ok()?.len();
                                    let hit = if q.is_empty() { None } else { mg.chunk_hash_dedup_query(&q).await.ok()? };
                                    Some((n, hit.is_some()))
                                });
                                via.push(json!({"how": how, "registered": found.map(|f| f.0).unwrap_or(99), "answers": found.map(|f| f.1).unwrap_or(true), "has_chunks": !q.is_empty()}));
                            }
                        }
                    }
                    out.ev("ShExpiry", json!({"creation": t0 - 1_000_000, "valid": valid, "expiry": expiry - 1_000_000, "grace": grace, "now": now - 1_000_000,
                                              "loaded": loaded.unwrap_or(false), "deleted": !still_there, "via": via, "keyed": as_keyed,
                                              "stamped": ef.shard.metadata.shard_creation_timestamp}));
                },
                Ok(Err(e)) => out.ev("ShError", json!({"what": format!("export_with_expiration: {e:?}")})),
                Err(p) => out.ev("ShPanic", json!({"what": p})),
            }
        }
        ctl.set_clock(0);
        // keyed export: creation / expiry timestamps
        ctl.set_clock(t0);
        let dir = tempfile::tempdir().unwrap();
        if let Ok(Ok(kf)) = guarded(|| sf.export_as_keyed_shard(dir.path(), pool.keys[0], Duration::from_secs(valid), true, true, true)) {
            out.ev("ShKeyedTimes", json!({"creation_set": t0 - 1_000_000, "valid": valid, "creation": kf.shard.metadata.shard_creation_timestamp - 1_000_000,
                                          "expiry": kf.shard.metadata.shard_key_expiry - 1_000_000}));
        }
        ctl.set_clock(0);
        out.reset();
    }
}

pub fn run(a: &Args) -> anyhow::Result<String> {
    crate::util::silence_panics();
    let ctl = Ctl::new();
    ctl.install();
    let mode = a.str("mode", "lookup");
    let seed = a.u64("seed", 1);
    let n = a.u64("n", 12) as usize;
    let mut rng = crate::util::rng(seed);
    let mut ids = Ids::new();
    let out_path = a.str("out", "/dev/null");
    let partial_path = format!("{out_path}.partial");
    let partial = if out_path != "/dev/null" {
        if let Some(p) = std::path::Path::new(&out_path).parent() {
            std::fs::create_dir_all(p)?;
        }
        std::fs::File::create(&partial_path).ok()
    } else {
        None
    };
    let mut out = Out { events: vec![], runs: 0, partial };
    out.line(&json!({"ev": "ShSetup", "mode": mode}).to_string());
    let rt = tokio::runtime::Builder::new_multi_thread().worker_threads(2).enable_all().build()?;
    match mode.as_str() {
        "search" => run_search(&ctl, &mut rng, &mut out, a.has("thorough")),
        "lookup" => run_lookup(&ctl, &mut rng, &mut ids, &mut out, n),
        "dedup" => run_dedup(&mut rng, &mut ids, &mut out, n, &rt),
        "setops" => {
            run_setops(&mut rng, &mut ids, &mut out, n);
            run_consolidate(&mut rng, &mut ids, &mut out, n);
        },
        "keyed" => run_keyed(&ctl, &mut rng, &mut ids, &mut out, n, &rt),
        m => anyhow::bail!("unknown mode {m}"),
    }
    // header: the HMAC table over every full hash id seen (plain -> keyed for each key), computed independently
    let mut keymap: Vec<Value> = vec![];
    let _ = &mut keymap;
    let path = a.str("out", "/dev/null");
    if let Some(p) = std::path::Path::new(&path).parent() {
        std::fs::create_dir_all(p)?;
    }
    let mut counts: BTreeMap<String, usize> = BTreeMap::new();
    for e in &out.events {
        if let Ok(v) = serde_json::from_str::<Value>(e) {
            let mut k = v["ev"].as_str().unwrap_or("").to_string();
            if k == "ShLookup" {
                k = format!("ShLookup:{}:{}", v["kind"].as_str().unwrap_or(""), v["res"].as_str().unwrap_or("").split(' ').next().unwrap_or(""));
            }
            if k == "ShExportLookup" {
                k = format!("ShExportLookup:{}:{}", v["kind"].as_str().unwrap_or(""), v["res"].as_str().unwrap_or("").split(' ').next().unwrap_or(""));
            }
            if k == "ShDedup" {
                k = format!("ShDedup:{}:{}", v["impl"].as_str().unwrap_or(""), if v["ans"]["found"].as_bool() == Some(true) { "found" } else { "none" });
            }
            *counts.entry(k).or_default() += 1;
        }
    }
    let mut f = std::io::BufWriter::new(std::fs::File::create(&path)?);
    use std::io::Write;
    writeln!(f, "{}", json!({"ev": "ShSetup", "mode": mode}))?;
    for e in &out.events {
        writeln!(f, "{e}")?;
    }
    f.flush()?;
    let _ = std::fs::remove_file(&partial_path);
    let sample: Vec<Value> = out.events.iter().take(6).map(|e| serde_json::from_str(e).unwrap()).collect();
    Ok(json!({"driver": "shard", "mode": mode, "runs": out.runs, "events": out.events.len(), "counts": counts, "sample": sample}).to_string())
}
