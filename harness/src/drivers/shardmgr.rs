//! ShardFileManager driver (specs/ShardManager.tla, Trace_ShardManager.tla): C11 / C05 / C18 at the level of the
//! manager's two locks.
//!
//! The universe is the one of MC_ShardManager: three xorbs over four chunks (the plain hashes of chunks 1 and 2 share
//! their 64-bit prefix), four shards "from elsewhere" (ids 101..104: two HMAC keys, a repeated key, an unkeyed one).
//!
//!   mode=sched in=<schedules> out=   replays TLC-generated schedules (Gen_ShardManager): every step is one action of
//!                                    the model, realised by releasing the thread at the corresponding gate
//!   mode=seq n= seed= out=           random sequential histories
//! After every step the main thread queries every chunk; hook events SmAdd / SmFlushWrite / SmRegister carry the
//! state changes at their linearization points.
use std::collections::HashMap;
use std::path::{Path, PathBuf};
use std::sync::{Arc, Mutex};
use std::time::Duration;

use mdb_shard::cas_structs::{CASChunkSequenceEntry, CASChunkSequenceHeader, MDBCASInfo};
use mdb_shard::file_structs::{FileDataSequenceEntry, FileDataSequenceHeader, MDBFileInfo};
use mdb_shard::shard_in_memory::MDBInMemoryShard;
use mdb_shard::{MDBShardFile, ShardFileManager};
use merklehash::MerkleHash;
use rand::Rng;
use serde_json::{json, Value};

use crate::ctl::{hemit, set_thread_actor, Ctl};
use crate::util::{Args, TraceOut};

struct Universe {
    chunk: HashMap<i64, MerkleHash>, // chunk id -> plain hash
    xorb: HashMap<i64, MerkleHash>,  // xorb id -> xorb hash
    xc: HashMap<i64, Vec<i64>>,      // xorb id -> chunk ids
    keys: HashMap<i64, MerkleHash>,  // key id -> HMAC key (0 = the zero key)
}

impl Universe {
    fn new(seed: u64) -> Self {
        let mut rng = crate::util::rng(seed);
        // P0 of MC_ShardManager: chunks 1 and 2 share the prefix
        let p0: HashMap<i64, u64> = HashMap::from([(1, 11), (2, 11), (3, 22), (4, 33)]);
        let chunk = (1..=4i64).map(|c| (c, MerkleHash::from([p0[&c], rng.gen(), rng.gen(), c as u64]))).collect();
        let xorb = (1..=3i64).map(|x| (x, MerkleHash::from([rng.gen(), rng.gen(), 77, x as u64]))).collect();
        let xc = HashMap::from([(1, vec![1, 3]), (2, vec![2]), (3, vec![4, 1])]);
        let keys = HashMap::from([(0, MerkleHash::default()), (1, MerkleHash::from([rng.gen(), 1, 1, 1])), (2, MerkleHash::from([rng.gen(), 2, 2, 2]))]);
        Self { chunk, xorb, xc, keys }
    }
    fn cas_info(&self, x: i64) -> MDBCASInfo {
        let mut pos = 0u32;
        let mut chunks = vec![];
        for c in &self.xc[&x] {
            let len = 10 + *c as u32;
            chunks.push(CASChunkSequenceEntry::new(self.chunk[c], len, pos));
            pos += len;
        }
        MDBCASInfo { metadata: CASChunkSequenceHeader::new(self.xorb[&x], chunks.len(), pos), chunks }
    }
    fn xorb_id(&self, h: &MerkleHash) -> i64 {
        self.xorb.iter().find(|(_, v)| *v == h).map(|(k, _)| *k).unwrap_or(-1)
    }
    fn key_id(&self, h: &MerkleHash) -> i64 {
        self.keys.iter().find(|(_, v)| *v == h).map(|(k, _)| *k).unwrap_or(-1)
    }
}

/// the four foreign shards of MC_Ext, written into the manager's directory (a manager only takes shards from there)
fn make_ext(u: &Universe, dir: &Path) -> HashMap<i64, Arc<MDBShardFile>> {
    let spec: [(i64, i64, Vec<i64>); 4] = [(101, 1, vec![2]), (102, 2, vec![1]), (103, 1, vec![3]), (104, 0, vec![1])];
    let mut out = HashMap::new();
    for (id, key, xs) in spec {
        let mut m = MDBInMemoryShard::default();
        for x in &xs {
            m.add_cas_block(u.cas_info(*x)).unwrap();
        }
        // a file record makes the bytes (and so the name) of this shard differ from a flushed shard with the same xorbs
        let fh = MerkleHash::from([id as u64, 5, 5, 5]);
        m.add_file_reconstruction_info(MDBFileInfo {
            metadata: FileDataSequenceHeader::new(fh, 1, false, false),
            segments: vec![FileDataSequenceEntry::new(u.xorb[&xs[0]], 10, 0, 1)],
            verification: vec![],
            metadata_ext: None,
        })
        .unwrap();
        let sf = if key == 0 {
            let p = m.write_to_directory(dir).unwrap();
            MDBShardFile::load_from_file(&p).unwrap()
        } else {
            let src = tempfile::tempdir().unwrap();
            let p = m.write_to_directory(src.path()).unwrap();
            let sf = MDBShardFile::load_from_file(&p).unwrap();
            sf.export_as_keyed_shard(dir, u.keys[&key], Duration::from_secs(100_000), true, true, true).unwrap()
        };
        out.insert(id, sf);
    }
    out
}

struct Ids {
    shard: HashMap<String, i64>, // shard hash (hex) -> id: 101.. for the foreign ones, 1, 2, .. for flushed ones in event order
    next: i64,
}

/// hook events carry hashes as hex: rewrite to the ids of the model
fn normalise(u: &Universe, ids: &mut Ids, events: Vec<String>) -> Vec<String> {
    let mut out = vec![];
    for e in events {
        let Ok(mut v) = serde_json::from_str::<Value>(&e) else { continue };
        match v["ev"].as_str().unwrap_or("") {
            "SmAdd" => {
                let h = MerkleHash::from_hex(v["x"].as_str().unwrap_or("")).unwrap_or_default();
                v["x"] = json!(u.xorb_id(&h));
            },
            "SmFlushWrite" => {
                let sh = v["shard"].as_str().unwrap_or("").to_string();
                let id = *ids.shard.entry(sh).or_insert_with(|| {
                    let i = ids.next;
                    ids.next += 1;
                    i
                });
                v["shard"] = json!(id);
                let xs: Vec<i64> = v["xorbs"].as_array().cloned().unwrap_or_default().iter().map(|x| u.xorb_id(&MerkleHash::from_hex(x.as_str().unwrap_or("")).unwrap_or_default())).collect();
                v["xorbs"] = json!(xs);
            },
            "SmRegister" => {
                let sh = v["shard"].as_str().unwrap_or("").to_string();
                v["shard"] = json!(ids.shard.get(&sh).copied().unwrap_or(-1));
                let k = MerkleHash::from_hex(v["key"].as_str().unwrap_or("")).unwrap_or_default();
                v["key"] = json!(u.key_id(&k));
            },
            _ => {},
        }
        out.push(v.to_string());
    }
    out
}

fn query_all(u: &Universe, rt: &tokio::runtime::Runtime, mgr: &Arc<ShardFileManager>) {
    for c in 1..=4i64 {
        let q = [u.chunk[&c]];
        match rt.block_on(mgr.chunk_hash_dedup_query(&q)) {
            Ok(Some((n, fse))) => hemit("SmQuery", format!("\"c\":{c},\"found\":true,\"n\":{n},\"x\":{},\"off\":{}", u.xorb_id(&fse.cas_hash), fse.chunk_index_start)),
            Ok(None) => hemit("SmQuery", format!("\"c\":{c},\"found\":false,\"n\":0,\"x\":0,\"off\":0")),
            Err(e) => hemit("SmError", format!("\"what\":{}", json!(format!("{e:?}")))),
        }
    }
}

#[derive(Clone)]
enum Op {
    Add(i64),
    Flush,
}

struct Worker {
    name: String,
    queue: Arc<Mutex<Vec<Op>>>,
    handle: Option<std::thread::JoinHandle<()>>,
}

fn spawn_worker(ctl: &Arc<Ctl>, u: &Arc<Universe>, mgr: &Arc<ShardFileManager>, name: &str) -> Worker {
    let queue: Arc<Mutex<Vec<Op>>> = Arc::new(Mutex::new(vec![]));
    let (q, u2, mgr2, ctl2, n2) = (queue.clone(), u.clone(), mgr.clone(), ctl.clone(), name.to_string());
    let handle = std::thread::spawn(move || {
        set_thread_actor(&n2);
        let rt = tokio::runtime::Builder::new_current_thread().enable_all().build().unwrap();
        loop {
            utils::verif::gate("op_start", "");
            let op = {
                let mut g = q.lock().unwrap();
                if g.is_empty() {
                    None
                } else {
                    Some(g.remove(0))
                }
            };
            let r = match op {
                Some(Op::Add(x)) => std::panic::catch_unwind(std::panic::AssertUnwindSafe(|| rt.block_on(mgr2.add_cas_block(u2.cas_info(x))).map_err(|e| format!("{e:?}")))),
                Some(Op::Flush) => std::panic::catch_unwind(std::panic::AssertUnwindSafe(|| rt.block_on(mgr2.flush()).map(|_| ()).map_err(|e| format!("{e:?}")))),
                None => break,
            };
            match r {
                Ok(Ok(())) => {},
                Ok(Err(e)) => hemit("SmError", format!("\"what\":{}", json!(e))),
                Err(_) => hemit("SmPanic", "\"what\":\"panic in add / flush\"".to_string()),
            }
        }
        ctl2.mark_finished(&n2);
    });
    Worker { name: name.to_string(), queue, handle: Some(handle) }
}

fn new_manager(rt: &tokio::runtime::Runtime, dir: &Path) -> Arc<ShardFileManager> {
    rt.block_on(ShardFileManager::new_in_session_directory(dir)).unwrap()
}

/// one TLC-generated schedule; returns (events, steps that could not be realised)
fn run_schedule(ctl: &Arc<Ctl>, u: &Arc<Universe>, steps: &[Value]) -> (Vec<String>, usize) {
    let base = tempfile::tempdir().unwrap();
    let dir: PathBuf = base.path().join("shards");
    std::fs::create_dir_all(&dir).unwrap();
    let rt = tokio::runtime::Builder::new_current_thread().enable_all().build().unwrap();
    ctl.reset_sched();
    let _ = ctl.take_events();
    set_thread_actor("main");
    // (the manager scans its directory when it is created: the foreign shards are put there afterwards)
    let mgr = new_manager(&rt, &dir);
    let ext = make_ext(u, &dir);
    let mut ids = Ids { shard: ext.iter().map(|(id, sf)| (sf.shard_hash.hex(), *id)).collect(), next: 1 };
    ctl.set_controlled(true);
    let mut workers: Vec<Worker> = ["t1", "t2"].iter().map(|n| spawn_worker(ctl, u, &mgr, n)).collect();
    for w in &workers {
        ctl.wait_parked(&w.name);
    }
    let mut skipped = 0;
    for st in steps {
        let t = st["t"].as_str().unwrap_or("");
        let op = st["op"].as_str().unwrap_or("");
        if op == "reg" {
            let shards: Vec<Arc<MDBShardFile>> = st["ids"].as_array().cloned().unwrap_or_default().iter().filter_map(|i| ext.get(&i.as_i64().unwrap_or(0)).cloned()).collect();
            if let Err(e) = rt.block_on(mgr.register_shards(&shards)) {
                hemit("SmError", format!("\"what\":{}", json!(format!("{e:?}"))));
            }
        } else {
            let Some(w) = workers.iter().find(|w| w.name == t) else { continue };
            let (parked, finished) = ctl.actor_state(&w.name);
            let at = parked.unwrap_or_default();
            let ok = match (op, at.as_str()) {
                _ if finished => false,
                ("add", "op_start") => {
                    w.queue.lock().unwrap().push(Op::Add(st["x"].as_i64().unwrap_or(0)));
                    ctl.step(&w.name) == "sm_add" && ctl.step(&w.name) == "op_start"
                },
                ("fwrite", "op_start") => {
                    w.queue.lock().unwrap().push(Op::Flush);
                    ctl.step(&w.name) == "sm_flush_write" && ctl.step(&w.name) == "sm_flush_register"
                },
                ("freg", "sm_flush_register") => ctl.step(&w.name) == "op_start",
                _ => false,
            };
            if !ok {
                skipped += 1;
            }
        }
        query_all(u, &rt, &mgr);
    }
    // drain whatever is half done, then stop the workers
    for w in &workers {
        for _ in 0..4 {
            let (parked, finished) = ctl.actor_state(&w.name);
            if finished || parked.as_deref() == Some("op_start") {
                break;
            }
            ctl.step(&w.name);
        }
    }
    ctl.set_controlled(false);
    for w in workers.iter_mut() {
        if let Some(h) = w.handle.take() {
            let _ = h.join();
        }
    }
    set_thread_actor("main");
    query_all(u, &rt, &mgr);
    (normalise(u, &mut ids, ctl.take_events()), skipped)
}

/// random sequential history on one thread (adds, flushes, registrations of one or several foreign shards)
fn run_seq(ctl: &Arc<Ctl>, u: &Arc<Universe>, rng: &mut impl Rng) -> Vec<String> {
    let base = tempfile::tempdir().unwrap();
    let dir: PathBuf = base.path().join("shards");
    std::fs::create_dir_all(&dir).unwrap();
    let rt = tokio::runtime::Builder::new_current_thread().enable_all().build().unwrap();
    ctl.reset_sched();
    ctl.set_controlled(false);
    let _ = ctl.take_events();
    set_thread_actor("t1");
    let mgr = new_manager(&rt, &dir);
    let ext = make_ext(u, &dir);
    let mut ids = Ids { shard: ext.iter().map(|(id, sf)| (sf.shard_hash.hex(), *id)).collect(), next: 1 };
    let mut to_add: Vec<i64> = vec![1, 2, 3];
    let mut to_reg: Vec<i64> = vec![101, 102, 103, 104];
    for _ in 0..rng.gen_range(4..12) {
        match rng.gen_range(0..3) {
            0 if !to_add.is_empty() => {
                let x = to_add.remove(rng.gen_range(0..to_add.len()));
                let _ = rt.block_on(mgr.add_cas_block(u.cas_info(x)));
            },
            1 => {
                let _ = rt.block_on(mgr.flush());
            },
            _ if !to_reg.is_empty() => {
                let k = rng.gen_range(1..=to_reg.len());
                let mut batch = vec![];
                for _ in 0..k {
                    batch.push(to_reg.remove(rng.gen_range(0..to_reg.len())));
                }
                let shards: Vec<Arc<MDBShardFile>> = batch.iter().map(|i| ext[i].clone()).collect();
                if rng.gen_bool(0.5) {
                    let _ = rt.block_on(mgr.register_shards(&shards));
                } else {
                    let paths: Vec<PathBuf> = shards.iter().map(|s| s.path.clone()).collect();
                    let _ = rt.block_on(mgr.register_shards_by_path(&paths));
                }
            },
            _ => {},
        }
        query_all(u, &rt, &mgr);
    }
    let _ = rt.block_on(mgr.flush());
    query_all(u, &rt, &mgr);
    normalise(u, &mut ids, ctl.take_events())
}

pub fn run(a: &Args) -> anyhow::Result<String> {
    crate::util::silence_panics();
    let ctl = Ctl::new();
    ctl.record_sm.store(true, std::sync::atomic::Ordering::SeqCst);
    ctl.install();
    let mode = a.str("mode", "seq");
    let seed = a.u64("seed", 1);
    let u = Arc::new(Universe::new(seed));
    let mut out = TraceOut::create(&a.str("out", "/dev/null"))?;
    out.run(&[json!({"ev": "SmSetup", "mode": mode}).to_string()])?;
    let mut counts: HashMap<String, usize> = HashMap::new();
    let mut skipped = 0usize;
    let mut sample: Vec<String> = vec![];
    let mut note = |ev: &Vec<String>, counts: &mut HashMap<String, usize>| {
        for e in ev {
            if let Ok(v) = serde_json::from_str::<Value>(e) {
                let mut k = v["ev"].as_str().unwrap_or("").to_string();
                if k == "SmQuery" {
                    k = format!("SmQuery:{}", if v["found"].as_bool() == Some(true) { "found" } else { "none" });
                }
                *counts.entry(k).or_default() += 1;
            }
        }
    };
    match mode.as_str() {
        "sched" => {
            let text = std::fs::read_to_string(a.str("in", ""))?;
            for l in text.lines().filter(|l| !l.trim().is_empty()) {
                let v: Value = serde_json::from_str(l)?;
                let steps = v["steps"].as_array().cloned().unwrap_or_default();
                let (ev, sk) = run_schedule(&ctl, &u, &steps);
                skipped += sk;
                note(&ev, &mut counts);
                if sample.is_empty() {
                    sample = ev.iter().take(8).cloned().collect();
                }
                out.run(&ev)?;
            }
        },
        "seq" => {
            let mut rng = crate::util::rng(seed);
            for _ in 0..a.u64("n", 20) {
                let ev = run_seq(&ctl, &u, &mut rng);
                note(&ev, &mut counts);
                if sample.is_empty() {
                    sample = ev.iter().take(8).cloned().collect();
                }
                out.run(&ev)?;
            }
        },
        m => anyhow::bail!("unknown mode {m}"),
    }
    let (runs, events) = out.finish()?;
    Ok(json!({"driver": "shardmgr", "mode": mode, "runs": runs, "events": events, "counts": counts, "skipped_steps": skipped,
              "sample": sample.iter().map(|s| serde_json::from_str::<Value>(s).unwrap()).collect::<Vec<_>>()})
    .to_string())
}
