//! Driver for utils::singleflight::Group (property C20).
//!
//! modes:
//!   mode=sched  in=<scenarios.ndjson>   replay schedules produced by TLC (Gen_Singleflight) under gate control
//!   mode=random n=<N> seed=<S>          random schedules under gate control
//!   mode=storm  n=<N> seed=<S>          free-running callers on a multi-thread runtime
//! Each scenario is executed on a fresh Group and runtime (rt=current|multi).
use std::collections::HashMap;
use std::sync::{Arc, Condvar, Mutex};
use std::time::{Duration, Instant};

use rand::Rng;
use serde_json::{json, Value};
use utils::errors::SingleflightError;
use utils::singleflight::Group;

use crate::ctl::{hemit, Ctl, TASK_ACTOR};
use crate::util::{Args, TraceOut};

/// schedule steps that could not be realised (the actor was not parked where the scenario expected it)
static SKIPPED: std::sync::atomic::AtomicUsize = std::sync::atomic::AtomicUsize::new(0);

#[derive(Default)]
struct IdleInner {
    parked: usize,
    unparks: u64,
}
struct Idle {
    inner: Mutex<IdleInner>,
    cv: Condvar,
    workers: usize,
}
impl Idle {
    fn wait_idle(&self, min_unparks: u64, timeout: Duration) -> bool {
        let deadline = Instant::now() + timeout;
        let mut g = self.inner.lock().unwrap();
        loop {
            if g.parked >= self.workers && g.unparks >= min_unparks {
                return true;
            }
            let now = Instant::now();
            if now >= deadline {
                return false;
            }
            g = self.cv.wait_timeout(g, deadline - now).unwrap().0;
        }
    }
    fn unparks(&self) -> u64 {
        self.inner.lock().unwrap().unparks
    }
}

struct World {
    ctl: Arc<Ctl>,
    multi: bool,
    rt: Option<tokio::runtime::Runtime>,
    handle: tokio::runtime::Handle,
    idle: Arc<Idle>,
    group: Arc<Group<i64, i64>>,
    outcomes: Arc<Mutex<HashMap<String, String>>>,
    stop: Option<tokio::sync::oneshot::Sender<()>>,
    driver: Option<std::thread::JoinHandle<()>>,
}

fn build_runtime(multi: bool) -> (tokio::runtime::Runtime, Arc<Idle>) {
    let workers = if multi { 2 } else { 1 };
    let idle = Arc::new(Idle {
        inner: Mutex::new(IdleInner::default()),
        cv: Condvar::new(),
        workers,
    });
    let (i1, i2) = (idle.clone(), idle.clone());
    let mut b = if multi {
        let mut b = tokio::runtime::Builder::new_multi_thread();
        b.worker_threads(workers);
        b
    } else {
        tokio::runtime::Builder::new_current_thread()
    };
    b.enable_all()
        .on_thread_park(move || {
            let mut g = i1.inner.lock().unwrap();
            g.parked += 1;
            i1.cv.notify_all();
        })
        .on_thread_unpark(move || {
            let mut g = i2.inner.lock().unwrap();
            g.parked = g.parked.saturating_sub(1);
            g.unparks += 1;
            i2.cv.notify_all();
        });
    (b.build().unwrap(), idle)
}

impl World {
    fn new(ctl: &Arc<Ctl>, multi: bool) -> Self {
        let (rt, idle) = build_runtime(multi);
        let (tx, rx) = tokio::sync::oneshot::channel::<()>();
        let mut driver = None;
        if !multi {
            // a current-thread runtime only runs tasks while some thread is inside Runtime::block_on
            let h = rt.handle().clone();
            driver = Some(std::thread::spawn(move || {
                rt.block_on(async move {
                    let _ = rx.await;
                });
                rt.shutdown_background();
            }));
            Self {
                ctl: ctl.clone(),
                multi,
                handle: h,
                rt: None,
                idle,
                group: Arc::new(Group::new()),
                outcomes: Default::default(),
                stop: Some(tx),
                driver,
            }
        } else {
            drop(rx);
            Self {
                ctl: ctl.clone(),
                multi,
                handle: rt.handle().clone(),
                rt: Some(rt),
                idle,
                group: Arc::new(Group::new()),
                outcomes: Default::default(),
                stop: None,
                driver,
            }
        }
    }

    fn call(&self, c: &str, k: &str, v: i64, storm_delay_us: Option<u64>) {
        let task_actor = format!("T:{c}");
        self.ctl.reset_actor(c);
        self.ctl.reset_actor(&task_actor);
        let (ctl, group, outcomes) = (self.ctl.clone(), self.group.clone(), self.outcomes.clone());
        let (c, k) = (c.to_string(), k.to_string());
        let ctl2 = ctl.clone();
        let name = c.clone();
        let c0 = c.clone();
        let fut = async move {
            let supplier = c.clone();
            let ta = task_actor.clone();
            let outs = outcomes.clone();
            let task = TASK_ACTOR.scope(task_actor.clone(), async move {
                utils::verif::agate("task_run", "").await;
                hemit("SfTaskRun", format!("\"supplier\":\"{supplier}\",\"val\":{v}"));
                if let Some(us) = storm_delay_us {
                    if us == 0 {
                        tokio::task::yield_now().await;
                    } else {
                        tokio::time::sleep(Duration::from_micros(us)).await;
                    }
                }
                utils::verif::agate("task_end", "").await;
                let o = outs.lock().unwrap().get(&ta).cloned().unwrap_or_else(|| "ok".to_string());
                match o.as_str() {
                    "ok" => Ok(v),
                    "err" => Err(v),
                    _ => panic!("task panics on request"),
                }
            });
            let (res, owner) = group.work(&k, task).await;
            let (class, val) = match &res {
                Ok(v) => ("ok".to_string(), *v),
                Err(SingleflightError::InternalError(e)) => ("err".to_string(), *e),
                Err(SingleflightError::WaiterInternalError(s)) => match s.parse::<i64>() {
                    Ok(e) => ("err".to_string(), e),
                    Err(_) => (format!("unparsable:{s}"), 0),
                },
                Err(SingleflightError::JoinError(_)) => ("panic".to_string(), 0),
                Err(SingleflightError::OwnerPanicked) => ("panic".to_string(), 0),
                Err(e) => (format!("bug:{e:?}").replace('"', "'"), 0),
            };
            hemit("SfReturn", format!("\"class\":\"{class}\",\"val\":{val},\"owner\":{owner}"));
        };
        self.handle.spawn(TASK_ACTOR.scope(name.clone(), async move {
            fut.await;
            ctl2.mark_finished(&name);
        }));
        if storm_delay_us.is_none() {
            self.ctl.wait_parked(&c0);
        }
    }

    /// Lets `actor` pass its gate and waits for the runtime to become idle again.
    fn step(&self, actor: &str) {
        self.settle();
        self.ctl.release(actor);
        self.ctl.wait_consumed(actor, Duration::from_secs(5));
        self.settle();
    }

    /// Waits until nothing moves any more.  On the current-thread runtime that is "the runtime thread is parked";
    /// on the multi-thread runtime the park callbacks are not a reliable idle signal, so we poll for inactivity.
    fn settle(&self) {
        if !self.multi {
            self.idle.wait_idle(0, Duration::from_secs(5));
            return;
        }
        let mut last = self.ctl.activity();
        let mut stable = 0;
        let deadline = Instant::now() + Duration::from_secs(5);
        while stable < 4 && Instant::now() < deadline {
            std::thread::sleep(Duration::from_micros(150));
            let now = self.ctl.activity();
            if now == last && !self.ctl.any_runnable() {
                stable += 1;
            } else {
                stable = 0;
                last = now;
            }
        }
    }

    fn shutdown(mut self) {
        if let Some(tx) = self.stop.take() {
            let _ = tx.send(());
        }
        if let Some(d) = self.driver.take() {
            let _ = d.join();
        }
        if let Some(rt) = self.rt.take() {
            rt.shutdown_background();
        }
    }
}

/// Rewrites the `call` field (a pointer) to flight numbers 1.. in creation order.
fn normalise(events: Vec<String>) -> Vec<String> {
    let mut ids: HashMap<u64, u64> = HashMap::new();
    let mut next = 0u64;
    let mut out = Vec::new();
    for e in events {
        let mut v: Value = serde_json::from_str(&e).expect("event is json");
        if let Some(p) = v.get("call").and_then(|p| p.as_u64()) {
            if v.get("created").and_then(|c| c.as_bool()) == Some(true) {
                next += 1;
                ids.insert(p, next);
            }
            let id = ids.get(&p).copied().unwrap_or(0);
            v["call"] = json!(id);
        }
        out.push(v.to_string());
    }
    out
}

fn run_scenario(ctl: &Arc<Ctl>, multi: bool, ops: &[Value]) -> Vec<String> {
    ctl.reset_sched();
    ctl.set_controlled(true);
    let _ = ctl.take_events();
    let w = World::new(ctl, multi);
    let mut actors: Vec<String> = Vec::new();
    let mut skipped = 0usize;
    for op in ops {
        let kind = op["op"].as_str().unwrap_or("");
        match kind {
            "call" => {
                let c = op["c"].as_str().unwrap();
                // the model only lets a caller call again after its previous call returned; on the multi-thread
                // runtime a woken caller may not have been scheduled yet, so wait for it (a real hang is reported by
                // finish_all as a timeout event)
                if ctl.known(c) {
                    let t0 = Instant::now();
                    while !ctl.actor_state(c).1 && t0.elapsed() < Duration::from_secs(3) {
                        std::thread::sleep(Duration::from_micros(200));
                    }
                    if !ctl.actor_state(c).1 {
                        SKIPPED.fetch_add(1, std::sync::atomic::Ordering::SeqCst);
                        continue;
                    }
                }
                w.call(c, op["k"].as_str().unwrap(), op["v"].as_i64().unwrap_or(1), None);
                if !actors.contains(&c.to_string()) {
                    actors.push(c.to_string());
                    actors.push(format!("T:{c}"));
                }
                w.settle();
            },
            "step" | "end" => {
                let mut a = op["a"].as_str().unwrap().to_string();
                if op.get("task").and_then(|t| t.as_bool()) == Some(true) {
                    a = format!("T:{a}");
                }
                if kind == "end" {
                    w.outcomes.lock().unwrap().insert(a.clone(), op["o"].as_str().unwrap().to_string());
                }
                let (parked, finished) = ctl.actor_state(&a);
                if parked.is_some() && !finished {
                    w.step(&a);
                } else {
                    skipped += 1;
                }
            },
            _ => {},
        }
    }
    // let everything that is still parked run to completion (callers in generation order)
    finish_all(ctl, &w, &actors);
    SKIPPED.fetch_add(skipped, std::sync::atomic::Ordering::SeqCst);
    let ev = normalise(ctl.take_events());
    ctl.set_controlled(false);
    w.shutdown();
    ev
}

fn finish_all(ctl: &Arc<Ctl>, w: &World, actors: &[String]) {
    // release everything that parks until every started caller has finished; a hang is declared only after
    // `HANG_SECS` of complete inactivity with nothing left to release
    const HANG_SECS: u64 = 2;
    let mut last = ctl.activity();
    let mut last_change = Instant::now();
    loop {
        w.settle();
        let mut progressed = false;
        let mut all_done = true;
        for a in actors {
            let (parked, finished) = ctl.actor_state(a);
            if !finished && parked.is_some() {
                w.step(a);
                progressed = true;
            }
            if !a.starts_with("T:") && ctl.known(a) && !ctl.actor_state(a).1 {
                all_done = false;
            }
        }
        if all_done {
            break;
        }
        let now = ctl.activity();
        if progressed || now != last {
            last = now;
            last_change = Instant::now();
        } else if last_change.elapsed() > Duration::from_secs(HANG_SECS) {
            break;
        } else {
            std::thread::sleep(Duration::from_millis(1));
        }
    }
    for a in actors {
        if a.starts_with("T:") {
            continue;
        }
        let (_, finished) = ctl.actor_state(a);
        if !finished && ctl.known(a) {
            hemit("SfTimeout", format!("\"who\":\"{a}\""));
        }
    }
}

fn run_random(ctl: &Arc<Ctl>, multi: bool, rng: &mut impl Rng, ncallers: usize, nkeys: usize, budget: usize) -> Vec<String> {
    ctl.reset_sched();
    ctl.set_controlled(true);
    let _ = ctl.take_events();
    let w = World::new(ctl, multi);
    let callers: Vec<String> = (1..=ncallers).map(|i| format!("c{i}")).collect();
    let mut actors: Vec<String> = Vec::new();
    for c in &callers {
        actors.push(c.clone());
        actors.push(format!("T:{c}"));
    }
    let mut started: HashMap<String, bool> = HashMap::new();
    let mut calls_left = budget;
    let mut val = 0i64;
    let mut steps = 0;
    loop {
        w.settle();
        // candidates
        let mut cands: Vec<(u8, String)> = Vec::new();
        for a in &actors {
            let (parked, finished) = ctl.actor_state(a);
            if a.starts_with("T:") {
                if parked.is_some() {
                    cands.push((1, a.clone()));
                }
                continue;
            }
            let st = started.get(a).copied().unwrap_or(false);
            if (!st || finished) && calls_left > 0 {
                cands.push((0, a.clone()));
            } else if st && !finished && parked.is_some() {
                cands.push((1, a.clone()));
            }
        }
        if std::env::var("XV_DEBUG").is_ok() {
            eprintln!("step {steps} cands {cands:?}");
        }
        if cands.is_empty() || steps > 500 {
            break;
        }
        let (kind, a) = cands[rng.gen_range(0..cands.len())].clone();
        if kind == 0 {
            val += 1;
            calls_left -= 1;
            let k = format!("k{}", rng.gen_range(1..=nkeys));
            started.insert(a.clone(), true);
            w.call(&a, &k, val, None);
        } else {
            if a.starts_with("T:") {
                let o = ["ok", "err", "panic"][rng.gen_range(0..3)];
                w.outcomes.lock().unwrap().insert(a.clone(), o.to_string());
            }
            w.step(&a);
        }
        steps += 1;
    }
    finish_all(ctl, &w, &actors);
    let ev = normalise(ctl.take_events());
    ctl.set_controlled(false);
    w.shutdown();
    ev
}

fn run_storm(ctl: &Arc<Ctl>, rng: &mut impl Rng, ncallers: usize, nkeys: usize, rounds: usize) -> Vec<String> {
    ctl.reset_sched();
    ctl.set_controlled(false);
    let _ = ctl.take_events();
    let rt = tokio::runtime::Builder::new_multi_thread().worker_threads(4).enable_all().build().unwrap();
    let group: Arc<Group<i64, i64>> = Arc::new(Group::new());
    let mut handles = Vec::new();
    let mut val = 0i64;
    for i in 1..=ncallers {
        let name = format!("c{i}");
        let mut plan = Vec::new();
        for _ in 0..rounds {
            val += 1;
            let k = format!("k{}", rng.gen_range(1..=nkeys));
            let o = ["ok", "ok", "err", "panic"][rng.gen_range(0..4)];
            let delay = [0u64, 0, 50, 500][rng.gen_range(0..4)];
            let pre = [0u64, 0, 20, 200][rng.gen_range(0..4)];
            plan.push((k, o.to_string(), val, delay, pre));
        }
        let group = group.clone();
        let n2 = name.clone();
        handles.push(rt.spawn(TASK_ACTOR.scope(name, async move {
            for (k, o, v, delay, pre) in plan {
                if pre > 0 {
                    tokio::time::sleep(Duration::from_micros(pre)).await;
                }
                let supplier = n2.clone();
                let task = async move {
                    hemit("SfTaskRun", format!("\"supplier\":\"{supplier}\",\"val\":{v}"));
                    if delay == 0 {
                        tokio::task::yield_now().await;
                    } else {
                        tokio::time::sleep(Duration::from_micros(delay)).await;
                    }
                    match o.as_str() {
                        "ok" => Ok(v),
                        "err" => Err(v),
                        _ => panic!("task panics on request"),
                    }
                };
                let (res, owner) = group.work(&k, task).await;
                let (class, val) = match &res {
                    Ok(v) => ("ok".to_string(), *v),
                    Err(SingleflightError::InternalError(e)) => ("err".to_string(), *e),
                    Err(SingleflightError::WaiterInternalError(s)) => match s.parse::<i64>() {
                        Ok(e) => ("err".to_string(), e),
                        Err(_) => (format!("unparsable:{s}"), 0),
                    },
                    Err(SingleflightError::JoinError(_)) => ("panic".to_string(), 0),
                    Err(SingleflightError::OwnerPanicked) => ("panic".to_string(), 0),
                    Err(e) => (format!("bug:{e:?}").replace('"', "'"), 0),
                };
                hemit("SfReturn", format!("\"class\":\"{class}\",\"val\":{val},\"owner\":{owner}"));
            }
        })));
    }
    let names: Vec<String> = (1..=ncallers).map(|i| format!("c{i}")).collect();
    rt.block_on(async {
        for (i, h) in handles.into_iter().enumerate() {
            match tokio::time::timeout(Duration::from_secs(20), h).await {
                Ok(_) => {},
                Err(_) => hemit("SfTimeout", format!("\"who\":\"{}\"", names[i])),
            }
        }
    });
    let ev = normalise(ctl.take_events());
    rt.shutdown_background();
    ev
}

pub fn run(a: &Args) -> anyhow::Result<String> {
    crate::util::silence_panics();
    let ctl = Ctl::new();
    ctl.install();
    let mode = a.str("mode", "random");
    let mut out = TraceOut::create(&a.str("out", "/dev/null"))?;
    let seed = a.u64("seed", 0);
    let mut rng = crate::util::rng(seed);
    let mut timeouts = 0usize;
    let stop = std::cell::Cell::new(false); // a few hangs are enough: every further one costs seconds
    let mut sample: Vec<String> = Vec::new();
    let mut per_run = |ev: Vec<String>, out: &mut TraceOut| -> anyhow::Result<()> {
        timeouts += ev.iter().filter(|e| e.contains("\"SfTimeout\"")).count();
        if timeouts >= 4 {
            stop.set(true);
        }
        if sample.is_empty() {
            sample = ev.iter().take(12).cloned().collect();
        }
        out.run(&ev)
    };
    match mode.as_str() {
        "sched" => {
            let text = std::fs::read_to_string(a.str("in", ""))?;
            for (i, line) in text.lines().enumerate() {
                if line.trim().is_empty() {
                    continue;
                }
                let scn: Value = serde_json::from_str(line)?;
                let ops = scn["steps"].as_array().cloned().unwrap_or_default();
                let multi = match a.str("rt", "both").as_str() {
                    "current" => false,
                    "multi" => true,
                    _ => i % 2 == 1,
                };
                let ev = run_scenario(&ctl, multi, &ops);
                per_run(ev, &mut out)?;
                if stop.get() {
                    break;
                }
            }
        },
        "random" => {
            let n = a.u64("n", 50);
            for i in 0..n {
                let multi = i % 2 == 1;
                let nc = 2 + (i as usize % 3);
                let ev = run_random(&ctl, multi, &mut rng, nc, 2, 3 + (i as usize % 4));
                per_run(ev, &mut out)?;
                if stop.get() {
                    break;
                }
            }
        },
        "storm" => {
            let n = a.u64("n", 3);
            for _ in 0..n {
                let ev = run_storm(&ctl, &mut rng, a.u64("callers", 32) as usize, a.u64("keys", 4) as usize, a.u64("rounds", 6) as usize);
                per_run(ev, &mut out)?;
            }
        },
        "crowd" => {
            // one flight with more callers than any counter inside the group may assume (65536 and more): one task run,
            // everybody gets its value.  Only the totals are recorded (350 000 hook events would say nothing more).
            // (the counts around 2^16 exactly: a 16-bit counter of callers reads 0 there)
            for r in 0..a.u64("n", 3) {
                let n = a.u64("callers", 65535) as usize + r as usize;
                ctl.reset_sched();
                ctl.set_controlled(false);
                let rt = tokio::runtime::Builder::new_multi_thread().worker_threads(4).enable_all().build().unwrap();
                let group: Arc<Group<i64, i64>> = Arc::new(Group::new());
                let runs_ctr = Arc::new(std::sync::atomic::AtomicUsize::new(0));
                let mut hs = Vec::with_capacity(n);
                for _ in 0..n {
                    let g = group.clone();
                    let rc = runs_ctr.clone();
                    hs.push(rt.spawn(async move {
                        let task = async move {
                            rc.fetch_add(1, std::sync::atomic::Ordering::SeqCst);
                            tokio::time::sleep(Duration::from_millis(1500)).await;
                            Ok::<i64, i64>(42)
                        };
                        g.work("crowd", task).await.0.ok()
                    }));
                }
                let (mut returned, mut hung, mut wrong) = (0usize, 0usize, 0usize);
                rt.block_on(async {
                    let deadline = tokio::time::Instant::now() + Duration::from_secs(40);
                    for h in hs {
                        match tokio::time::timeout_at(deadline, h).await {
                            Ok(Ok(Some(42))) => returned += 1,
                            Ok(_) => wrong += 1,
                            Err(_) => hung += 1,
                        }
                    }
                });
                rt.shutdown_background();
                let _ = ctl.take_events();
                let ev = vec![json!({"ev":"SfCrowd","actor":"","callers":n,"returned":returned,"hung":hung,"wrong":wrong,"task_runs":runs_ctr.load(std::sync::atomic::Ordering::SeqCst)}).to_string()];
                per_run(ev, &mut out)?;
            }
        },
        m => anyhow::bail!("unknown mode {m}"),
    }
    let (runs, events) = out.finish()?;
    Ok(json!({"driver":"singleflight","mode":mode,"sched_steps_skipped":SKIPPED.load(std::sync::atomic::Ordering::SeqCst),"runs":runs,"events":events,"timeouts":timeouts,
              "sample": sample.iter().map(|s| serde_json::from_str::<Value>(s).unwrap()).collect::<Vec<_>>()})
    .to_string())
}
