//! Xorb format driver (C07, C08).
//!
//! mode=rt      round trips through the real serializer and every reader / decoder (C07)
//! mode=scn     every mutated object of the model (Gen_Xorb scenarios) concretised by `xorbenc`, given to both
//!              validators and both footer parsers in a child process under RLIMIT_AS (C08)
//! mode=faults  byte-level fault enumeration on valid xorbs of the real serializer and of `xorbenc` (C08)
//! mode=child   the child: runs the calls of a case file, one verdict line per call
use std::collections::HashMap;
use std::io::{Cursor, Read, Write};
use std::panic::{catch_unwind, AssertUnwindSafe};
use std::pin::Pin;
use std::task::{Context, Poll};

use cas_object::error::CasObjectError;
use cas_object::{CasObject, CasObjectInfoV1, CompressionScheme};
use merklehash::MerkleHash;
use rand::rngs::StdRng;
use rand::{Rng, RngCore};
use serde_json::{json, Value};

use crate::ctl::{hemit, Ctl};
use crate::intern::Interner;
use crate::merkleref::{self, H};
use crate::util::{Args, TraceOut};
use crate::xorbenc::{self, Footer, Frame, Obj, FORM_NONE};

// ------------------------------------------------------------------------------------------------ readers
/// Hands out the data in pieces of varying size (partial reads), as a futures and a tokio reader.
pub struct PieceReader {
    data: Vec<u8>,
    pos: usize,
    sizes: Vec<usize>,
    k: usize,
}

impl PieceReader {
    pub fn new(data: &[u8], sizes: &[usize]) -> Self {
        Self { data: data.to_vec(), pos: 0, sizes: sizes.to_vec(), k: 0 }
    }
    fn take(&mut self, want: usize) -> &[u8] {
        let sz = self.sizes[self.k % self.sizes.len()].max(1);
        self.k += 1;
        let n = want.min(sz).min(self.data.len() - self.pos);
        let s = &self.data[self.pos..self.pos + n];
        self.pos += n;
        s
    }
}

impl futures::io::AsyncRead for PieceReader {
    fn poll_read(mut self: Pin<&mut Self>, _cx: &mut Context<'_>, buf: &mut [u8]) -> Poll<std::io::Result<usize>> {
        let want = buf.len();
        let s = self.take(want);
        let n = s.len();
        buf[..n].copy_from_slice(s);
        Poll::Ready(Ok(n))
    }
}

impl tokio::io::AsyncRead for PieceReader {
    fn poll_read(mut self: Pin<&mut Self>, _cx: &mut Context<'_>, buf: &mut tokio::io::ReadBuf<'_>) -> Poll<std::io::Result<()>> {
        let want = buf.remaining();
        let s = self.take(want).to_vec();
        buf.put_slice(&s);
        Poll::Ready(Ok(()))
    }
}

/// The same for the synchronous decoders: a `Read + Seek` source whose reads return fewer bytes than asked for (a pipe, a
/// network file system, a range reader).  `read` may do that; only `read_exact` promises the full count.
pub struct ShortSeekReader {
    cur: Cursor<Vec<u8>>,
    sizes: Vec<usize>,
    k: usize,
}

impl ShortSeekReader {
    pub fn new(data: &[u8], sizes: &[usize]) -> Self {
        Self { cur: Cursor::new(data.to_vec()), sizes: sizes.to_vec(), k: 0 }
    }
}

impl std::io::Read for ShortSeekReader {
    fn read(&mut self, buf: &mut [u8]) -> std::io::Result<usize> {
        let sz = self.sizes[self.k % self.sizes.len()].max(1);
        self.k += 1;
        let n = buf.len().min(sz);
        std::io::Read::read(&mut self.cur, &mut buf[..n])
    }
}

impl std::io::Seek for ShortSeekReader {
    fn seek(&mut self, pos: std::io::SeekFrom) -> std::io::Result<u64> {
        std::io::Seek::seek(&mut self.cur, pos)
    }
}

const PIECES: [&[usize]; 4] = [&[usize::MAX], &[1, 2, 3, 5, 8, 13, 21, 64, 4096], &[7], &[3, 1000, 1, 1, 70000]];

fn pieces_stream(data: &[u8], sizes: &[usize]) -> impl futures::Stream<Item = Result<bytes::Bytes, std::io::Error>> + Unpin {
    let mut v = vec![];
    let mut pos = 0;
    let mut k = 0;
    while pos < data.len() {
        let n = sizes[k % sizes.len()].max(1).min(data.len() - pos);
        k += 1;
        v.push(Ok(bytes::Bytes::copy_from_slice(&data[pos..pos + n])));
        pos += n;
    }
    futures::stream::iter(v)
}

fn mh(h: &H) -> MerkleHash {
    MerkleHash::from(h)
}

fn panic_text(p: &Box<dyn std::any::Any + Send>) -> String {
    if let Some(s) = p.downcast_ref::<&str>() {
        s.to_string()
    } else if let Some(s) = p.downcast_ref::<String>() {
        s.clone()
    } else {
        "panic".to_string()
    }
}

// ------------------------------------------------------------------------------------------------ verdicts (child side)
fn verdict<T>(r: std::thread::Result<Result<Option<T>, CasObjectError>>) -> String {
    match r {
        Ok(Ok(Some(_))) => "accept".into(),
        Ok(Ok(None)) => "reject".into(),
        Ok(Err(_)) => "error".into(),
        Err(_) => "panic".into(),
    }
}

fn parse_verdict<T>(r: std::thread::Result<Result<T, CasObjectError>>) -> String {
    match r {
        Ok(Ok(_)) => "accept".into(),
        Ok(Err(CasObjectError::FormatError(_))) => "reject".into(),
        Ok(Err(_)) => "error".into(),
        Err(_) => "panic".into(),
    }
}

fn call(data: &[u8], hashes: &[H], callno: usize, pieces: &[usize]) -> String {
    match callno {
        0 => parse_verdict(catch_unwind(|| CasObject::deserialize(&mut Cursor::new(data)))),
        1 => parse_verdict(catch_unwind(|| CasObjectInfoV1::deserialize_only_boundaries_section(&mut Cursor::new(data)))),
        c => {
            let h = mh(&hashes[(c - 2) / 2]);
            if c % 2 == 0 {
                verdict(catch_unwind(|| CasObject::validate_cas_object(&mut Cursor::new(data), &h)))
            } else {
                verdict(catch_unwind(AssertUnwindSafe(|| {
                    let mut r = PieceReader::new(data, pieces);
                    futures::executor::block_on(cas_object::validate_cas_object_from_async_read(&mut r, &h))
                })))
            }
        },
    }
}

// ------------------------------------------------------------------------------------------------ case files
pub struct Case {
    pub data: Vec<u8>,
    pub hashes: Vec<H>,
}

fn write_cases(path: &str, cases: &[Case]) -> anyhow::Result<()> {
    let mut f = std::io::BufWriter::new(std::fs::File::create(path)?);
    for c in cases {
        f.write_all(&(c.data.len() as u32).to_le_bytes())?;
        f.write_all(&c.data)?;
        f.write_all(&[c.hashes.len() as u8])?;
        for h in &c.hashes {
            f.write_all(h)?;
        }
    }
    f.flush()?;
    Ok(())
}

fn run_child(a: &Args) -> anyhow::Result<String> {
    // panics of the code under test are verdicts; their message goes to stderr in one line for the parent's notes
    std::panic::set_hook(Box::new(|info| {
        eprintln!("panicked: {}", info.to_string().replace('\n', " "));
    }));
    let lim = a.u64("lim", 512) * 1024 * 1024;
    unsafe {
        let rl = libc::rlimit { rlim_cur: lim as libc::rlim_t, rlim_max: lim as libc::rlim_t };
        if libc::setrlimit(libc::RLIMIT_AS, &rl) != 0 {
            anyhow::bail!("setrlimit failed");
        }
    }
    let from_case = a.u64("from", 0) as usize;
    let from_call = a.u64("call", 0) as usize;
    let mut inp = std::io::BufReader::new(std::fs::File::open(a.str("in", ""))?);
    let mut out = std::fs::OpenOptions::new().create(true).append(true).open(a.str("out", ""))?;
    let mut idx = 0usize;
    loop {
        let mut l4 = [0u8; 4];
        if inp.read_exact(&mut l4).is_err() {
            break;
        }
        let mut data = vec![0u8; u32::from_le_bytes(l4) as usize];
        inp.read_exact(&mut data)?;
        let mut nh = [0u8; 1];
        inp.read_exact(&mut nh)?;
        let mut hashes = vec![];
        for _ in 0..nh[0] {
            let mut h = [0u8; 32];
            inp.read_exact(&mut h)?;
            hashes.push(h);
        }
        if idx >= from_case {
            let ncalls = 2 + 2 * hashes.len();
            let first = if idx == from_case { from_call } else { 0 };
            for c in first..ncalls {
                writeln!(out, "B {idx} {c}")?;
                out.flush()?;
                let v = call(&data, &hashes, c, PIECES[idx % PIECES.len()]);
                writeln!(out, "V {idx} {c} {v}")?;
                out.flush()?;
            }
        }
        idx += 1;
    }
    writeln!(out, "DONE")?;
    Ok("{\"child\":\"done\"}".to_string())
}

/// Runs every call of every case in child processes under RLIMIT_AS; verdicts[case][call].  A call during which the
/// child dies is recorded as "abort" (with the child's last words), one that exceeds the time limit as "hang".
fn run_cases(dir: &str, cases: &[Case], lim_mb: u64) -> anyhow::Result<(Vec<Vec<String>>, Vec<String>)> {
    std::fs::create_dir_all(dir)?;
    let inp = format!("{dir}/cases.bin");
    let outp = format!("{dir}/verdicts.txt");
    let errp = format!("{dir}/child_stderr.txt");
    write_cases(&inp, cases)?;
    let _ = std::fs::remove_file(&outp);
    let exe = std::env::current_exe()?;
    let mut verdicts: Vec<Vec<String>> = cases.iter().map(|c| vec![String::new(); 2 + 2 * c.hashes.len()]).collect();
    let mut notes = vec![];
    let (mut from, mut callno) = (0usize, 0usize);
    let mut spawns = 0;
    loop {
        spawns += 1;
        if spawns > 2000 {
            anyhow::bail!("too many child restarts");
        }
        let errf = std::fs::File::create(&errp)?;
        let mut ch = std::process::Command::new(&exe)
            .args(["xorb", "mode=child", &format!("in={inp}"), &format!("out={outp}"), &format!("from={from}"), &format!("call={callno}"), &format!("lim={lim_mb}")])
            .stdout(std::process::Stdio::null())
            .stderr(errf)
            .spawn()?;
        // generous: the whole batch must finish; a single call never needs more than a fraction of a second
        let deadline = std::time::Instant::now() + std::time::Duration::from_secs(60 + cases.len() as u64 / 20);
        let mut hung = false;
        let status = loop {
            if let Some(st) = ch.try_wait()? {
                break Some(st);
            }
            if std::time::Instant::now() > deadline {
                let _ = ch.kill();
                let _ = ch.wait();
                hung = true;
                break None;
            }
            std::thread::sleep(std::time::Duration::from_millis(5));
        };
        let text = std::fs::read_to_string(&outp).unwrap_or_default();
        let mut open: Option<(usize, usize)> = None;
        let mut done = false;
        for line in text.lines() {
            let p: Vec<&str> = line.split(' ').collect();
            match p[0] {
                "B" => open = Some((p[1].parse()?, p[2].parse()?)),
                "V" => {
                    verdicts[p[1].parse::<usize>()?][p[2].parse::<usize>()?] = p[3].to_string();
                    open = None;
                },
                "DONE" => done = true,
                _ => {},
            }
        }
        if done && status.map(|s| s.success()).unwrap_or(false) {
            break;
        }
        match open {
            Some((ci, cn)) => {
                let last_words = std::fs::read_to_string(&errp).unwrap_or_default();
                let last_words = last_words.lines().filter(|l| l.contains("memory allocation") || l.contains("panicked")).last().unwrap_or("").to_string();
                verdicts[ci][cn] = if hung { "hang".into() } else { "abort".into() };
                notes.push(format!("case {ci} call {cn}: {} ({:?}) {}", verdicts[ci][cn], status, last_words));
                // mark the call as finished in the verdict file so that the next scan does not see it open
                let mut o = std::fs::OpenOptions::new().append(true).open(&outp)?;
                writeln!(o, "V {ci} {cn} {}", verdicts[ci][cn])?;
                from = ci;
                callno = cn + 1;
            },
            None => {
                let last_words = std::fs::read_to_string(&errp).unwrap_or_default();
                anyhow::bail!("child failed outside a call: {status:?} {last_words}");
            },
        }
    }
    Ok((verdicts, notes))
}

// ------------------------------------------------------------------------------------------------ contents
const WORDS: [&str; 16] = [
    "xorb", "chunk", "merkle", "shard", "dedup", "boundary", "offset", "footer", "hash", "range", "stream", "cache", "the", "of", "and", "to",
];

pub fn content(class: &str, len: usize, rng: &mut StdRng) -> Vec<u8> {
    let mut v = match class {
        "zero" => vec![0u8; len],
        "text" => {
            let mut s = Vec::with_capacity(len + 16);
            while s.len() < len {
                s.extend_from_slice(WORDS[rng.gen_range(0..WORDS.len())].as_bytes());
                s.push(b' ');
            }
            s
        },
        "f32" => {
            let phase: f32 = rng.gen_range(0.0..6.0);
            let mut s = Vec::with_capacity(len + 4);
            let mut i = 0u32;
            while s.len() < len {
                let x = 1.0f32 + 0.25 * (phase + i as f32 * 0.013).sin() + rng.gen_range(0.0..0.0001);
                s.extend_from_slice(&x.to_le_bytes());
                i += 1;
            }
            s
        },
        "f16" => {
            // half-precision values around 1.0: sign 0, exponent 15, a slowly varying mantissa with noisy low bits
            let mut s = Vec::with_capacity(len + 2);
            let mut i = 0u32;
            let phase: u32 = rng.gen_range(0..64);
            while s.len() < len {
                let m: u16 = ((((i + phase) / 8) % 64) as u16) << 4 | rng.gen_range(0..16);
                let bits: u16 = (15u16 << 10) | (m & 0x3ff);
                s.extend_from_slice(&bits.to_le_bytes());
                i += 1;
            }
            s
        },
        // 4-byte records with one noisy byte: lz4 finds no 4-byte match, byte grouping makes three quarters constant
        "rec4" => {
            let mut s = Vec::with_capacity(len + 4);
            let tag: u8 = rng.gen();
            while s.len() < len {
                s.extend_from_slice(&[rng.gen(), tag, tag ^ 0x5a, 7]);
            }
            s
        },
        _ => {
            let mut s = vec![0u8; len];
            rng.fill_bytes(&mut s);
            s
        },
    };
    v.truncate(len);
    v
}

/// content whose lz4 frame is exactly as long as the content (the boundary case of the fallback rule), if one of the
/// tried shapes has that property
fn edge_content(len: usize, rng: &mut StdRng) -> Option<Vec<u8>> {
    let mut base = vec![0u8; len];
    rng.fill_bytes(&mut base);
    for k in 0..len {
        let mut v = base.clone();
        for b in v.iter_mut().skip(k) {
            *b = 0x41;
        }
        if xorbenc::lz4(&v).len() == len {
            return Some(v);
        }
    }
    None
}

fn comp_lens(d: &[u8]) -> (usize, usize) {
    (xorbenc::compress(xorbenc::LZ4, d).len(), xorbenc::compress(xorbenc::BG4, d).len())
}

// ------------------------------------------------------------------------------------------------ C07 round trips
struct Tables {
    contents: Interner,
    by_hash: HashMap<H, i64>,
    hashes: Interner,
}

impl Tables {
    fn new() -> Self {
        Self { contents: Interner::new(), by_hash: HashMap::new(), hashes: Interner::new() }
    }
    fn cid(&mut self, d: &[u8]) -> i64 {
        let id = self.contents.id(d);
        self.by_hash.insert(merkleref::chunk_hash(d), id);
        id
    }
    /// id of bytes that came out of the code: 0 (junk) when they equal no input chunk
    fn out_id(&self, d: &[u8]) -> i64 {
        self.contents.get(d).unwrap_or(0)
    }
    fn hash_cid(&self, h: &H) -> i64 {
        self.by_hash.get(h).copied().unwrap_or(0)
    }
    fn hid(&mut self, h: &[u8]) -> i64 {
        self.hashes.id(h)
    }
}

/// cuts `data` at the offsets the code reported and interns the pieces; bytes beyond the last offset, offsets beyond
/// the data or offsets that go backwards yield junk ids
fn cut_ids(t: &Tables, data: &[u8], ends: &[u32]) -> Vec<i64> {
    let mut ids = vec![];
    let mut start = 0usize;
    for e in ends {
        let e = *e as usize;
        if e < start || e > data.len() {
            ids.push(0);
            continue;
        }
        ids.push(t.out_id(&data[start..e]));
        start = e;
    }
    if start < data.len() {
        ids.push(0);
    }
    ids
}

fn scheme_opt(req: u8) -> Option<CompressionScheme> {
    match req {
        0 => Some(CompressionScheme::None),
        1 => Some(CompressionScheme::LZ4),
        2 => Some(CompressionScheme::ByteGrouping4LZ4),
        _ => None,
    }
}

fn hashes_hex(hs: &[MerkleHash], t: &Tables) -> Vec<i64> {
    hs.iter().map(|h| t.hash_cid(&h.as_bytes().try_into().unwrap())).collect()
}

fn info_json(info: &CasObjectInfoV1, info_len: u32, t: &mut Tables) -> Value {
    let hid = t.hid(info.cashash.as_bytes());
    json!({
        "identok": info.ident == xorbenc::IDENT, "ver": info.version, "hid": hid,
        "hidentok": info.ident_hash_section == xorbenc::HIDENT, "hver": info.hashes_version,
        "n1": info.chunk_hashes.len(), "hashes": hashes_hex(&info.chunk_hashes, t),
        "bidentok": info.ident_boundary_section == xorbenc::BIDENT, "bver": info.boundaries_version,
        "n2": info.chunk_boundary_offsets.len(), "bounds": info.chunk_boundary_offsets, "unpacked": info.unpacked_chunk_offsets,
        "n3": info.num_chunks, "hoff": info.hashes_section_offset_from_end, "boff": info.boundary_section_offset_from_end,
        "infolen": info_len,
    })
}

fn footer_json(f: &Footer, t: &mut Tables) -> Value {
    let hid = t.hid(&f.hash);
    json!({
        "identok": f.ident == xorbenc::IDENT, "ver": f.ver, "hid": hid,
        "hidentok": f.hident == xorbenc::HIDENT, "hver": f.hver,
        "n1": f.n1, "hashes": f.hashes.iter().map(|h| t.hash_cid(h)).collect::<Vec<_>>(),
        "bidentok": f.bident == xorbenc::BIDENT, "bver": f.bver,
        "n2": f.n2, "bounds": f.bounds, "unpacked": f.unpacked,
        "n3": f.n3, "hoff": f.hoff, "boff": f.boff, "infolen": f.info_len,
    })
}

struct RtCounts {
    xorbs: usize,
    ranges: usize,
    decodes: usize,
    schemes: [usize; 3],
    fallback: usize,
    auto_bg4: usize,
    auto_lz4: usize,
    edge: usize,
    maxlen: usize,
    minlen: usize,
    residues: [usize; 4],
    errors: usize,
}

fn rt_one(t: &mut Tables, chunks: &[Vec<u8>], req: u8, rng: &mut StdRng, cnt: &mut RtCounts, all_ranges_upto: usize) {
    let n = chunks.len();
    let mut x = vec![];
    let mut data = vec![];
    let mut cb = vec![];
    let mut leaves = vec![];
    for c in chunks {
        let cid = t.cid(c);
        let (l, b) = comp_lens(c);
        x.push(json!({"cid": cid, "len": c.len(), "req": req, "comp": [l, b]}));
        data.extend_from_slice(c);
        let h = merkleref::chunk_hash(c);
        cb.push((mh(&h), data.len() as u32));
        leaves.push((h, c.len() as u64));
        cnt.maxlen = cnt.maxlen.max(c.len());
        cnt.minlen = cnt.minlen.min(c.len());
        cnt.residues[c.len() % 4] += 1;
        if l == c.len() {
            cnt.edge += 1;
        }
    }
    let root = merkleref::xorb_hash(&leaves);
    let own = t.hid(&root);
    let mut w = Cursor::new(Vec::new());
    let r = catch_unwind(AssertUnwindSafe(|| CasObject::serialize(&mut w, &mh(&root), &data, &cb, scheme_opt(req))));
    let (cas, ret) = match r {
        Ok(Ok(v)) => v,
        Ok(Err(e)) => {
            hemit("XbErr", format!("\"where\":\"serialize\",\"what\":{}", json!(format!("{e:?}"))));
            cnt.errors += 1;
            return;
        },
        Err(p) => {
            hemit("XbPanic", format!("\"where\":\"serialize\",\"what\":{}", json!(panic_text(&p))));
            cnt.errors += 1;
            return;
        },
    };
    let bytes = w.into_inner();
    // what is really in the output, read by the independent parser
    let an = xorbenc::analyze(&bytes);
    let frames: Vec<Value> = an.headers.iter().map(|h| json!({"ver": h.ver, "clen": h.clen, "scheme": h.scheme, "ulen": h.ulen})).collect();
    for (i, h) in an.headers.iter().enumerate() {
        cnt.schemes[h.scheme.min(2) as usize] += 1;
        if h.scheme == 0 && req != 0 {
            cnt.fallback += 1;
        }
        if req == 9 && h.scheme == 2 {
            cnt.auto_bg4 += 1;
        }
        if req == 9 && h.scheme == 1 {
            cnt.auto_lz4 += 1;
        }
        let _ = i;
    }
    let pids: Vec<i64> = an.chunks.iter().map(|c| t.out_id(c)).collect();
    let foot = match &an.footer {
        Some(f) => footer_json(f, t),
        None => json!({"missing": true}),
    };
    let info = info_json(&cas.info, cas.info_length, t);
    hemit(
        "XbSer",
        format!(
            "\"x\":{},\"frames\":{},\"pids\":{},\"foot\":{},\"info\":{},\"own\":{own},\"ret\":{ret},\"size\":{},\"class\":\"{}\"",
            Value::Array(x),
            Value::Array(frames),
            json!(pids),
            foot,
            info,
            bytes.len(),
            an.foot
        ),
    );
    cnt.xorbs += 1;

    macro_rules! guarded {
        ($where:expr, $e:expr) => {
            match catch_unwind(AssertUnwindSafe(|| $e)) {
                Ok(Ok(v)) => Some(v),
                Ok(Err(e)) => {
                    hemit("XbErr", format!("\"where\":\"{}\",\"what\":{}", $where, json!(format!("{e:?}"))));
                    cnt.errors += 1;
                    None
                },
                Err(p) => {
                    hemit("XbPanic", format!("\"where\":\"{}\",\"what\":{}", $where, json!(panic_text(&p))));
                    cnt.errors += 1;
                    None
                },
            }
        };
    }

    // re-read the footer
    let Some(c2) = guarded!("deserialize", CasObject::deserialize(&mut Cursor::new(&bytes))) else { return };
    let info2 = info_json(&c2.info, c2.info_length, t);
    hemit("XbOpen", format!("\"foot\":{info2}"));

    // whole contents
    if let Some(all) = guarded!("get_all_bytes", c2.get_all_bytes(&mut Cursor::new(&bytes))) {
        let ids = cut_ids(t, &all, &c2.info.unpacked_chunk_offsets);
        hemit("XbAll", format!("\"ids\":{},\"nbytes\":{}", json!(ids), all.len()));
    }
    // ... and from a source that returns short reads (footer and contents)
    for pieces in [PIECES[1], PIECES[2], PIECES[3]] {
        if let Some(c3) = guarded!("deserialize", CasObject::deserialize(&mut ShortSeekReader::new(&bytes, pieces))) {
            if let Some(all) = guarded!("get_all_bytes", c3.get_all_bytes(&mut ShortSeekReader::new(&bytes, pieces))) {
                let ids = cut_ids(t, &all, &c3.info.unpacked_chunk_offsets);
                hemit("XbAll", format!("\"ids\":{},\"nbytes\":{},\"reader\":\"short\"", json!(ids), all.len()));
            }
        }
    }

    // chunk ranges
    let mut ranges = vec![];
    if n <= all_ranges_upto {
        for a in 0..n {
            for b in a + 1..=n {
                ranges.push((a, b));
            }
        }
    } else {
        for a in 0..n {
            ranges.push((a, a + 1));
        }
        for w in [2usize, 3, n / 2, n - 1, n] {
            if w >= 1 && w <= n {
                ranges.push((0, w));
                ranges.push((n - w, n));
            }
        }
        for _ in 0..40 {
            let a = rng.gen_range(0..n);
            let b = rng.gen_range(a + 1..=n);
            ranges.push((a, b));
        }
        ranges.sort();
        ranges.dedup();
    }
    for (ri, &(a, b)) in ranges.iter().enumerate() {
        let (a32, b32) = (a as u32, b as u32);
        let Some(off) = guarded!("get_byte_offset", c2.get_byte_offset(a32, b32)) else { continue };
        // every second range is read from a source that returns short reads
        let got = if ri % 2 == 1 {
            guarded!("get_bytes_by_chunk_range", c2.get_bytes_by_chunk_range(&mut ShortSeekReader::new(&bytes, PIECES[1 + (ri / 2) % 3]), a32, b32))
        } else {
            guarded!("get_bytes_by_chunk_range", c2.get_bytes_by_chunk_range(&mut Cursor::new(&bytes), a32, b32))
        };
        let Some(got) = got else { continue };
        let Some(ulen) = guarded!("uncompressed_range_length", c2.uncompressed_range_length(a32, b32)) else { continue };
        let mut ends = vec![];
        let mut acc = 0u32;
        let mut ok = true;
        for i in a32..b32 {
            match guarded!("uncompressed_chunk_length", c2.uncompressed_chunk_length(i)) {
                Some(l) => {
                    acc += l;
                    ends.push(acc);
                },
                None => ok = false,
            }
        }
        if !ok {
            continue;
        }
        let ids = cut_ids(t, &got, &ends);
        hemit("XbRange", format!("\"a\":{a},\"b\":{b},\"boff\":[{},{}],\"ids\":{},\"ulen\":{ulen},\"nbytes\":{}", off.0, off.1, json!(ids), got.len()));
        cnt.ranges += 1;
    }

    // the three chunk decoders on the physical byte ranges
    let phys = |k: usize| -> usize { if k == 0 { 0 } else { an.headers.get(k).map(|h| h.start).unwrap_or(an.frames_end) } };
    // every single chunk (for very long xorbs: the first and last 16 and every (n/128)-th), the whole, some inner ranges
    let step = (n / 128).max(1);
    let mut dranges: Vec<(usize, usize)> = (0..n).filter(|i| *i < 16 || *i + 16 >= n || i % step == 0).map(|i| (i, i + 1)).collect();
    dranges.push((0, n));
    if n <= 6 {
        dranges = ranges.clone();
    } else {
        dranges.push((1, n));
        dranges.push((0, n - 1));
        dranges.push((n / 3, 2 * n / 3 + 1));
    }
    dranges.sort();
    dranges.dedup();
    for (k, &(a, b)) in dranges.iter().enumerate() {
        if an.headers.len() != n {
            break;
        }
        let part = &bytes[phys(a)..phys(b)];
        let pieces = PIECES[(k + 1) % PIECES.len()];
        if let Some((d, idx)) = guarded!("deserialize_chunks", cas_object::deserialize_chunks(&mut Cursor::new(part))) {
            hemit("XbDec", format!("\"dec\":\"sync\",\"a\":{a},\"b\":{b},\"ids\":{},\"offs\":{}", json!(cut_ids(t, &d, &idx[1.min(idx.len())..])), json!(idx)));
            cnt.decodes += 1;
        }
        if let Some((d, idx)) = guarded!(
            "deserialize_chunks_from_async_read",
            futures::executor::block_on(cas_object::deserialize_async::deserialize_chunks_from_async_read(&mut PieceReader::new(part, pieces)))
        ) {
            hemit("XbDec", format!("\"dec\":\"async\",\"a\":{a},\"b\":{b},\"ids\":{},\"offs\":{}", json!(cut_ids(t, &d, &idx[1.min(idx.len())..])), json!(idx)));
            cnt.decodes += 1;
        }
        if let Some((d, idx)) = guarded!(
            "deserialize_chunks_from_stream",
            futures::executor::block_on(cas_object::deserialize_async::deserialize_chunks_from_stream(pieces_stream(part, pieces)))
        ) {
            hemit("XbDec", format!("\"dec\":\"stream\",\"a\":{a},\"b\":{b},\"ids\":{},\"offs\":{}", json!(cut_ids(t, &d, &idx[1.min(idx.len())..])), json!(idx)));
            cnt.decodes += 1;
        }
        if b == a + 1 {
            if let Some((d, cl, ul)) = guarded!("deserialize_chunk", cas_object::deserialize_chunk(&mut Cursor::new(part))) {
                hemit("XbDec1", format!("\"dec\":\"sync\",\"i\":{},\"id\":{},\"clen\":{cl},\"ulen\":{ul}", b, t.out_id(&d)));
            }
            if let Some((d, cl, ul)) = guarded!(
                "deserialize_chunk(async)",
                futures::executor::block_on(cas_object::deserialize_async::deserialize_chunk(&mut PieceReader::new(part, pieces)))
            ) {
                hemit("XbDec1", format!("\"dec\":\"async\",\"i\":{},\"id\":{},\"clen\":{cl},\"ulen\":{ul}", b, t.out_id(&d)));
            }
        }
    }
}

const LENS_SMALL: [usize; 30] = [1, 2, 3, 4, 5, 6, 7, 8, 13, 14, 15, 16, 17, 63, 64, 65, 66, 67, 255, 256, 257, 258, 1021, 1022, 1023, 1024, 4095, 4096, 4097, 4098];
const LENS_BIG: [usize; 10] = [65535, 65536, 65537, 65538, 131069, 131070, 131071, 131072, 100001, 99999];
const CLASSES: [&str; 6] = ["rand", "zero", "text", "f32", "f16", "rec4"];
const REQS: [u8; 4] = [0, 1, 2, 9];

fn run_rt(a: &Args) -> anyhow::Result<String> {
    crate::util::silence_panics();
    let ctl = Ctl::new();
    ctl.install();
    let seed = a.u64("seed", 1);
    let k = a.u64("k", 1) as usize;
    let bigxorb = a.u64("bigxorb", 0) as usize;
    let mut rng = crate::util::rng(seed);
    let mut out = TraceOut::create(&a.str("out", "/dev/null"))?;
    out.run(&[json!({"ev":"XorbSetup","mode":"rt","pool":[],"maxu":xorbenc::MAX_ULEN,"maxc":xorbenc::MAX_CLEN}).to_string()])?;
    let mut cnt = RtCounts {
        xorbs: 0, ranges: 0, decodes: 0, schemes: [0; 3], fallback: 0, auto_bg4: 0, auto_lz4: 0, edge: 0, maxlen: 0, minlen: usize::MAX,
        residues: [0; 4], errors: 0,
    };
    let mut sample = vec![];
    let mut t = Tables::new();
    let mut li = 0usize;
    let emit_run = |t: &mut Tables, chunks: Vec<Vec<u8>>, req: u8, rng: &mut StdRng, cnt: &mut RtCounts, out: &mut TraceOut, sample: &mut Vec<String>| -> anyhow::Result<()> {
        let _ = ctl.take_events();
        rt_one(t, &chunks, req, rng, cnt, 12);
        let ev = ctl.take_events();
        if sample.is_empty() {
            *sample = ev.iter().take(4).map(|s| s.chars().take(400).collect()).collect();
        }
        out.run(&ev)?;
        Ok(())
    };
    for round in 0..k {
        for class in CLASSES {
            for req in REQS {
                // (1) a xorb of small chunks walking through the length table (every residue mod 4)
                let n = 3 + (li % 4);
                let chunks: Vec<Vec<u8>> = (0..n).map(|j| content(class, LENS_SMALL[(li + j * 7 + round) % LENS_SMALL.len()], &mut rng)).collect();
                li += 3;
                emit_run(&mut t, chunks, req, &mut rng, &mut cnt, &mut out, &mut sample)?;
                // (2) big chunks up to the maximum chunk size, with a 1-byte chunk in between
                let b1 = LENS_BIG[(li + round) % LENS_BIG.len()];
                let b2 = LENS_BIG[(li + 4 + round) % LENS_BIG.len()];
                li += 1;
                let chunks = vec![content(class, b1, &mut rng), content(class, 1, &mut rng), content(class, b2, &mut rng)];
                emit_run(&mut t, chunks, req, &mut rng, &mut cnt, &mut out, &mut sample)?;
            }
        }
        // (3) single-chunk xorbs at the extremes, mixed-class xorbs, the fallback boundary
        for req in REQS {
            emit_run(&mut t, vec![content("text", 1, &mut rng)], req, &mut rng, &mut cnt, &mut out, &mut sample)?;
            emit_run(&mut t, vec![content("f32", 131072, &mut rng)], req, &mut rng, &mut cnt, &mut out, &mut sample)?;
            let mixed: Vec<Vec<u8>> = (0..8).map(|j| content(CLASSES[(j + round) % CLASSES.len()], LENS_SMALL[(li + 5 * j) % LENS_SMALL.len()] + 40 * (j % 3), &mut rng)).collect();
            li += 1;
            emit_run(&mut t, mixed, req, &mut rng, &mut cnt, &mut out, &mut sample)?;
        }
        for len in [40usize, 41, 42, 43, 200] {
            if let Some(e) = edge_content(len, &mut rng) {
                emit_run(&mut t, vec![e, content("text", 30, &mut rng)], 1, &mut rng, &mut cnt, &mut out, &mut sample)?;
            }
        }
    }
    if bigxorb > 0 {
        // a xorb with very many small chunks of mixed classes
        let chunks: Vec<Vec<u8>> = (0..bigxorb).map(|j| content(CLASSES[j % CLASSES.len()], 1 + (j * 7) % 97, &mut rng)).collect();
        let _ = ctl.take_events();
        rt_one(&mut t, &chunks, 9, &mut rng, &mut cnt, 12);
        out.run(&ctl.take_events())?;
    }
    let (runs, events) = out.finish()?;
    Ok(json!({
        "runs": runs, "events": events, "xorbs": cnt.xorbs, "ranges": cnt.ranges, "decodes": cnt.decodes,
        "frames_by_scheme": {"none": cnt.schemes[0], "lz4": cnt.schemes[1], "bg4": cnt.schemes[2]},
        "fallback_to_none": cnt.fallback, "auto_chose_bg4": cnt.auto_bg4, "auto_chose_lz4": cnt.auto_lz4, "lz4_len_equals_len": cnt.edge,
        "min_chunk": cnt.minlen, "max_chunk": cnt.maxlen, "len_residues_mod4": cnt.residues, "call_errors": cnt.errors,
        "sample": sample,
    })
    .to_string())
}

// ------------------------------------------------------------------------------------------------ C08 scenario replay
struct Pool {
    contents: HashMap<i64, Vec<u8>>,
    req: HashMap<i64, u8>,
    big: Vec<u8>,
}

fn make_pool(rng: &mut StdRng) -> Pool {
    let mut p = Pool { contents: HashMap::new(), req: HashMap::new(), big: vec![] };
    let specs: [(i64, &str, usize, u8); 6] = [(1, "rand", 64, 1), (2, "text", 128, 1), (3, "f32", 192, 2), (4, "rand", 128, 0), (5, "rec4", 192, 9), (6, "rand", 64, 0)];
    for (cid, class, len, req) in specs {
        p.contents.insert(cid, content(class, len, rng));
        p.req.insert(cid, req);
    }
    p.big = content("rand", xorbenc::MAX_ULEN as usize + 1, rng);
    p
}

fn pool_json(p: &Pool) -> Value {
    let mut v = vec![];
    for cid in 1..=6i64 {
        let c = &p.contents[&cid];
        let (l, b) = comp_lens(c);
        v.push(json!({"cid": cid, "len": c.len(), "req": p.req[&cid], "comp": [l, b]}));
    }
    Value::Array(v)
}

/// a structured object together with the contents its frames were made from
#[derive(Clone)]
struct SObj {
    o: Obj,
    src: Vec<Vec<u8>>,
    form: u8,
}

fn src_hashes(src: &[Vec<u8>]) -> (Vec<H>, H) {
    let hs: Vec<H> = src.iter().map(|c| merkleref::chunk_hash(c)).collect();
    let leaves: Vec<(H, u64)> = src.iter().map(|c| (merkleref::chunk_hash(c), c.len() as u64)).collect();
    (hs, merkleref::xorb_hash(&leaves))
}

fn other_hash() -> H {
    merkleref::chunk_hash(b"an unrelated hash")
}

fn junk_hash() -> H {
    merkleref::chunk_hash(b"junk chunk")
}

fn defpick(req: u8) -> u8 {
    if req == 9 {
        1
    } else {
        req
    }
}

/// the concrete counterpart of Xorb!Apply
fn apply(s: &mut SObj, pool: &Pool, k: &str, i: usize, d: i64) -> anyhow::Result<()> {
    let n = s.o.frames.len();
    let fi = i.wrapping_sub(1);
    let add = |v: &mut u32, d: i64| *v = (*v as i64 + d) as u32;
    let foreign = |cid: i64| -> (Frame, Vec<u8>) {
        let c = pool.contents[&cid].clone();
        (Frame::encode(&c, defpick(pool.req[&cid])), c)
    };
    match k {
        "ver" => s.o.frames[fi].ver = 1,
        "clen" => add(&mut s.o.frames[fi].clen, d),
        "ulen" => add(&mut s.o.frames[fi].ulen, d),
        "scheme" => s.o.frames[fi].scheme = d as u8,
        "payload" => {
            // a literal byte: the last byte of an uncompressed payload, the last literal of the lz4 block otherwise
            let f = &mut s.o.frames[fi];
            let at = if f.scheme == 0 { f.payload.len() - 1 } else { f.payload.len() - 5 };
            f.payload[at] ^= 0x01;
        },
        "drop" => {
            s.o.frames.remove(fi);
        },
        "dup" => {
            let f = s.o.frames[fi].clone();
            s.o.frames.insert(fi, f);
        },
        "swap" => s.o.frames.swap(fi, fi + 1),
        "splice" => s.o.frames[fi] = foreign(d).0,
        "insert" => s.o.frames.insert(fi, foreign(d).0),
        "oversize" => {
            s.o.frames[fi] = Frame::encode(&pool.big, 0);
            s.src[fi] = pool.big.clone();
            if s.form != FORM_NONE {
                let (hs, root) = src_hashes(&s.src);
                s.o.foot = Some(Footer::of(&s.o.frames, &hs, root, s.form));
            }
        },
        "cut_frame" => {
            s.o.frames.truncate(i);
            s.o.foot = None;
            let end = s.o.frames_len();
            let size = s.o.frames[i - 1].size() as usize;
            let start = end - size;
            s.o.cut = Some(start + 1 + (7 * i) % (size - 1));
        },
        "cut_after" => {
            s.o.frames.truncate(i);
            s.o.foot = None;
        },
        "cut_foot8" => s.o.cut = Some(s.o.frames_len() + s.o.gap.len() + 3),
        "cut_foot" => s.o.cut = Some(s.o.frames_len() + s.o.gap.len() + 8 + 10),
        "gap" => s.o.gap = vec![0xEE; 12],
        "trail" => s.o.trail = vec![0xEE; 5],
        _ => {
            let (hs, _root) = src_hashes(&s.src);
            let form = s.form;
            let frames = s.o.frames.clone();
            let f = s.o.foot.as_mut().ok_or_else(|| anyhow::anyhow!("footer mutation without footer"))?;
            match k {
                "f_ident" => f.ident[3] ^= 0x20,
                "f_ver" => f.ver = d as u8,
                "f_hash" => {
                    f.hash = match d {
                        1 => [0u8; 32],
                        2 => other_hash(),
                        _ => src_hashes(&s.src[..n - 1]).1,
                    }
                },
                "f_hident" => f.hident[2] ^= 0x20,
                "f_hver" => f.hver = 1,
                "f_bident" => f.bident[5] ^= 0x01,
                "f_bver" => f.bver = d as u8,
                "f_n1" => add(&mut f.n1, d),
                "f_n2" => add(&mut f.n2, d),
                "f_n3" => add(&mut f.n3, d),
                "f_counts" => {
                    add(&mut f.n1, d);
                    add(&mut f.n2, d);
                    add(&mut f.n3, d);
                },
                "f_hashes" => f.hashes[fi] = if d == 0 { junk_hash() } else { merkleref::chunk_hash(&pool.contents[&d]) },
                "f_bounds" => add(&mut f.bounds[fi], d),
                "f_unpacked" => add(&mut f.unpacked[fi], d),
                "f_hoff" => add(&mut f.hoff, d),
                "f_boff" => add(&mut f.boff, d),
                "f_infolen" => add(&mut f.info_len, d),
                "f_shrink" => {
                    let h = if d == 1 { src_hashes(&s.src[..n - 1]).1 } else { f.hash };
                    *f = Footer::of(&frames[..n - 1], &hs[..n - 1], h, form);
                },
                "empty" => {
                    *f = Footer::of(&[], &[], [0u8; 32], form);
                },
                "f_grow" => {
                    let mut fr = frames.clone();
                    fr.push(frames[n - 1].clone());
                    let mut hh = hs.clone();
                    hh.push(hs[n - 1]);
                    let h = f.hash;
                    *f = Footer::of(&fr, &hh, h, form);
                },
                other => anyhow::bail!("unknown mutation {other}"),
            }
            if k == "empty" {
                s.o.frames.clear();
            }
        },
    }
    Ok(())
}

fn form_code(s: &str) -> u8 {
    match s {
        "v1" => 1,
        "v0" => 0,
        _ => FORM_NONE,
    }
}

fn ref_json(an: &xorbenc::Analysis, t: &mut Tables) -> String {
    format!(
        "{{\"dec\":{},\"root\":{},\"foot\":\"{}\",\"v1foot\":{},\"nframes\":{}}}",
        an.dec,
        t.hid(&an.root),
        an.foot,
        an.v1foot,
        an.headers.len()
    )
}

fn run_scn(a: &Args) -> anyhow::Result<String> {
    let seed = a.u64("seed", 1);
    let mut rng = crate::util::rng(seed);
    // the pool realises the chunk universe of the model that generated the scenarios (which chunk falls back to
    // scheme none, which one compresses better regrouped): its content is fixed, whatever the run's seed
    let pool = make_pool(&mut crate::util::rng(1));
    let mut t = Tables::new();
    let scns: Vec<Value> = std::fs::read_to_string(a.str("in", ""))?.lines().filter(|l| !l.trim().is_empty()).map(serde_json::from_str).collect::<Result<_, _>>()?;
    let outp = a.str("out", "/dev/null");
    let dir = format!("{}.d", outp);
    let mut out = TraceOut::create(&outp)?;
    out.run(&[json!({"ev":"XorbSetup","mode":"scn","pool":pool_json(&pool),"maxu":xorbenc::MAX_ULEN,"maxc":xorbenc::MAX_CLEN}).to_string()])?;

    struct Prep {
        build: String,
        mutate: Option<String>,
        an: xorbenc::Analysis,
        hks: Vec<String>,
    }
    let mut cases = vec![];
    let mut preps = vec![];
    let mut by_kind: HashMap<String, usize> = HashMap::new();
    for sc in &scns {
        let xs: Vec<i64> = sc["x"].as_array().unwrap().iter().map(|v| v.as_i64().unwrap()).collect();
        let pick: Vec<u8> = sc["pick"].as_array().unwrap().iter().map(|v| v.as_u64().unwrap() as u8).collect();
        let form = form_code(sc["form"].as_str().unwrap());
        let src: Vec<Vec<u8>> = xs.iter().map(|c| pool.contents[c].clone()).collect();
        let chunks: Vec<(&[u8], u8)> = src.iter().zip(pick.iter()).map(|(c, p)| (c.as_slice(), *p)).collect();
        let mut s = SObj { o: Obj::build(&chunks, form), src: src.clone(), form };
        let own = src_hashes(&src).1;
        let x_json: Vec<Value> = xs
            .iter()
            .map(|c| {
                let d = &pool.contents[c];
                let (l, b) = comp_lens(d);
                json!({"cid": c, "len": d.len(), "req": pool.req[c], "comp": [l, b]})
            })
            .collect();
        let base_an = xorbenc::analyze(&s.o.bytes());
        let build = format!(
            "{{\"ev\":\"XvBuild\",\"x\":{},\"pick\":{},\"form\":{},\"ref\":{}",
            Value::Array(x_json),
            json!(pick),
            sc["form"],
            ref_json(&base_an, &mut t)
        );
        let m = &sc["m"];
        let k = m["k"].as_str().unwrap().to_string();
        *by_kind.entry(k.clone()).or_insert(0) += 1;
        let mut mutate = None;
        if k != "none" {
            apply(&mut s, &pool, &k, m["i"].as_u64().unwrap() as usize, m["d"].as_i64().unwrap())?;
            mutate = Some(format!("{{\"ev\":\"XvMutate\",\"m\":{}", m));
        }
        let bytes = s.o.bytes();
        let an = xorbenc::analyze(&bytes);
        // the hash of what the frames decode to, whatever follows them
        let mut fb = vec![];
        for f in &s.o.frames {
            f.write(&mut fb);
        }
        if k == "cut_frame" {
            fb.truncate(s.o.cut.unwrap());
        }
        let fan = xorbenc::analyze(&fb);
        let mut hashes = vec![];
        let mut hks = vec![];
        for hk in sc["hks"].as_array().unwrap() {
            let hk = hk.as_str().unwrap();
            let h = match hk {
                "own" => own,
                "dec" => {
                    if !(fan.dec && fan.foot == "none") {
                        anyhow::bail!("scenario {sc}: the model says the frames decode, the concrete frames do not");
                    }
                    fan.root
                },
                "foot" => s.o.foot.as_ref().ok_or_else(|| anyhow::anyhow!("no footer"))?.hash,
                "zero" => [0u8; 32],
                _ => other_hash(),
            };
            hashes.push(h);
            hks.push(hk.to_string());
        }
        cases.push(Case { data: bytes, hashes });
        preps.push(Prep { build, mutate, an, hks });
    }
    let (verdicts, notes) = run_cases(&dir, &cases, a.u64("lim", 512))?;
    let mut vc: HashMap<String, usize> = HashMap::new();
    let mut sample = vec![];
    for (i, p) in preps.iter().enumerate() {
        let v = &verdicts[i];
        let tail = format!(",\"deser\":\"{}\",\"bounds\":\"{}\"}}", v[0], v[1]);
        let mut ev = vec![];
        match &p.mutate {
            None => ev.push(format!("{}{}", p.build, tail)),
            Some(m) => {
                ev.push(format!("{},\"deser\":\"-\",\"bounds\":\"-\"}}", p.build));
                ev.push(format!("{m},\"ref\":{}{tail}", ref_json(&p.an, &mut t)));
            },
        }
        *vc.entry(format!("deser:{}", v[0])).or_insert(0) += 1;
        *vc.entry(format!("bounds:{}", v[1])).or_insert(0) += 1;
        for (j, hk) in p.hks.iter().enumerate() {
            let hid = t.hid(&cases[i].hashes[j]);
            ev.push(format!(
                "{{\"ev\":\"XvCheck\",\"hk\":\"{hk}\",\"hid\":{hid},\"rootid\":{},\"seek\":\"{}\",\"stream\":\"{}\"}}",
                t.hid(&p.an.root),
                v[2 + 2 * j],
                v[3 + 2 * j]
            ));
            *vc.entry(format!("seek:{}", v[2 + 2 * j])).or_insert(0) += 1;
            *vc.entry(format!("stream:{}", v[3 + 2 * j])).or_insert(0) += 1;
        }
        if sample.len() < 6 && p.mutate.is_some() {
            sample = ev.iter().map(|s| s.chars().take(300).collect::<String>()).collect();
        }
        out.run(&ev)?;
    }
    let (runs, events) = out.finish()?;
    Ok(json!({"runs": runs, "events": events, "objects": cases.len(), "verdicts": vc, "mutation_kinds": by_kind, "child_notes": notes, "sample": sample}).to_string())
}

// ------------------------------------------------------------------------------------------------ C08 fault enumeration
struct Base {
    origin: &'static str,
    kind: &'static str,
    bytes: Vec<u8>,
    own: H,
    frames_end: usize,
    header_offs: Vec<usize>,
}

fn real_serialize(chunks: &[Vec<u8>], req: u8) -> anyhow::Result<(Vec<u8>, H)> {
    let mut data = vec![];
    let mut cb = vec![];
    let mut leaves = vec![];
    for c in chunks {
        data.extend_from_slice(c);
        let h = merkleref::chunk_hash(c);
        cb.push((mh(&h), data.len() as u32));
        leaves.push((h, c.len() as u64));
    }
    let root = merkleref::xorb_hash(&leaves);
    let mut w = Cursor::new(Vec::new());
    CasObject::serialize(&mut w, &mh(&root), &data, &cb, scheme_opt(req)).map_err(|e| anyhow::anyhow!("serialize: {e:?}"))?;
    Ok((w.into_inner(), root))
}

fn run_faults(a: &Args) -> anyhow::Result<String> {
    let seed = a.u64("seed", 1);
    let thorough = a.u64("thorough", 0) == 1;
    let payload_stride = a.u64("pstride", if thorough { 1 } else { 9 }) as usize;
    let nrandom = a.u64("random", if thorough { 3000 } else { 400 }) as usize;
    let mut rng = crate::util::rng(seed);
    let mut t = Tables::new();
    let outp = a.str("out", "/dev/null");
    let dir = format!("{}.d", outp);
    let mut out = TraceOut::create(&outp)?;
    out.run(&[json!({"ev":"XorbSetup","mode":"faults","pool":[],"maxu":xorbenc::MAX_ULEN,"maxc":xorbenc::MAX_CLEN}).to_string()])?;

    // valid xorbs: the real serializer under every scheme, the independent encoder in the three footer forms
    let mk = |rng: &mut StdRng, classes: &[&str], lens: &[usize]| -> Vec<Vec<u8>> { classes.iter().zip(lens.iter()).map(|(c, l)| content(c, *l, rng)).collect() };
    let mut bases: Vec<Base> = vec![];
    let shapes: Vec<(Vec<&str>, Vec<usize>, u8)> = vec![
        (vec!["rand", "text", "f32"], vec![37, 90, 121], 9),
        (vec!["text", "text"], vec![64, 200], 1),
        (vec!["f32", "rand", "zero", "f16"], vec![160, 31, 70, 98], 2),
        (vec!["rand"], vec![50], 0),
    ];
    for (classes, lens, req) in &shapes {
        let chunks = mk(&mut rng, classes, lens);
        let (bytes, own) = real_serialize(&chunks, *req)?;
        let an = xorbenc::analyze(&bytes);
        if an.foot != "ok" || an.root != own {
            anyhow::bail!("the independent reading of a real serialization is not 'ok': {}", an.foot);
        }
        bases.push(Base { origin: "ser", kind: "v1", frames_end: an.frames_end, header_offs: an.headers.iter().map(|h| h.start).collect(), bytes, own });
        if !thorough && bases.len() >= 3 {
            break;
        }
    }
    for (fi, (form, kind)) in [(1u8, "v1"), (0u8, "v0"), (FORM_NONE, "none")].iter().enumerate() {
        let (classes, lens, req) = &shapes[fi % shapes.len()];
        let chunks = mk(&mut rng, classes, lens);
        let pick = defpick(*req);
        let cs: Vec<(&[u8], u8)> = chunks.iter().map(|c| (c.as_slice(), pick)).collect();
        let o = Obj::build(&cs, *form);
        let bytes = o.bytes();
        let an = xorbenc::analyze(&bytes);
        bases.push(Base { origin: "enc", kind, frames_end: an.frames_end, header_offs: an.headers.iter().map(|h| h.start).collect(), own: an.root, bytes });
    }

    // valid xorbs with very many chunks (beyond any pre-allocation cap of the parsers; the format allows 8192): both
    // validators must accept them for their own hash; only a few mutations of these are tried
    let big_from = bases.len();
    for nbig in if thorough { vec![1153usize, 2500, 8192] } else { vec![2000usize] } {
        let chunks: Vec<Vec<u8>> = (0..nbig).map(|j| content(CLASSES[j % CLASSES.len()], 1 + (j * 7) % 61, &mut rng)).collect();
        let (bytes, own) = real_serialize(&chunks, 9)?;
        let an = xorbenc::analyze(&bytes);
        if an.foot != "ok" || an.root != own {
            anyhow::bail!("the independent reading of a real many-chunk serialization is not 'ok': {}", an.foot);
        }
        bases.push(Base { origin: "ser", kind: "v1", frames_end: an.frames_end, header_offs: an.headers.iter().map(|h| h.start).collect(), bytes, own });
    }

    struct Inp {
        base: usize,
        mutation: String,
        kind: &'static str,
        data: Vec<u8>,
    }
    let mut inputs: Vec<Inp> = vec![];
    let mut extra_claims: HashMap<usize, H> = HashMap::new();
    let splice_src: Vec<Vec<u8>> = bases.iter().map(|b| b.bytes.clone()).collect();
    for (bi, b) in bases.iter().enumerate() {
        let len = b.bytes.len();
        inputs.push(Inp { base: bi, mutation: "none".into(), kind: b.kind, data: b.bytes.clone() });
        if bi >= big_from {
            for (name, off) in [("last-footer-byte", len - 1), ("first-footer-byte", b.frames_end), ("mid-footer", (b.frames_end + len) / 2), ("last-header", *b.header_offs.last().unwrap() + 1)] {
                let mut d = b.bytes.clone();
                d[off] ^= 0x01;
                inputs.push(Inp { base: bi, mutation: format!("flip:{name}@{off}^0x1"), kind: "mut", data: d });
            }
            inputs.push(Inp { base: bi, mutation: format!("trunc@{}", len - 1), kind: "mut", data: b.bytes[..len - 1].to_vec() });
            inputs.push(Inp { base: bi, mutation: format!("trunc@{}", b.frames_end), kind: "mut", data: b.bytes[..b.frames_end].to_vec() });
            continue;
        }
        // single-byte flips: every byte of every chunk header and of the footer region (payload bytes with a stride)
        let in_header = |off: usize| b.header_offs.iter().any(|s| off >= *s && off < *s + 8);
        for off in 0..len {
            let structural = in_header(off) || off >= b.frames_end;
            if !structural && off % payload_stride != 0 {
                continue;
            }
            let masks: &[u8] = if structural { &[0x01, 0x80, 0xff] } else { &[0x10] };
            for m in masks {
                let mut d = b.bytes.clone();
                d[off] ^= m;
                inputs.push(Inp { base: bi, mutation: format!("flip@{off}^{m:#x}"), kind: "mut", data: d });
            }
        }
        // truncation at every offset
        for cut in 0..len {
            inputs.push(Inp { base: bi, mutation: format!("trunc@{cut}"), kind: "mut", data: b.bytes[..cut].to_vec() });
        }
        // inflated counts and lengths: every aligned 32-bit field of the footer region, every 24-bit header length
        let mut off = b.frames_end;
        while off + 4 <= len {
            for v in [0xffff_ffffu32, 0x7fff_ffff, 0xffff_fffc, 0x0100_0000] {
                let mut d = b.bytes.clone();
                d[off..off + 4].copy_from_slice(&v.to_le_bytes());
                inputs.push(Inp { base: bi, mutation: format!("set32@{off}={v:#x}"), kind: "mut", data: d });
            }
            off += 1;
            if !thorough {
                off += 3;
            }
        }
        // (the footer's 32-bit fields are at offsets = 0 mod 4 from the footer start only for some of them: in the
        // quick tier every 4th offset from the footer start and from the end are both swept)
        if !thorough {
            let mut off = len as i64 - 4;
            while off >= b.frames_end as i64 {
                for v in [0xffff_ffffu32, 0xffff_fffc] {
                    let mut d = b.bytes.clone();
                    d[off as usize..off as usize + 4].copy_from_slice(&v.to_le_bytes());
                    inputs.push(Inp { base: bi, mutation: format!("set32@{off}={v:#x}"), kind: "mut", data: d });
                }
                off -= 4;
            }
        }
        for s in &b.header_offs {
            for (fo, name) in [(1usize, "clen"), (5usize, "ulen")] {
                for v in [0xff_ffffu32, 0x04_0001, 0x02_0001, 0] {
                    let mut d = b.bytes.clone();
                    d[s + fo..s + fo + 3].copy_from_slice(&v.to_le_bytes()[..3]);
                    inputs.push(Inp { base: bi, mutation: format!("set24:{name}@{s}={v:#x}"), kind: "mut", data: d });
                }
            }
        }
        // splices: a chunk region of another xorb inserted / substituted / appended, footers exchanged
        for (oi, other) in splice_src.iter().enumerate() {
            if oi == bi || oi >= big_from {
                continue;
            }
            let ob = &bases[oi];
            let ofirst_end = ob.header_offs.get(1).copied().unwrap_or(ob.frames_end);
            let first_end = b.header_offs.get(1).copied().unwrap_or(b.frames_end);
            let mut d = other[..ofirst_end].to_vec();
            d.extend_from_slice(&b.bytes);
            inputs.push(Inp { base: bi, mutation: format!("splice:prepend-chunk-of-{oi}"), kind: "mut", data: d });
            let mut d = b.bytes[..b.frames_end].to_vec();
            d.extend_from_slice(&other[..ofirst_end]);
            d.extend_from_slice(&b.bytes[b.frames_end..]);
            inputs.push(Inp { base: bi, mutation: format!("splice:append-chunk-of-{oi}"), kind: "mut", data: d });
            let mut d = other[..ofirst_end].to_vec();
            d.extend_from_slice(&b.bytes[first_end..]);
            inputs.push(Inp { base: bi, mutation: format!("splice:replace-first-by-chunk-of-{oi}"), kind: "mut", data: d });
            let mut d = b.bytes[..b.frames_end].to_vec();
            d.extend_from_slice(&other[ob.frames_end..]);
            inputs.push(Inp { base: bi, mutation: format!("splice:footer-of-{oi}"), kind: "mut", data: d });
        }
        let mut d = b.bytes.clone();
        d.extend_from_slice(&b.bytes);
        inputs.push(Inp { base: bi, mutation: "splice:twice".into(), kind: "mut", data: d });
        let mut d = b.bytes.clone();
        d.extend_from_slice(&[0u8; 8]);
        inputs.push(Inp { base: bi, mutation: "append:zeros".into(), kind: "mut", data: d });
    }
    // frames that unpack to more (or less) than their header declares, everything else - chunk hashes, offsets, root,
    // footer - computed consistently over the declared prefix; at the largest legal length and below it, both
    // compressing schemes.  A decoder that stops reading at a cap instead of comparing lengths accepts them.
    for (scheme, sname) in [(xorbenc::LZ4, "lz4"), (xorbenc::BG4, "bg4")] {
        for declared in [xorbenc::MAX_ULEN as usize, xorbenc::MAX_ULEN as usize - 1, 4096, 64] {
            for extra in [1i64, 100, 4096, -1] {
                let actual = (declared as i64 + extra) as usize;
                let full = content("text", actual.max(declared), &mut rng);
                let lead = content("text", 40, &mut rng);
                let said: &[u8] = &full[..declared];
                let cs: Vec<(&[u8], u8)> = vec![(lead.as_slice(), scheme), (said, scheme)];
                let mut frames: Vec<Frame> = cs.iter().map(|(d, s)| Frame::encode(d, *s)).collect();
                let payload = xorbenc::compress(scheme, &full[..actual]);
                frames[1] = Frame { ver: 0, clen: payload.len() as u32, scheme, ulen: declared as u32, payload };
                let hs: Vec<H> = cs.iter().map(|(d, _)| merkleref::chunk_hash(d)).collect();
                let leaves: Vec<(H, u64)> = cs.iter().map(|(d, _)| (merkleref::chunk_hash(d), d.len() as u64)).collect();
                let said_root = merkleref::xorb_hash(&leaves);
                extra_claims.insert(inputs.len(), said_root);
                let foot = Footer::of(&frames, &hs, said_root, 1);
                let o = Obj { frames, gap: vec![], foot: Some(foot), trail: vec![], cut: None };
                inputs.push(Inp { base: usize::MAX, mutation: format!("overlong:{sname}:{declared}{extra:+}"), kind: "mut", data: o.bytes() });
            }
        }
    }
    // random byte strings, some of them made to look like a footer / a chunk
    for r in 0..nrandom {
        let len = match r % 4 {
            0 => rng.gen_range(0..16),
            1 => rng.gen_range(16..200),
            2 => rng.gen_range(90..400),
            _ => rng.gen_range(0..3000),
        };
        let mut d = vec![0u8; len];
        rng.fill_bytes(&mut d);
        match r % 5 {
            1 if len >= 8 => d[..7].copy_from_slice(&xorbenc::IDENT),
            2 if len >= 100 => {
                let l = len;
                d[l - 96..l - 89].copy_from_slice(&xorbenc::IDENT);
                d[l - 4..].copy_from_slice(&92u32.to_le_bytes());
            },
            3 if len >= 60 => {
                let l = len;
                d[l - 52..l - 45].copy_from_slice(&xorbenc::BIDENT);
                d[l - 45] = 1;
                d[l - 24..l - 20].copy_from_slice(&48u32.to_le_bytes());
            },
            4 if len >= 8 => {
                d[0] = 0;
                d[4] = (r % 3) as u8;
                d[2] = 0;
                d[3] = 0;
                d[6] = 0;
                d[7] = 0;
            },
            _ => {},
        }
        inputs.push(Inp { base: usize::MAX, mutation: format!("random#{r}"), kind: "mut", data: d });
    }

    // claimed hashes per input: the base's own hash, an unrelated one, what the input really decodes to, the hash its
    // footer names
    let mut cases = vec![];
    let mut analyses = vec![];
    for (ii, inp) in inputs.iter().enumerate() {
        let an = xorbenc::analyze(&inp.data);
        let own = if inp.base == usize::MAX { other_hash() } else { bases[inp.base].own };
        let mut hashes = vec![own, merkleref::chunk_hash(b"some other xorb")];
        if let Some(h) = extra_claims.get(&ii) {
            hashes.push(*h);
        }
        if an.dec && !hashes.contains(&an.root) {
            hashes.push(an.root);
        }
        if let Some(f) = &an.footer {
            if !hashes.contains(&f.hash) {
                hashes.push(f.hash);
            }
        }
        cases.push(Case { data: inp.data.clone(), hashes });
        analyses.push(an);
    }
    let (verdicts, notes) = run_cases(&dir, &cases, a.u64("lim", 512))?;
    let mut vc: HashMap<String, usize> = HashMap::new();
    let mut bad: Vec<Value> = vec![];
    let mut sample = vec![];
    let mut classes: HashMap<String, usize> = HashMap::new();
    for (i, inp) in inputs.iter().enumerate() {
        let v = &verdicts[i];
        let own = t.hid(&cases[i].hashes[0]);
        let (origin, bname) = if inp.base == usize::MAX { ("random", "-".to_string()) } else { (bases[inp.base].origin, format!("{}{}", bases[inp.base].kind, inp.base)) };
        *classes.entry(inp.mutation.split(['@', '#', ':']).next().unwrap_or("").to_string()).or_insert(0) += 1;
        let mut ev = vec![format!(
            "{{\"ev\":\"XfCase\",\"id\":{i},\"origin\":\"{origin}\",\"base\":\"{bname}\",\"mutation\":\"{}\",\"nbytes\":{},\"kind\":\"{}\",\"own\":{own},\"ref\":{},\"deser\":\"{}\",\"bounds\":\"{}\"}}",
            inp.mutation,
            inp.data.len(),
            inp.kind,
            ref_json(&analyses[i], &mut t),
            v[0],
            v[1]
        )];
        *vc.entry(format!("deser:{}", v[0])).or_insert(0) += 1;
        *vc.entry(format!("bounds:{}", v[1])).or_insert(0) += 1;
        for j in 0..cases[i].hashes.len() {
            let hid = t.hid(&cases[i].hashes[j]);
            ev.push(format!("{{\"ev\":\"XfCheck\",\"id\":{i},\"h\":{hid},\"seek\":\"{}\",\"stream\":\"{}\"}}", v[2 + 2 * j], v[3 + 2 * j]));
            *vc.entry(format!("seek:{}", v[2 + 2 * j])).or_insert(0) += 1;
            *vc.entry(format!("stream:{}", v[3 + 2 * j])).or_insert(0) += 1;
        }
        if v.iter().any(|x| x == "panic" || x == "abort" || x == "hang") && bad.len() < 12 {
            let hex: String = inp.data.iter().take(400).map(|b| format!("{b:02x}")).collect();
            bad.push(json!({"id": i, "origin": origin, "base": bname, "mutation": inp.mutation, "nbytes": inp.data.len(), "verdicts": v, "hex_prefix": hex}));
            let _ = std::fs::write(format!("{dir}/bad_input_{i}.bin"), &inp.data);
        }
        if sample.is_empty() && inp.kind == "mut" {
            sample = ev.clone();
        }
        out.run(&ev)?;
    }
    let (runs, events) = out.finish()?;
    Ok(json!({
        "runs": runs, "events": events, "inputs": inputs.len(), "bases": bases.iter().map(|b| json!({"origin": b.origin, "kind": b.kind, "nbytes": b.bytes.len()})).collect::<Vec<_>>(),
        "input_classes": classes, "verdicts": vc, "crashes": bad, "child_notes": notes.iter().take(12).collect::<Vec<_>>(), "sample": sample,
    })
    .to_string())
}

pub fn run(a: &Args) -> anyhow::Result<String> {
    match a.str("mode", "rt").as_str() {
        "rt" => run_rt(a),
        "scn" => run_scn(a),
        "faults" => run_faults(a),
        "child" => run_child(a),
        other => anyhow::bail!("unknown mode {other}"),
    }
}
