//! Independent reference implementation of the published hash constructions (blake3 as the only primitive).
pub type H = [u8; 32];

pub const DATA_KEY: [u8; 32] = [
    102, 151, 245, 119, 91, 149, 80, 222, 49, 53, 203, 172, 165, 151, 24, 28, 157, 228, 33, 16, 155, 235, 43, 88, 180, 208,
    176, 75, 147, 173, 242, 41,
];
pub const INTERNAL_NODE_KEY: [u8; 32] = [
    1, 126, 197, 199, 165, 71, 41, 150, 253, 148, 102, 102, 180, 138, 2, 230, 93, 221, 83, 111, 55, 199, 109, 210, 248, 99,
    82, 230, 74, 83, 113, 63,
];
pub const VERIFICATION_KEY: [u8; 32] = [
    127, 24, 87, 214, 206, 86, 237, 102, 18, 127, 249, 19, 231, 165, 195, 243, 164, 205, 38, 213, 181, 219, 73, 230, 65, 36,
    152, 127, 40, 251, 148, 195,
];

pub fn chunk_hash(data: &[u8]) -> H {
    *blake3::keyed_hash(&DATA_KEY, data).as_bytes()
}

fn word(h: &H, i: usize) -> u64 {
    u64::from_le_bytes(h[8 * i..8 * i + 8].try_into().unwrap())
}

pub fn hex(h: &H) -> String {
    format!("{:016x}{:016x}{:016x}{:016x}", word(h, 0), word(h, 1), word(h, 2), word(h, 3))
}

fn parent(children: &[(H, u64)]) -> (H, u64) {
    let mut buf = String::new();
    let mut total = 0u64;
    for (h, n) in children {
        buf.push_str(&format!("{} : {}\n", hex(h), n));
        total += n;
    }
    (*blake3::keyed_hash(&INTERNAL_NODE_KEY, buf.as_bytes()).as_bytes(), total)
}

/// Group boundaries of one level: a group is closed after node i when it already holds >= 2 nodes and the node's last
/// hash word is a multiple of 4, or it already holds 8 nodes, or i is the last node.
pub fn groups(nodes: &[(H, u64)]) -> Vec<(usize, usize)> {
    let mut out = vec![];
    let mut start = 0;
    for (i, (h, _)) in nodes.iter().enumerate() {
        let k = i - start;
        if (k >= 2 && word(h, 3) % 4 == 0) || k >= 8 || i + 1 == nodes.len() {
            out.push((start, i + 1));
            start = i + 1;
        }
    }
    out
}

/// Root of the aggregation tree over (hash, length) leaves; a single leaf is its own root; None for no leaves.
pub fn root(leaves: &[(H, u64)]) -> Option<H> {
    if leaves.is_empty() {
        return None;
    }
    let mut level: Vec<(H, u64)> = leaves.to_vec();
    while level.len() > 1 {
        level = groups(&level).into_iter().map(|(a, b)| parent(&level[a..b])).collect();
    }
    Some(level[0].0)
}

pub fn xorb_hash(leaves: &[(H, u64)]) -> H {
    root(leaves).unwrap_or([0u8; 32])
}

pub fn file_hash(leaves: &[(H, u64)], salt: &[u8; 32]) -> H {
    match root(leaves) {
        None => [0u8; 32],
        Some(r) => *blake3::keyed_hash(salt, &r).as_bytes(),
    }
}

pub fn range_hash(chunk_hashes: &[H]) -> H {
    let mut buf = vec![];
    for h in chunk_hashes {
        buf.extend_from_slice(h);
    }
    *blake3::keyed_hash(&VERIFICATION_KEY, &buf).as_bytes()
}
