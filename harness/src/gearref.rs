//! Independent reference implementation of the published gear-hash chunking rule (uses only the gear table of
//! the `gearhash` crate as a primitive).
//!
//! A chunk ends after byte j (0-based offset within the chunk) iff j + 1 == max, or the rolling hash
//! h = (h << 1) + TABLE[b], fed with every byte from offset `skip` on (skip = min - 64 - 1 when min > 64, else 0)
//! and reset to 0 at every boundary, satisfies h & mask == 0.  The stream's tail is flushed as a last chunk.
pub struct Params {
    pub min: usize,
    pub max: usize,
    pub mask: u64,
}

impl Params {
    pub fn new(target: usize, divisor: usize, multiplier: usize) -> Self {
        let m = (target - 1) as u64;
        Params {
            min: target / divisor,
            max: target * multiplier,
            mask: m << m.leading_zeros(),
        }
    }
    pub fn from_env() -> Self {
        let get = |n: &str, d: usize| std::env::var(format!("HF_XET_{n}")).ok().and_then(|v| v.parse().ok()).unwrap_or(d);
        Self::new(get("TARGET_CHUNK_SIZE", 64 * 1024), get("MINIMUM_CHUNK_DIVISOR", 8), get("MAXIMUM_CHUNK_MULTIPLIER", 2))
    }
    fn skip(&self) -> usize {
        if self.min > 64 {
            self.min - 64 - 1
        } else {
            0
        }
    }
}

/// Length of the first chunk of `data` (None if no boundary occurs inside `data`).
pub fn first_chunk(p: &Params, data: &[u8]) -> Option<usize> {
    let mut h: u64 = 0;
    for (j, b) in data.iter().enumerate() {
        if j >= p.skip() {
            h = (h << 1).wrapping_add(gearhash::DEFAULT_TABLE[*b as usize]);
            if h & p.mask == 0 {
                return Some(j + 1);
            }
        }
        if j + 1 == p.max {
            return Some(j + 1);
        }
    }
    None
}

/// Chunk lengths of a whole stream.
pub fn chunk_lengths(p: &Params, data: &[u8]) -> Vec<usize> {
    let mut out = vec![];
    let mut pos = 0;
    while pos < data.len() {
        match first_chunk(p, &data[pos..]) {
            Some(n) => {
                out.push(n);
                pos += n;
            },
            None => {
                out.push(data.len() - pos);
                pos = data.len();
            },
        }
    }
    out
}
