//! xv - conformance harness binding the TLA+ specification in /verif/specs to the crates of /repo.
//!
//! usage: xv <driver> [key=value ...]
//! Every driver writes ndjson traces (one event per line, `{"ev":"reset"}` between runs) to `out=<path>` and a
//! small JSON summary to stdout.  Panics, hangs and errors of the code under test are recorded as events.
mod ctl;
mod drivers;
mod util;
mod gearref;
mod merkleref;
mod intern;
mod httpd;
mod xorbenc;

fn main() {
    let args: Vec<String> = std::env::args().collect();
    if args.len() < 2 {
        eprintln!("usage: xv <driver> [key=value ...]");
        std::process::exit(2);
    }
    let a = util::Args::parse(&args[2..]);
    let r = match args[1].as_str() {
        "singleflight" => drivers::singleflight::run(&a),
        "chunkcache" => drivers::chunkcache::run(&a),
        "upload" => drivers::upload::run(&a),
        "xorb" => drivers::xorb::run(&a),
        "chunker" => drivers::chunker::run(&a),
        "merkle" => drivers::merkle::run(&a),
        "shard" => drivers::shard::run(&a),
        "atomicfs" => drivers::atomicfs::run(&a),
        "shardmgr" => drivers::shardmgr::run(&a),
        "reconstruct" => drivers::reconstruct::run(&a),
        "parfor" => drivers::parfor::run(&a),
        other => {
            eprintln!("unknown driver {other}");
            std::process::exit(2);
        },
    };
    match r {
        Ok(summary) => {
            println!("{}", summary);
        },
        Err(e) => {
            eprintln!("xv: tool error: {e:?}");
            std::process::exit(2);
        },
    }
}
