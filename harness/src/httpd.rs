//! Minimal std-only HTTP/1.1 server on 127.0.0.1 (one thread per connection, `Connection: close`), enough to play the
//! CAS reconstruction endpoint and a blob store answering `Range` requests for the reconstruction driver (C17).
use std::io::{Read, Write};
use std::net::{TcpListener, TcpStream};
use std::sync::atomic::{AtomicBool, Ordering};
use std::sync::Arc;
use std::time::Duration;

pub struct Request {
    pub method: String,
    pub path: String,
    pub headers: Vec<(String, String)>,
    /// the request body (read when a Content-Length is given; uploads of the CAS client)
    pub body: Vec<u8>,
}

impl Request {
    pub fn header(&self, name: &str) -> Option<&str> {
        self.headers.iter().find(|(k, _)| k.eq_ignore_ascii_case(name)).map(|(_, v)| v.as_str())
    }
}

pub struct Response {
    pub status: u16,
    pub content_type: &'static str,
    pub body: Vec<u8>,
    pub headers: Vec<(String, String)>,
    /// the answer is held back this long (steers the completion order of concurrent downloads)
    pub delay_ms: u64,
}

impl Response {
    pub fn new(status: u16, content_type: &'static str, body: Vec<u8>) -> Self {
        Self { status, content_type, body, headers: vec![], delay_ms: 0 }
    }
    pub fn text(status: u16, msg: &str) -> Self {
        Self::new(status, "text/plain", msg.as_bytes().to_vec())
    }
}

pub type Handler = dyn Fn(&Request) -> Response + Send + Sync;

pub struct Httpd {
    pub port: u16,
    stop: Arc<AtomicBool>,
    /// connections accepted and not yet answered (a request may outlive the client call that sent it)
    pub active: Arc<std::sync::atomic::AtomicUsize>,
}

/// `a-b` or `bytes=a-b`, both ends inclusive
pub fn parse_range(v: &str) -> Option<(u64, u64)> {
    let v = v.trim();
    let v = v.strip_prefix("bytes=").unwrap_or(v);
    let (a, b) = v.split_once('-')?;
    Some((a.trim().parse().ok()?, b.trim().parse().ok()?))
}

fn reason(status: u16) -> &'static str {
    match status {
        200 => "OK",
        206 => "Partial Content",
        400 => "Bad Request",
        403 => "Forbidden",
        404 => "Not Found",
        416 => "Range Not Satisfiable",
        _ => "Status",
    }
}

fn serve(mut s: TcpStream, handler: Arc<Handler>) {
    let _ = s.set_read_timeout(Some(Duration::from_secs(5)));
    let _ = s.set_write_timeout(Some(Duration::from_secs(5)));
    let mut buf = Vec::new();
    let mut tmp = [0u8; 2048];
    while !buf.windows(4).any(|w| w == b"\r\n\r\n") {
        match s.read(&mut tmp) {
            Ok(0) | Err(_) => return,
            Ok(n) => buf.extend_from_slice(&tmp[..n]),
        }
        if buf.len() > 1 << 26 {
            return;
        }
    }
    let head_len = buf.windows(4).position(|w| w == b"\r\n\r\n").map(|p| p + 4).unwrap_or(buf.len());
    let head = String::from_utf8_lossy(&buf[..head_len]).to_string();
    let mut lines = head.split("\r\n");
    let first = lines.next().unwrap_or("");
    let mut it = first.split(' ');
    let mut req = Request {
        method: it.next().unwrap_or("").to_string(),
        path: it.next().unwrap_or("").to_string(),
        headers: lines
            .take_while(|l| !l.is_empty())
            .filter_map(|l| l.split_once(':').map(|(k, v)| (k.trim().to_string(), v.trim().to_string())))
            .collect(),
        body: vec![],
    };
    if let Some(n) = req.header("content-length").and_then(|v| v.parse::<usize>().ok()) {
        let head_end = buf.windows(4).position(|w| w == b"\r\n\r\n").map(|p| p + 4).unwrap_or(buf.len());
        let mut body = buf[head_end..].to_vec();
        while body.len() < n {
            match s.read(&mut tmp) {
                Ok(0) | Err(_) => return,
                Ok(k) => body.extend_from_slice(&tmp[..k]),
            }
        }
        body.truncate(n);
        req.body = body;
    }
    let resp = handler(&req);
    if resp.delay_ms > 0 {
        std::thread::sleep(Duration::from_millis(resp.delay_ms));
    }
    let mut out = format!(
        "HTTP/1.1 {} {}\r\nContent-Type: {}\r\nContent-Length: {}\r\nConnection: close\r\n",
        resp.status,
        reason(resp.status),
        resp.content_type,
        resp.body.len()
    );
    for (k, v) in &resp.headers {
        out.push_str(&format!("{k}: {v}\r\n"));
    }
    out.push_str("\r\n");
    let _ = s.write_all(out.as_bytes());
    // every third response leaves in small pieces (own TCP segments): the client's streaming decoders see frames and
    // headers that are cut at arbitrary places, as on a real network
    static SERVED: std::sync::atomic::AtomicUsize = std::sync::atomic::AtomicUsize::new(0);
    let k = SERVED.fetch_add(1, std::sync::atomic::Ordering::Relaxed);
    if k % 3 == 1 && !resp.body.is_empty() {
        let _ = s.set_nodelay(true);
        let _ = s.flush();
        let sizes: &[usize] = if resp.body.len() <= 1 << 16 { &[1, 7, 8, 9, 3, 64, 5, 1000, 2, 4] } else { &[4096, 1, 8191, 7] };
        let (mut pos, mut i) = (0usize, k);
        while pos < resp.body.len() {
            let n = sizes[i % sizes.len()].min(resp.body.len() - pos);
            if s.write_all(&resp.body[pos..pos + n]).is_err() {
                break;
            }
            let _ = s.flush();
            pos += n;
            i += 1;
            if i % 4 == 0 {
                std::thread::yield_now();
            }
        }
    } else {
        let _ = s.write_all(&resp.body);
    }
    let _ = s.flush();
    let _ = s.shutdown(std::net::Shutdown::Write);
    // let the peer see the end of the stream before the socket goes away
    let _ = s.read(&mut tmp);
}

impl Httpd {
    pub fn start(handler: Arc<Handler>) -> std::io::Result<Self> {
        let listener = TcpListener::bind("127.0.0.1:0")?;
        let port = listener.local_addr()?.port();
        let stop = Arc::new(AtomicBool::new(false));
        let stop2 = stop.clone();
        let active = Arc::new(std::sync::atomic::AtomicUsize::new(0));
        let active2 = active.clone();
        std::thread::Builder::new().name("httpd".into()).spawn(move || {
            for conn in listener.incoming() {
                if stop2.load(Ordering::SeqCst) {
                    break;
                }
                if let Ok(s) = conn {
                    let h = handler.clone();
                    let act = active2.clone();
                    act.fetch_add(1, Ordering::SeqCst);
                    let _ = std::thread::Builder::new().name("httpd-conn".into()).spawn(move || {
                        serve(s, h);
                        act.fetch_sub(1, Ordering::SeqCst);
                    });
                }
            }
        })?;
        Ok(Self { port, stop, active })
    }

    pub fn base(&self) -> String {
        format!("http://127.0.0.1:{}", self.port)
    }
}

impl Drop for Httpd {
    fn drop(&mut self) {
        self.stop.store(true, Ordering::SeqCst);
        // unblock accept()
        let _ = TcpStream::connect(("127.0.0.1", self.port));
    }
}
