//! Interning tables: the specification never sees a byte string or a 256-bit value, only small ids.
use std::collections::HashMap;

#[derive(Default)]
pub struct Interner {
    by_key: HashMap<Vec<u8>, i64>,
    next: i64,
}

impl Interner {
    pub fn new() -> Self {
        Self { by_key: HashMap::new(), next: 1 }
    }
    /// id of the value, allocating a fresh one for a value never seen before
    pub fn id(&mut self, v: &[u8]) -> i64 {
        if let Some(i) = self.by_key.get(v) {
            return *i;
        }
        let i = self.next;
        self.next += 1;
        self.by_key.insert(v.to_vec(), i);
        i
    }
    pub fn get(&self, v: &[u8]) -> Option<i64> {
        self.by_key.get(v).copied()
    }
    pub fn set(&mut self, v: &[u8], id: i64) {
        self.by_key.insert(v.to_vec(), id);
        if id >= self.next {
            self.next = id + 1;
        }
    }
    pub fn len(&self) -> usize {
        self.by_key.len()
    }
}
