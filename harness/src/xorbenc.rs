//! Independent encoder / decoder / analyser of the xorb wire format.  Shares no code with `cas_object`: the layout
//! is written down here from the format description (chunk frames of an 8-byte header + payload, footer v1 with
//! hash section and boundary section, legacy footer v0, trailing info length).  LZ4 frames (lz4_flex) and blake3
//! (through `merkleref`) are the only primitives.
use std::io::{Read, Write};

use crate::merkleref::{self, H};

pub const IDENT: [u8; 7] = *b"XETBLOB";
pub const HIDENT: [u8; 7] = *b"XBLBHSH";
pub const BIDENT: [u8; 7] = *b"XBLBBND";
pub const MAX_ULEN: u32 = 128 * 1024;
pub const MAX_CLEN: u32 = 256 * 1024;
pub const NONE: u8 = 0;
pub const LZ4: u8 = 1;
pub const BG4: u8 = 2;

// ------------------------------------------------------------------------------------------------ codecs
/// byte grouping: all bytes at positions = 0 mod 4, then = 1 mod 4, = 2 mod 4, = 3 mod 4
pub fn bg4_split(data: &[u8]) -> Vec<u8> {
    let mut out = Vec::with_capacity(data.len());
    for r in 0..4 {
        let mut i = r;
        while i < data.len() {
            out.push(data[i]);
            i += 4;
        }
    }
    out
}

pub fn bg4_regroup(g: &[u8]) -> Vec<u8> {
    let n = g.len();
    let mut out = vec![0u8; n];
    let mut src = 0;
    for r in 0..4 {
        let mut i = r;
        while i < n {
            out[i] = g[src];
            src += 1;
            i += 4;
        }
    }
    out
}

pub fn lz4(data: &[u8]) -> Vec<u8> {
    let mut enc = lz4_flex::frame::FrameEncoder::new(Vec::new());
    enc.write_all(data).expect("lz4 write");
    enc.finish().expect("lz4 finish")
}

pub fn unlz4(data: &[u8]) -> Option<Vec<u8>> {
    let mut out = Vec::new();
    let mut dec = lz4_flex::frame::FrameDecoder::new(data);
    match dec.read_to_end(&mut out) {
        Ok(_) => Some(out),
        Err(_) => None,
    }
}

pub fn compress(scheme: u8, data: &[u8]) -> Vec<u8> {
    match scheme {
        NONE => data.to_vec(),
        LZ4 => lz4(data),
        BG4 => lz4(&bg4_split(data)),
        _ => panic!("no such scheme"),
    }
}

pub fn decompress(scheme: u8, data: &[u8]) -> Option<Vec<u8>> {
    match scheme {
        NONE => Some(data.to_vec()),
        LZ4 => unlz4(data),
        BG4 => unlz4(data).map(|g| bg4_regroup(&g)),
        _ => None,
    }
}

// ------------------------------------------------------------------------------------------------ structured object
fn put3(out: &mut Vec<u8>, v: u32) {
    out.extend_from_slice(&v.to_le_bytes()[..3]);
}
fn put4(out: &mut Vec<u8>, v: u32) {
    out.extend_from_slice(&v.to_le_bytes());
}

#[derive(Clone, Debug)]
pub struct Frame {
    pub ver: u8,
    pub clen: u32,
    pub scheme: u8,
    pub ulen: u32,
    pub payload: Vec<u8>,
}

impl Frame {
    /// the frame for `data` under `scheme`: stored uncompressed when compression does not make it strictly smaller
    pub fn encode(data: &[u8], scheme: u8) -> Frame {
        let c = compress(scheme, data);
        let (scheme, payload) = if c.len() >= data.len() { (NONE, data.to_vec()) } else { (scheme, c) };
        Frame { ver: 0, clen: payload.len() as u32, scheme, ulen: data.len() as u32, payload }
    }
    pub fn write(&self, out: &mut Vec<u8>) {
        out.push(self.ver);
        put3(out, self.clen);
        out.push(self.scheme);
        put3(out, self.ulen);
        out.extend_from_slice(&self.payload);
    }
    pub fn size(&self) -> u32 {
        8 + self.payload.len() as u32
    }
}

#[derive(Clone, Debug)]
pub struct Footer {
    pub form: u8, // physical layout: 1 = v1, 0 = v0
    pub ident: [u8; 7],
    pub ver: u8,
    pub hash: H,
    pub hident: [u8; 7],
    pub hver: u8,
    pub n1: u32,
    pub hashes: Vec<H>,
    pub bident: [u8; 7],
    pub bver: u8,
    pub n2: u32,
    pub bounds: Vec<u32>,
    pub unpacked: Vec<u32>,
    pub n3: u32,
    pub hoff: u32,
    pub boff: u32,
    pub buffer: [u8; 16],
    pub info_len: u32,
}

impl Footer {
    /// the consistent footer of the given frames (as they are: header fields are taken at face value)
    pub fn of(frames: &[Frame], chunk_hashes: &[H], root: H, form: u8) -> Footer {
        let n = frames.len() as u32;
        let mut bounds = vec![];
        let mut unpacked = vec![];
        let (mut b, mut u) = (0u32, 0u32);
        for f in frames {
            b += 8 + f.clen;
            u += f.ulen;
            bounds.push(b);
            unpacked.push(u);
        }
        let mut ft = Footer {
            form,
            ident: IDENT,
            ver: form,
            hash: root,
            hident: HIDENT,
            hver: 0,
            n1: n,
            hashes: chunk_hashes.to_vec(),
            bident: BIDENT,
            bver: 1,
            n2: n,
            bounds,
            unpacked,
            n3: n,
            hoff: 0,
            boff: 0,
            buffer: [0u8; 16],
            info_len: 0,
        };
        ft.fix_offsets();
        ft
    }
    /// section offsets and info length as they follow from the arrays actually present
    pub fn fix_offsets(&mut self) {
        if self.form == 1 {
            self.boff = 40 + 4 * (self.bounds.len() + self.unpacked.len()) as u32;
            self.hoff = 12 + 32 * self.hashes.len() as u32 + self.boff;
            self.info_len = 40 + self.hoff;
        } else {
            self.info_len = 60 + 4 * self.bounds.len() as u32 + 32 * self.hashes.len() as u32;
        }
    }
    pub fn write(&self, out: &mut Vec<u8>) {
        out.extend_from_slice(&self.ident);
        out.push(self.ver);
        out.extend_from_slice(&self.hash);
        if self.form == 1 {
            out.extend_from_slice(&self.hident);
            out.push(self.hver);
            put4(out, self.n1);
            for h in &self.hashes {
                out.extend_from_slice(h);
            }
            out.extend_from_slice(&self.bident);
            out.push(self.bver);
            put4(out, self.n2);
            for b in &self.bounds {
                put4(out, *b);
            }
            for u in &self.unpacked {
                put4(out, *u);
            }
            put4(out, self.n3);
            put4(out, self.hoff);
            put4(out, self.boff);
            out.extend_from_slice(&self.buffer);
        } else {
            put4(out, self.n1);
            for b in &self.bounds {
                put4(out, *b);
            }
            for h in &self.hashes {
                out.extend_from_slice(h);
            }
            out.extend_from_slice(&self.buffer);
        }
        put4(out, self.info_len);
    }
}

#[derive(Clone, Debug)]
pub struct Obj {
    pub frames: Vec<Frame>,
    pub gap: Vec<u8>,
    pub foot: Option<Footer>,
    pub trail: Vec<u8>,
    /// keep only this many bytes of the encoding
    pub cut: Option<usize>,
}

/// footer forms: 1 = v1, 0 = legacy v0, 2 = no footer
pub const FORM_NONE: u8 = 2;

impl Obj {
    pub fn build(chunks: &[(&[u8], u8)], form: u8) -> Obj {
        let frames: Vec<Frame> = chunks.iter().map(|(d, s)| Frame::encode(d, *s)).collect();
        let mut o = Obj { frames, gap: vec![], foot: None, trail: vec![], cut: None };
        let hs: Vec<H> = chunks.iter().map(|(d, _)| merkleref::chunk_hash(d)).collect();
        let leaves: Vec<(H, u64)> = chunks.iter().map(|(d, _)| (merkleref::chunk_hash(d), d.len() as u64)).collect();
        if form != FORM_NONE {
            o.foot = Some(Footer::of(&o.frames, &hs, merkleref::xorb_hash(&leaves), form));
        }
        o
    }
    pub fn frames_len(&self) -> usize {
        self.frames.iter().map(|f| f.size() as usize).sum()
    }
    pub fn bytes(&self) -> Vec<u8> {
        let mut out = vec![];
        for f in &self.frames {
            f.write(&mut out);
        }
        out.extend_from_slice(&self.gap);
        if let Some(ft) = &self.foot {
            ft.write(&mut out);
        }
        out.extend_from_slice(&self.trail);
        if let Some(c) = self.cut {
            out.truncate(c);
        }
        out
    }
}

// ------------------------------------------------------------------------------------------------ analysis
#[derive(Clone, Debug, Default)]
pub struct Hdr {
    pub ver: u8,
    pub clen: u32,
    pub scheme: u8,
    pub ulen: u32,
    pub start: usize,
}

#[derive(Clone, Debug)]
pub struct Analysis {
    /// every frame up to the footer marker / end of input decodes and respects the format limits
    pub dec: bool,
    pub headers: Vec<Hdr>,
    pub chunks: Vec<Vec<u8>>,
    pub leaves: Vec<(H, u64)>,
    pub root: H,
    /// "ok" consistent v1 footer | "none" input ends after the last frame | "v0ok" consistent legacy footer |
    /// "v0ign" legacy marker followed by anything else | "bad"
    pub foot: &'static str,
    /// the 8 bytes after the last frame are the footer marker with version 1
    pub v1foot: bool,
    pub footer: Option<Footer>,
    pub frames_end: usize,
}

fn rd3(b: &[u8]) -> u32 {
    u32::from_le_bytes([b[0], b[1], b[2], 0])
}
fn rd4(b: &[u8], off: &mut usize) -> Option<u32> {
    if *off + 4 > b.len() {
        return None;
    }
    let v = u32::from_le_bytes(b[*off..*off + 4].try_into().unwrap());
    *off += 4;
    Some(v)
}
fn rdn<'a>(b: &'a [u8], off: &mut usize, n: usize) -> Option<&'a [u8]> {
    if *off + n > b.len() {
        return None;
    }
    let s = &b[*off..*off + n];
    *off += n;
    Some(s)
}

/// Parses a v1 footer laid out from `off` to the end of `b` (no consistency judgement; None if it does not fit
/// exactly).
pub fn parse_v1(b: &[u8], mut off: usize) -> Option<Footer> {
    let o = &mut off;
    let start = *o;
    let ident: [u8; 7] = rdn(b, o, 7)?.try_into().unwrap();
    let ver = rdn(b, o, 1)?[0];
    let hash: H = rdn(b, o, 32)?.try_into().unwrap();
    let hident: [u8; 7] = rdn(b, o, 7)?.try_into().unwrap();
    let hver = rdn(b, o, 1)?[0];
    let n1 = rd4(b, o)?;
    if (n1 as usize).checked_mul(32)? > b.len() {
        return None;
    }
    let mut hashes = vec![];
    for _ in 0..n1 {
        hashes.push(rdn(b, o, 32)?.try_into().unwrap());
    }
    let bident: [u8; 7] = rdn(b, o, 7)?.try_into().unwrap();
    let bver = rdn(b, o, 1)?[0];
    let n2 = rd4(b, o)?;
    if (n2 as usize).checked_mul(8)? > b.len() {
        return None;
    }
    let mut bounds = vec![];
    for _ in 0..n2 {
        bounds.push(rd4(b, o)?);
    }
    let mut unpacked = vec![];
    for _ in 0..n2 {
        unpacked.push(rd4(b, o)?);
    }
    let n3 = rd4(b, o)?;
    let hoff = rd4(b, o)?;
    let boff = rd4(b, o)?;
    let buffer: [u8; 16] = rdn(b, o, 16)?.try_into().unwrap();
    let end = *o;
    let info_len = rd4(b, o)?;
    if *o != b.len() || end < start {
        return None;
    }
    Some(Footer { form: 1, ident, ver, hash, hident, hver, n1, hashes, bident, bver, n2, bounds, unpacked, n3, hoff, boff, buffer, info_len })
}

pub fn parse_v0(b: &[u8], mut off: usize) -> Option<Footer> {
    let o = &mut off;
    let ident: [u8; 7] = rdn(b, o, 7)?.try_into().unwrap();
    let ver = rdn(b, o, 1)?[0];
    let hash: H = rdn(b, o, 32)?.try_into().unwrap();
    let n1 = rd4(b, o)?;
    if (n1 as usize).checked_mul(36)? > b.len() {
        return None;
    }
    let mut bounds = vec![];
    for _ in 0..n1 {
        bounds.push(rd4(b, o)?);
    }
    let mut hashes = vec![];
    for _ in 0..n1 {
        hashes.push(rdn(b, o, 32)?.try_into().unwrap());
    }
    let buffer: [u8; 16] = rdn(b, o, 16)?.try_into().unwrap();
    let info_len = rd4(b, o)?;
    if *o != b.len() {
        return None;
    }
    Some(Footer {
        form: 0,
        ident,
        ver,
        hash,
        hident: HIDENT,
        hver: 0,
        n1,
        hashes,
        bident: BIDENT,
        bver: 1,
        n2: n1,
        bounds,
        unpacked: vec![],
        n3: n1,
        hoff: 0,
        boff: 0,
        buffer,
        info_len,
    })
}

/// Sequential, strict reading of a byte string as a xorb.
pub fn analyze(b: &[u8]) -> Analysis {
    let mut a = Analysis {
        dec: true,
        headers: vec![],
        chunks: vec![],
        leaves: vec![],
        root: [0u8; 32],
        foot: "bad",
        v1foot: false,
        footer: None,
        frames_end: 0,
    };
    let mut off = 0usize;
    let mut marker: Option<u8> = None;
    loop {
        let rem = b.len() - off;
        if rem == 0 {
            a.foot = "none";
            break;
        }
        if rem < 8 {
            // neither a chunk header nor a footer marker fits
            a.dec = false;
            break;
        }
        if b[off..off + 7] == IDENT {
            marker = Some(b[off + 7]);
            break;
        }
        let h = Hdr { ver: b[off], clen: rd3(&b[off + 1..off + 4]), scheme: b[off + 4], ulen: rd3(&b[off + 5..off + 8]), start: off };
        if h.ver != 0 || h.scheme > 2 || h.clen > MAX_CLEN || h.ulen > MAX_ULEN || rem < 8 + h.clen as usize {
            a.dec = false;
            break;
        }
        let payload = &b[off + 8..off + 8 + h.clen as usize];
        let data = std::panic::catch_unwind(|| decompress(h.scheme, payload)).unwrap_or(None);
        match data {
            Some(d) if d.len() == h.ulen as usize => {
                a.leaves.push((merkleref::chunk_hash(&d), d.len() as u64));
                a.chunks.push(d);
            },
            _ => {
                a.dec = false;
                break;
            },
        }
        off += 8 + h.clen as usize;
        a.headers.push(h);
    }
    a.frames_end = off;
    a.root = merkleref::xorb_hash(&a.leaves);
    if !a.dec {
        a.foot = "bad";
        return a;
    }
    let n = a.headers.len();
    let mut bounds = vec![];
    let mut unpacked = vec![];
    let (mut bb, mut uu) = (0u32, 0u32);
    for h in &a.headers {
        bb += 8 + h.clen;
        uu += h.ulen;
        bounds.push(bb);
        unpacked.push(uu);
    }
    let hashes: Vec<H> = a.leaves.iter().map(|l| l.0).collect();
    match marker {
        None => {},
        Some(1) => {
            a.v1foot = true;
            a.foot = "bad";
            if let Some(f) = parse_v1(b, off) {
                let boff = 40 + 8 * n as u32;
                let hoff = 12 + 32 * n as u32 + boff;
                if f.hash == a.root
                    && f.hident == HIDENT
                    && f.hver == 0
                    && f.n1 as usize == n
                    && f.hashes == hashes
                    && f.bident == BIDENT
                    && f.bver == 1
                    && f.n2 as usize == n
                    && f.bounds == bounds
                    && f.unpacked == unpacked
                    && f.n3 as usize == n
                    && f.hoff == hoff
                    && f.boff == boff
                    && f.info_len == 40 + hoff
                {
                    a.foot = "ok";
                }
                a.footer = Some(f);
            }
        },
        Some(0) => {
            a.foot = "v0ign";
            if let Some(f) = parse_v0(b, off) {
                if f.hash == a.root && f.n1 as usize == n && f.bounds == bounds && f.hashes == hashes && f.info_len == 60 + 36 * n as u32 {
                    a.foot = "v0ok";
                }
                a.footer = Some(f);
            }
        },
        Some(_) => {
            a.foot = "bad";
        },
    }
    a
}
