#!/bin/bash
# refresh every evidence file: runs all claimed checks (quick tier), a few at a time
cd "$(dirname "$0")/.."
tier=${1:-quick}
ids=$(python3 -c "import json;print(' '.join(c['property_id'] for c in json.load(open('MANIFEST.json'))['checks']))")
mkdir -p work/logs
( cd harness && cargo build --offline >/dev/null 2>&1 )
printf '%s\n' $ids | xargs -P 4 -I{} sh -c "bin/check {} --tier $tier > work/logs/{}.log 2>&1; echo {} rc=\$?"
