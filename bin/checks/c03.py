"""C03 A file's pointer (hash, size) depends only on its bytes and the salt."""
from checks import up_common

PROPS = ["C03"]


def check(ctx):
    import os
    import vlib
    up_common.run_all(ctx, PROPS, faults=1)
    # the same files under two salts, validated WITHOUT relaxing anything: the listed finding (empty file = zero hash
    # under every salt) must be the only rejection, and it is reported as KNOWN-FINDING through known_findings.txt
    t = os.path.join(vlib.WORK, "c03", "salts.ndjson")
    vlib.xv("upload", env=up_common.CONFIGS["A"], mode="salts", seed=ctx.seed, out=t)
    up_common.validate(ctx, t, "salts", PROPS, relax=())


def replay(ctx, path):
    return 0 if up_common.validate(ctx, path, "replay", PROPS) else 1
