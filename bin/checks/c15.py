"""C15 No xorb or chunk exceeds the configured and wire-format limits."""
from checks import up_common

PROPS = ["C15"]


def check(ctx):
    up_common.run_all(ctx, PROPS, faults=1)


def replay(ctx, path):
    return 0 if up_common.validate(ctx, path, "replay", PROPS) else 1
