"""C16 Shards follow their xorbs, and upload failures are never swallowed."""
from checks import up_common

PROPS = ["C16"]


def check(ctx):
    up_common.run_all(ctx, PROPS, faults=2)


def replay(ctx, path):
    return 0 if up_common.validate(ctx, path, "replay", PROPS) else 1
