"""C07 Xorb serialization round-trips for every chunk range and compression scheme."""
import os

import vlib
from checks import xorb_common as xc


def check(ctx):
    thorough = ctx.tier == "thorough"
    vlib.build_harness()
    w = vlib.workdir("c07")
    # the format model: RoundTrip (every range of every <= 3-chunk xorb reads back as the slice, offset arrays are
    # prefix sums of what was stored, fallback rule) together with the validator invariants
    xc.models(ctx, big=thorough)
    # negative control: the fallback comparing > instead of >= breaks "scheme none exactly when not smaller"
    ctx.model("MC_Xorb", "MC_Xorb_fallback.cfg", expect_violation="Invs", coverage=False)
    t = os.path.join(w, "rt.ndjson")
    s = vlib.xv("xorb", mode="rt", seed=ctx.seed, k=8 if thorough else 2, bigxorb=8192 if thorough else 2000, out=t, timeout=1500)
    ctx.sample({"recorded_trace_prefix": s["sample"]})
    xc.validate(ctx, t, "rt", timeout=3000)
    ctx.notes["driver_summary"] = {k: v for k, v in s.items() if k != "sample"}
    ctx.assumptions += [
        "LZ4 frame coding (lz4_flex) and blake3 are uninterpreted primitives: the sizes the compressors produce are inputs of the specification (computed by the harness's own byte-grouping + lz4_flex), decoded bytes are compared through interned content ids (bytes that equal no input chunk are id 0)",
        "the bytes written are read by the harness's independent parser (xorbenc); the specification compares its own object with that reading and with the CasObject returned / re-read by the code",
        "memory safety of the unsafe byte-grouping code is exercised (all residues mod 4, 1 B .. 128 KiB), not proved",
    ]
    if ctx.violations:
        return          # the vacuity counters below are meaningless once calls fail
    fs = s["frames_by_scheme"]
    xc.need(s, "every scheme must be observed in written frames", min(fs["none"], fs["lz4"], fs["bg4"]) > 0)
    xc.need(s, "the incompressible fallback must be exercised", s["fallback_to_none"] > 0)
    xc.need(s, "automatic selection must choose both schemes", s["auto_chose_bg4"] > 0 and s["auto_chose_lz4"] > 0)
    xc.need(s, "the boundary case compressed size = size must occur", s["lz4_len_equals_len"] > 0)
    xc.need(s, "chunk lengths must span 1 byte .. 128 KiB and every residue mod 4",
            s["min_chunk"] == 1 and s["max_chunk"] == 131072 and min(s["len_residues_mod4"]) > 0)
    xc.need(s, "ranges and decoders must have run", s["ranges"] > 100 and s["decodes"] > 100)


def replay(ctx, path):
    return 0 if xc.validate(ctx, os.path.abspath(path), "replay") else 1
