"""C20 Singleflight runs one task per key and every caller gets its outcome."""
import json
import os

import vlib

TRACE_CFG = """SPECIFICATION TraceSpec
CONSTANTS
  Callers = %s
  Keys = %s
  Outcomes = {"ok", "err", "panic"}
  Vals = {}
  LazyNotified = FALSE
  MaxCalls = 1000000
INVARIANT Safety
POSTCONDITION TraceAccepted
CHECK_DEADLOCK FALSE
"""


def trace_cfg(path):
    callers = vlib.trace_values(path, "actor", {"SfGetCall", "SfReturn"}) | vlib.trace_values(path, "who")
    keys = vlib.trace_values(path, "key", {"SfGetCall"})
    return TRACE_CFG % (vlib.cfg_set(callers or {"c1"}), vlib.cfg_set(keys or {"k1"}))


def validate(ctx, path, label):
    return ctx.validate("Trace_Singleflight", trace_cfg(path), path, label=label)


def check(ctx):
    thorough = ctx.tier == "thorough"
    vlib.build_harness()
    w = vlib.workdir("c20")
    # 1. design model: safety + liveness, exhaustive
    ctx.model("MC_Singleflight", "MC_Singleflight_small.cfg", must_cover=("GetCall", "GetFuture", "Remove", "Return"))
    if thorough:
        ctx.model("MC_Singleflight", "MC_Singleflight.cfg", timeout=3000)
    # negative control: registration deferred to the first poll loses a wake-up
    ctx.model("MC_Singleflight", "MC_Singleflight_lazy.cfg", expect_violation="NoWaitForever", coverage=False)
    # 2. all behaviours of the 2-caller model, replayed under gate control
    scn = ctx.generate("Gen_Singleflight", "Gen_Singleflight.cfg")
    if thorough:
        scn += ctx.generate("Gen_Singleflight", "Gen_Singleflight_sim.cfg", name="gen_sf_sim",
                            simulate="num=3000", extra="-depth 60 -seed %d" % ctx.seed)
    ctx.exhaustive = True
    ctx.notes["scenarios_generated"] = len(scn)
    sp = os.path.join(w, "scn.ndjson")
    with open(sp, "w") as f:
        for s in scn:
            f.write(json.dumps(s) + "\n")
    ctx.sample({"generated_scenario": scn[len(scn) // 2]})
    t1 = os.path.join(w, "sched_current.ndjson")
    r = vlib.xv("singleflight", mode="sched", rt="current", out=t1, **{"in": sp})
    if r["events"] < 5 * r["runs"]:
        raise vlib.ToolError("scenario replay recorded almost no events: %r" % r)
    ctx.notes["sched_steps_not_realised"] = r["sched_steps_skipped"]
    ctx.sample({"recorded_trace_prefix": r["sample"]})
    validate(ctx, t1, "sched-current")
    # a sample of the same scenarios on the multi-thread runtime
    step = max(1, len(scn) // (2000 if thorough else 300))
    sp2 = os.path.join(w, "scn_multi.ndjson")
    with open(sp2, "w") as f:
        for s in scn[ctx.seed % step::step]:
            f.write(json.dumps(s) + "\n")
    t2 = os.path.join(w, "sched_multi.ndjson")
    vlib.xv("singleflight", mode="sched", rt="multi", out=t2, **{"in": sp2})
    validate(ctx, t2, "sched-multi")
    # 3. random schedules with 2-4 callers and repeated calls, under gate control
    t3 = os.path.join(w, "random.ndjson")
    vlib.xv("singleflight", mode="random", n=2000 if thorough else 300, seed=ctx.seed, out=t3)
    validate(ctx, t3, "random")
    # 4. free-running storms on a 4-worker runtime
    t4 = os.path.join(w, "storm.ndjson")
    vlib.xv("singleflight", mode="storm", n=20 if thorough else 4, seed=ctx.seed, callers=32, keys=4, rounds=6, out=t4)
    validate(ctx, t4, "storm")
    # 5. one flight with a crowd of 65 535, 65 536, 65 537 (... ) callers, the counts where a 16-bit counter wraps: totals only
    t5 = os.path.join(w, "crowd.ndjson")
    vlib.xv("singleflight", mode="crowd", n=5 if thorough else 3, seed=ctx.seed, out=t5)
    validate(ctx, t5, "crowd")
    ctx.assumptions += [
        "tokio Notify::notify_waiters wakes exactly the Notified futures created before the call (modelled as the `registered` set)",
        "liveness on the code is a bounded-time observation: a caller that has not returned after 3 s of complete inactivity is a timeout event, which no spec action matches",
        "the task value is an integer chosen by the harness; outcome classes ok/err/panic",
    ]


def replay(ctx, path):
    ok = validate(ctx, path, "replay")
    return 0 if ok else 1


EVIDENCE = {}
