"""C06 Content hashes are stable pure functions and all code paths agree."""
import os

import vlib

TRACE_CFG = """SPECIFICATION TraceSpec
CONSTANTS
  MinK = 2
  MaxK = 8
  SliceOff = 0
POSTCONDITION TraceAccepted
CHECK_DEADLOCK FALSE
"""


def validate(ctx, path, label):
    return ctx.validate("Trace_MerkleTree", TRACE_CFG, path, label=label, header=1)


def add_counts(total, r):
    for k, v in r["counts"].items():
        total[k] = total.get(k, 0) + v


def models(ctx, thorough):
    # every leaf list of 1..10 leaves over two leaf kinds (all cut-bit patterns, repeated hashes, a zero length),
    # every choice of the parents' cut bits
    ctx.model("MC_MerkleTree", "MC_MerkleTree.cfg", must_cover=("Merge",))
    # negative controls: the `>= 2` guard dropped (levels stop shrinking); parent built from a slice that is one short
    ctx.model("MC_MerkleTree", "MC_MerkleTree_mink0.cfg", expect_violation="MCInvs", coverage=False)
    ctx.model("MC_MerkleTree", "MC_MerkleTree_slice.cfg", expect_violation="MCInvs", coverage=False)
    if thorough:
        ctx.model("MC_MerkleTree", "MC_MerkleTree_big.cfg", timeout=3400)


def check(ctx):
    models(ctx, ctx.tier == "thorough")
    drivers_only(ctx)


def drivers_only(ctx):
    thorough = ctx.tier == "thorough"
    vlib.build_harness()
    w = vlib.workdir("c06")
    k = 5 if thorough else 1
    counts = {}
    sizes = []
    # every cut-bit pattern of 1..N leaves realised as leaf hashes; the real tree of every list is walked
    t = os.path.join(w, "patterns.ndjson")
    r = vlib.xv("merkle", mode="patterns", maxn=11 if thorough else 8, stride=1, seed=ctx.seed, out=t)
    add_counts(counts, r)
    ctx.sample({"recorded_trace_prefix": r["sample"][:4]})
    validate(ctx, t, "patterns")
    ctx.exhaustive = thorough
    plan = [("random", dict(n=24 * k, big=20000)), ("data", dict(n=6 * k)), ("xorb", dict(n=40 * k))]
    # HashedWrite over a sink that accepts only part of a buffer per write call (std::io::Write allows short writes and
    # write_all retries with the rest); a trace of its own.  VERIF_C06_SHORT_SINK=0 leaves this probe out.
    if os.environ.get("VERIF_C06_SHORT_SINK", "1") != "0":
        plan.append(("sink", dict(n=5 * k)))
    ctx.notes["short_sink_probe"] = plan[-1][0] == "sink"
    for i, (mode, kw) in enumerate(plan):
        t = os.path.join(w, "%s.ndjson" % mode)
        r = vlib.xv("merkle", mode=mode, seed=ctx.seed + 100 * (i + 1), out=t, **kw)
        add_counts(counts, r)
        sizes += r.get("list_sizes", [])
        if mode == "xorb":
            ctx.sample({"xorb_validation_events": r["sample"][:2]})
        validate(ctx, t, mode)
    ctx.notes["event_counts"] = counts
    ctx.notes["list_sizes"] = sorted(sizes)
    need = ["trees", "groups_bit", "groups_bit3", "groups_full9", "groups_last", "groups_single", "bit_ignored_early", "roots",
            "file_roots", "ranges", "datas", "texts", "keyed", "xorbs", "variant:change", "variant:relen", "variant:swap",
            "variant:insert", "variant:drop", "variant:dup", "variant:again"]
    missing = [n for n in need if counts.get(n, 0) == 0]
    if missing:
        raise vlib.ToolError("vacuity: never exercised by the drivers: %s" % missing)
    if not sizes or max(sizes) < 20000 or min(sizes) > 1:
        raise vlib.ToolError("vacuity: list sizes %s do not span 1 .. 20000" % sorted(sizes))
    ctx.assumptions += [
        "blake3 is uninterpreted: hashes, salts, keys, byte strings and text forms are interned ids (equal value <=> equal id); 'different ids for different lists' is checked on everything seen in a run, it cannot be proved for all inputs",
        "the expected values come from an independent implementation of the published constructions in the harness (merkleref: keys and child-text format copied from the format description, blake3 as the only primitive)",
        "inside one chunk list the length and the cut bit are functions of the chunk hash (a hash determines its chunk); MerkleMemDB keeps one node per hash, so a list that repeats a hash with two different lengths is outside the domain",
        "the all-zero hash is not used as a leaf (MerkleMemDB reserves it for the empty node 0)",
        "lengths above 10^6 are interned ids in the trace (TLC integers are 32 bit); root length = sum of leaf lengths is checked by the recorder in 64-bit arithmetic",
    ]


def replay(ctx, path):
    return 0 if validate(ctx, path, "replay") else 1
