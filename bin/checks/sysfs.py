"""Syscall-level crash exploration for C19 (hook independent).

The operation runs in its own process under strace; its file-system-modifying system calls inside the watched
directory are projected to abstract events (AfSys: openw / write / rename / unlink / truncate / sync / meta / dir on
final, temporary or input names).  A fresh run of the same deterministic operation is then killed (strace fault
injection: SIGKILL on entry of the n-th traced system call, i.e. just before it takes effect) before every one of
these calls, and the surviving directory is re-opened and described by the real component (AfSysCrash).  The
resulting trace  AfStart (AfSysCrash AfSysRetry AfSys)* AfSysCrash AfEnd  is validated by Trace_AtomicFs.tla.
AfSysRetry describes a copy of the killed run's directory in which the next process has run an operation of the same
kind (on other, smaller data) to completion: "after any prior history" includes the history that ends with a crash."""
import base64
import json
import os
import re
import shutil
import subprocess

import vlib

SET = ("openat,open,creat,write,pwrite64,writev,pwritev,rename,renameat,renameat2,unlink,unlinkat,rmdir,mkdir,mkdirat,"
       "link,linkat,symlink,symlinkat,ftruncate,truncate,fallocate,copy_file_range,sendfile,chmod,fchmod,fchmodat,"
       "fsync,fdatasync")
LINE = re.compile(r"^(\d+)\s+(.*)$")
CALL = re.compile(r"^(\w+)\((.*)\)\s+= (-?\d+|\?)(.*)$")
STR = re.compile(r'"((?:[^"\\]|\\.)*)"')
FD = re.compile(r"(\d+|AT_FDCWD)<([^>]*)>")


def parse_log(path):
    """-> list of (pid, name, args, ret) in log order; unfinished/resumed pairs are joined (counted at entry)."""
    out, pending = [], {}
    for raw in open(path, errors="replace"):
        m = LINE.match(raw.rstrip("\n"))
        if not m:
            continue
        pid, rest = int(m.group(1)), m.group(2)
        if rest.startswith("+++") or rest.startswith("---"):
            if "killed by" in rest:
                out.append((pid, "+killed", "", ""))
            continue
        if rest.endswith("<unfinished ...>"):
            pending[pid] = (len(out), rest[: -len("<unfinished ...>")].rstrip())
            out.append((pid, rest.split("(", 1)[0], None, None))
            continue
        r = re.match(r"^<\.\.\. (\w+) resumed>(.*)$", rest)
        if r and pid in pending:
            idx, head = pending.pop(pid)
            rest = head + r.group(2)
            c = CALL.match(rest)
            if c:
                out[idx] = (pid, c.group(1), c.group(2), c.group(3))
            continue
        c = CALL.match(rest)
        if c:
            out.append((pid, c.group(1), c.group(2), c.group(3)))
    return out


class Namer:
    def __init__(self, proto, watch, names):
        self.proto, self.watch, self.names = proto, watch.rstrip("/"), names

    def rel(self, p):
        p = os.path.normpath(p)
        if p == self.watch or p.startswith(self.watch + "/"):
            return p[len(self.watch):].lstrip("/")
        return None

    def kind(self, rel):
        b = os.path.basename(rel)
        if self.proto in ("shard_flush", "consolidate"):
            return "final" if re.match(r"^[0-9a-f]{64}\.mdb$", b) else "temp"
        if self.proto == "local_put":
            return "final" if re.match(r"^default\.[0-9a-f]{64}$", b) else "temp"
        try:
            return "final" if len(base64.urlsafe_b64decode(b)) == 20 and "." not in b else "temp"
        except Exception:
            return "temp"

    def name(self, rel):
        k = self.kind(rel)
        if k == "temp":
            return "tmp"
        b = os.path.basename(rel)
        return self.names.get(b, self.names.get(rel, "new"))


def project(calls, nm):
    """-> list of dict(idx = index in calls, pid, n = ordinal (1-based) of the call among the calls of the same name by
    the same thread (strace's injection counter is per thread and per system call), ev = abstract event)"""
    began, evs, count = False, [], {}
    for i, (pid, name, args, ret) in enumerate(calls):
        if name.startswith("+"):
            continue
        count[(pid, name)] = count.get((pid, name), 0) + 1
        if args is None:
            continue
        if "xv-marker-begin" in args:
            began = True
            continue
        if "xv-marker-end" in args:
            began = False
            continue
        if not began or ret in ("?",) or ret.startswith("-"):
            continue
        fds = FD.findall(args)
        strs = [s for s in STR.findall(args)]
        ev = None

        def absp(k=0, dirfd=0):
            p = strs[k]
            if not p.startswith("/") and len(fds) > dirfd:
                p = os.path.join(fds[dirfd][1], p)
            return p
        if name in ("openat", "open", "creat"):
            flags = args.rsplit('"', 1)[1] if '"' in args else args
            w = any(f in flags for f in ("O_WRONLY", "O_RDWR", "O_CREAT", "O_TRUNC", "O_APPEND")) or name == "creat"
            r = nm.rel(absp()) if strs else None
            if w and r is not None and "O_DIRECTORY" not in flags:
                ev = {"op": "openw", "name": nm.name(r), "kind": nm.kind(r), "creat": "O_CREAT" in flags or name == "creat",
                      "trunc": "O_TRUNC" in flags or name == "creat", "excl": "O_EXCL" in flags, "path": r}
        elif name in ("write", "pwrite64", "writev", "pwritev", "ftruncate", "fallocate", "fsync", "fdatasync", "fchmod",
                      "copy_file_range", "sendfile"):
            tgt = fds[1] if name in ("copy_file_range", "sendfile") and len(fds) > 1 else (fds[0] if fds else None)
            if name == "sendfile" and fds:
                tgt = fds[0]
            r = nm.rel(tgt[1]) if tgt else None
            if r is not None:
                op = {"write": "write", "pwrite64": "write", "writev": "write", "pwritev": "write", "copy_file_range": "write",
                      "sendfile": "write", "ftruncate": "truncate", "fallocate": "truncate", "fsync": "sync",
                      "fdatasync": "sync", "fchmod": "meta"}[name]
                ev = {"op": op, "name": nm.name(r), "kind": nm.kind(r), "path": r, "positional": name in ("pwrite64", "pwritev")}
        elif name in ("rename", "renameat", "renameat2", "link", "linkat"):
            if len(strs) >= 2:
                a = strs[0] if strs[0].startswith("/") else os.path.join(fds[0][1], strs[0]) if fds else strs[0]
                b = strs[1] if strs[1].startswith("/") else os.path.join(fds[-1][1], strs[1]) if fds else strs[1]
                ra, rb = nm.rel(a), nm.rel(b)
                if ra is not None or rb is not None:
                    ev = {"op": "rename" if name.startswith("rename") else "link",
                          "name": nm.name(ra) if ra is not None else "outside", "kind": nm.kind(ra) if ra is not None else "outside",
                          "to": nm.name(rb) if rb is not None else "outside", "to_kind": nm.kind(rb) if rb is not None else "outside",
                          "path": ra or "", "to_path": rb or ""}
        elif name in ("unlink", "unlinkat"):
            r = nm.rel(absp()) if strs else None
            if r is not None:
                if "AT_REMOVEDIR" in args:
                    ev = {"op": "dir", "name": "dir", "kind": "dir", "path": r}
                else:
                    ev = {"op": "unlink", "name": nm.name(r), "kind": nm.kind(r), "path": r}
        elif name in ("truncate", "chmod", "fchmodat"):
            r = nm.rel(absp()) if strs else None
            if r is not None:
                ev = {"op": "truncate" if name == "truncate" else "meta", "name": nm.name(r), "kind": nm.kind(r), "path": r}
        elif name in ("mkdir", "mkdirat", "rmdir", "symlink", "symlinkat"):
            r = nm.rel(absp()) if strs else None
            if r is not None:
                ev = {"op": "dir", "name": "dir", "kind": "dir", "path": r}
        if ev:
            evs.append({"idx": i, "pid": pid, "n": count[(pid, name)], "sys": name, "ev": ev})
    # last write to a path before it is renamed away (or the end)
    for j, e in enumerate(evs):
        if e["ev"]["op"] == "write":
            last = True
            for f in evs[j + 1:]:
                if f["ev"]["op"] == "write" and f["ev"]["path"] == e["ev"]["path"]:
                    last = False
                    break
                if f["ev"]["op"] == "rename" and f["ev"]["path"] == e["ev"]["path"]:
                    break
            e["ev"]["last"] = last
    return evs


def strace(log, args, inject=None, timeout=120):
    """inject = (syscall name, n): SIGKILL on entry of the n-th call of that name (per thread)"""
    cmd = ["strace", "-f", "-y", "-s", "0", "-o", log, "-e", "trace=" + SET]
    if inject:
        cmd += ["-e", "inject=%s:signal=KILL:when=%d" % inject]
    try:
        p = subprocess.run(cmd + args, stdout=subprocess.PIPE, stderr=subprocess.PIPE, text=True, errors="replace",
                           timeout=timeout)
    except subprocess.TimeoutExpired:
        raise vlib.ToolError("strace run timed out: %s" % " ".join(args))
    return p


def available():
    """strace with fault injection must work here (ptrace may be forbidden in some sandboxes)"""
    try:
        p = subprocess.run(["strace", "-f", "-o", "/dev/null", "-e", "trace=unlink", "-e", "inject=unlink:signal=KILL:when=999", "true"],
                           stdout=subprocess.PIPE, stderr=subprocess.PIPE, timeout=30)
        return p.returncode == 0
    except Exception:
        return False


def explore(w, proto, seed, tag):
    """One operation explored at every modifying system call.  -> (trace event lines, stats)"""
    vlib.build_harness()
    base = os.path.join(w, "%s_%s_%d" % (tag, proto, seed))
    shutil.rmtree(base, ignore_errors=True)
    os.makedirs(os.path.join(base, "init"))
    r = subprocess.run([vlib.XV, "atomicfs", "mode=sys_setup", "proto=" + proto, "seed=%d" % seed, "base=" + os.path.join(base, "init")],
                       stdout=subprocess.PIPE, stderr=subprocess.PIPE, text=True)
    if r.returncode != 0:
        raise vlib.ToolError("sys_setup failed: " + r.stderr[-500:])
    shutil.move(os.path.join(base, "init", "meta.json"), os.path.join(base, "meta.json"))
    meta = json.load(open(os.path.join(base, "meta.json")))
    cap = meta.get("extra", {}).get("cap", 1000)

    def fresh(name):
        d = os.path.join(base, name)
        shutil.copytree(os.path.join(base, "init"), d, symlinks=True)
        return os.path.join(d, "dir")

    def run_args(d):
        return [vlib.XV, "atomicfs", "mode=sys_run", "proto=" + proto, "seed=%d" % seed, "dir=" + d, "cap=%d" % cap]
    rec = fresh("rec")
    p = strace(os.path.join(base, "rec.log"), run_args(rec))
    if p.returncode != 0:
        raise vlib.ToolError("recording run failed rc=%d: %s" % (p.returncode, p.stderr[-400:]))
    summary = json.loads([l for l in p.stdout.splitlines() if l.strip()][-1])

    def watch_of(d):
        return os.path.join(d, "xorbs") if proto == "local_put" else d
    calls = parse_log(os.path.join(base, "rec.log"))
    mainpid = calls[0][0]
    evs = project(calls, Namer(proto, watch_of(rec), meta["names"]))
    stats = {"events": len(evs), "kills": 0, "unrealised": 0}
    dirs, retry_ok = [], {}
    for j, e in enumerate(evs):
        name = "k%02d" % j
        d = fresh(name)
        lg = os.path.join(base, name + ".log")
        strace(lg, run_args(d), inject=(e["sys"], e["n"]))
        kc = parse_log(lg)
        kev = project_killed(kc, Namer(proto, watch_of(d), meta["names"]), e)
        if not kev:
            stats["unrealised"] += 1
            dirs.append(None)
            shutil.rmtree(os.path.join(base, name), ignore_errors=True)
            continue
        stats["kills"] += 1
        dirs.append(name)
        # the next process: a copy of what the killed run left (before anything re-opens and cleans it) in which the
        # same kind of operation, on other and smaller data, runs to completion
        shutil.copytree(os.path.join(base, name), os.path.join(base, name + "r"), symlinks=True)
        rr = subprocess.run(run_args(os.path.join(base, name + "r", "dir")) + ["retry=1"], stdout=subprocess.PIPE,
                            stderr=subprocess.PIPE, text=True, timeout=120)
        try:
            retry_ok[name] = bool(json.loads([l for l in rr.stdout.splitlines() if l.strip()][-1]).get("ok"))
        except Exception:
            retry_ok[name] = False
        stats["retries"] = stats.get("retries", 0) + 1
    dirs.append("rec")
    real = [d for d in dirs if d] + [d + "r" for d in dirs if d and d != "rec"]
    outp = os.path.join(base, "describe.ndjson")
    r = subprocess.run([vlib.XV, "atomicfs", "mode=sys_describe", "base=" + base, "dirs=" + ",".join(real), "out=" + outp],
                       stdout=subprocess.PIPE, stderr=subprocess.PIPE, text=True)
    if r.returncode != 0:
        raise vlib.ToolError("sys_describe failed: " + r.stderr[-500:])
    desc = {}
    for l in open(outp):
        if l.strip():
            v = json.loads(l)
            desc[v["dir"]] = v
    # victims: inputs whose final file is gone at the end of the complete run
    inputs = [b[0] for b in meta["before"]]
    endfiles = {f["name"] for f in desc["rec"]["files"] if f["kind"] == "final"}
    victims = [i for i in inputs if i not in endfiles]
    lines = [json.dumps({"ev": "AfStart", "proto": proto, "run": seed, "inputs": inputs, "victims": victims, "sys": True})]
    for j, e in enumerate(evs):
        if dirs[j]:
            v = dict(desc[dirs[j]])
            v["before"] = e["sys"]
            lines.append(json.dumps(v))
            v = dict(desc[dirs[j] + "r"])
            v["before"] = e["sys"]
            v["op_ok"] = retry_ok.get(dirs[j], False)
            lines.append(json.dumps(v))
        ev = dict(e["ev"])
        ev.update({"ev": "AfSys", "sys": e["sys"]})
        lines.append(json.dumps(ev))
    v = dict(desc["rec"])
    v["before"] = "end"
    lines.append(json.dumps(v))
    lines.append(json.dumps({"ev": "AfEnd", "ok": bool(summary.get("ok"))}))
    for d in real:
        shutil.rmtree(os.path.join(base, d), ignore_errors=True)
    shutil.rmtree(os.path.join(base, "init"), ignore_errors=True)
    return lines, stats


def project_killed(kc, nm, expect):
    """the kill run must have died on entry of the same abstract call as the recording's event"""
    if not kc or kc[-1][1] != "+killed":
        return False
    # the call the main thread was entering: last call line of the killed pid with ret '?'
    pend = [c for c in kc if c[3] == "?" and c[1] == expect["sys"]]
    if not pend:
        return False
    pid, name, args, _ = pend[-1]
    fake = [(pid, "unlink", '"/nonexistent-xv-marker-begin"', "-1"), (pid, name, args, "0")]
    evs = project(fake, nm)
    if not evs:
        return False
    a, b = evs[0]["ev"], expect["ev"]
    return all(a.get(k) == b.get(k) for k in ("op", "name", "kind", "to", "to_kind"))
