"""C01 Upload then download returns every file byte-for-byte."""
import json

from checks import pf_common, up_common

PROPS = ["C01"]


def check(ctx):
    # the worker pool under upload_async / download_async: results in input order, a failing closure is reported
    pf_common.run(ctx)
    up_common.run_all(ctx, PROPS, faults=1)


def replay(ctx, path):
    if json.loads(open(path).readline()).get("ev") == "PfSetup":
        return 0 if pf_common.validate(ctx, path, "replay") else 1
    return 0 if up_common.validate(ctx, path, "replay", PROPS) else 1
