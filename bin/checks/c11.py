"""C11 Data uploaded once is deduplicated by every later session."""
from checks import up_common

PROPS = ["C11"]


def check(ctx):
    up_common.run_all(ctx, PROPS, faults=1)


def replay(ctx, path):
    return 0 if up_common.validate(ctx, path, "replay", PROPS) else 1
