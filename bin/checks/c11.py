"""C11 Data uploaded once is deduplicated by every later session."""
import json

from checks import sm_common, up_common

PROPS = ["C11"]


def check(ctx):
    # the shard manager at lock granularity: a record that was added is in the memory shard or in a shard file at every
    # moment of every interleaving of add / flush (two critical sections) / register, and is found again afterwards
    sm_common.run(ctx)
    up_common.run_all(ctx, PROPS, faults=1)


def replay(ctx, path):
    if json.loads(open(path).readline()).get("ev") == "SmSetup":
        return 0 if sm_common.validate(ctx, path, "replay") else 1
    return 0 if up_common.validate(ctx, path, "replay", PROPS) else 1
