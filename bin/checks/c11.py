"""C11 Data uploaded once is deduplicated by every later session."""
import json

from checks import sh_common, sm_common, up_common

PROPS = ["C11"]


def check(ctx):
    # the shard manager at lock granularity: a record that was added is in the memory shard or in a shard file at every
    # moment of every interleaving of add / flush (two critical sections) / register, and is found again afterwards
    sm_common.run(ctx)
    # the index over registered shards on real shard files: keyed and plain collections side by side, colliding
    # prefixes, and a shard whose other xorb has more chunks than a 16-bit chunk offset addresses (ShDedupMust: the
    # chunks of a registered shard are found with their unkeyed hashes)
    r = sh_common.record(ctx, "keyed", 5, seed_off=40)
    ctx.notes["manager_queries_on_registered_shards"] = {k: v for k, v in (r.get("counts") or {}).items() if k.startswith("ShDedup")}
    up_common.run_all(ctx, PROPS, faults=1)


def replay(ctx, path):
    head = json.loads(open(path).readline()).get("ev")
    if head == "SmSetup":
        return 0 if sm_common.validate(ctx, path, "replay") else 1
    if str(head).startswith("Sh"):
        return 0 if sh_common.validate(ctx, path, "replay") else 1
    return 0 if up_common.validate(ctx, path, "replay", PROPS) else 1
