"""Shared by C12 / C13: ChunkCache model checking and trace validation."""
import json
import os

import vlib

TRACE_CFG = """SPECIFICATION TraceSpec
CONSTANTS
  Threads = %(threads)s
  Keys = %(keys)s
  Ranges <- TRanges
  Capacity = %(cap)d
  FixDrift = TRUE
  WithEnv = TRUE
  FsExact = %(exact)s
  EarlyVerify = FALSE
  ILen <- TILen
INVARIANT %(inv)s
POSTCONDITION TraceAccepted
CHECK_DEADLOCK FALSE
"""


def trace_cfg(path, exact=True):
    setup = json.loads(open(path).readline())
    threads = vlib.trace_values(path, "actor", {"CcStart"}) | {"t1"}
    return TRACE_CFG % dict(threads=vlib.cfg_set(threads), keys=vlib.cfg_set(setup["keys"]), cap=setup["cap"],
                            exact="TRUE" if exact else "FALSE", inv="InvsExact" if exact else "InvsFree")


def validate(ctx, path, label, exact=True):
    return ctx.validate("Trace_ChunkCache", trace_cfg(path, exact), path, label=label, header=1)


def models(ctx, thorough):
    ctx.model("MC_ChunkCache", "MC_ChunkCache.cfg",
              must_cover=("Start", "Find", "Open", "RmState", "RmFile", "PWrite", "DoCommit", "PDel", "PDone", "Fail"))
    ctx.model("MC_ChunkCache", "MC_ChunkCache_env.cfg", must_cover=("EDamage", "EPlant", "EDeleteWhileOpen", "EReopen", "EClose"))
    # negative control: the commit step as it was found in the tree (F4) drifts total_bytes
    ctx.model("MC_ChunkCache", "MC_ChunkCache_drift.cfg", expect_violation="Invs", coverage=False)
    # negative control: verified flag published before the checksum pass -> a concurrent reader is served damaged bytes
    ctx.model("MC_ChunkCache", "MC_ChunkCache_earlyverify.cfg", expect_violation="Invs", coverage=False)
    if thorough:
        # three threads on one key, and two threads on two keys (6.5 M states each, ~3 min)
        ctx.model("MC_ChunkCache", "MC_ChunkCache_t3.cfg", timeout=2400, workers=10)
        ctx.model("MC_ChunkCache", "MC_ChunkCache_k2.cfg", timeout=2400, workers=10)


def run_all(ctx, focus):
    thorough = ctx.tier == "thorough"
    vlib.build_harness()
    w = vlib.workdir(ctx.pid.lower())
    models(ctx, thorough)
    k = 5 if thorough else 1
    summaries = {}
    # generated schedules (TLC simulation of the model) replayed under gate control
    scn = ctx.generate("Gen_ChunkCache", "Gen_ChunkCache.cfg", simulate="num=%d" % (100 * k),
                       extra="-depth 40 -seed %d" % ctx.seed)
    sp = os.path.join(w, "scn.ndjson")
    with open(sp, "w") as f:
        for s in scn:
            f.write(json.dumps(s) + "\n")
    if scn:
        ctx.sample({"generated_schedule": scn[0]})
    t = os.path.join(w, "sched.ndjson")
    summaries["sched"] = vlib.xv("chunkcache", mode="sched", seed=ctx.seed, keys=1, nch=2, capx=1, out=t, **{"in": sp})
    validate(ctx, t, "sched")
    t = os.path.join(w, "rsched.ndjson")
    summaries["rsched"] = vlib.xv("chunkcache", mode="rsched", n=300 * k, seed=ctx.seed, keys=2, nch=3, capx=2, out=t)
    validate(ctx, t, "rsched")
    t = os.path.join(w, "seq.ndjson")
    summaries["seq"] = vlib.xv("chunkcache", mode="seq", n=40 * k, ops=80, seed=ctx.seed, keys=2, nch=4, capx=2, out=t, **({"junk": 1} if focus == "hits" else {}))
    validate(ctx, t, "seq")
    ctx.sample({"recorded_trace_prefix": summaries["seq"]["sample"]})
    # capacity exactly the length of the largest item of the first key (an item as large as the capacity is allowed)
    t = os.path.join(w, "seq_exact.ndjson")
    summaries["seq_exact"] = vlib.xv("chunkcache", mode="seq", n=20 * k, ops=50, seed=ctx.seed + 2, keys=2, nch=3, capexact=1, out=t)
    validate(ctx, t, "seq-exact")
    if focus == "hits":
        # capacity below the size of the larger items: put accepts them, the scan of a re-open skips them (files that
        # exist but are not tracked), then refill and read
        t = os.path.join(w, "seq_oversize.ndjson")
        summaries["seq_oversize"] = vlib.xv("chunkcache", mode="seq", n=30 * k, ops=60, seed=ctx.seed + 1, keys=2, nch=4, capx=1,
                                            capdiv=2, out=t)
        validate(ctx, t, "seq-oversize")
    if focus == "hits":
        t = os.path.join(w, "faults.ndjson")
        summaries["faults"] = vlib.xv("chunkcache", mode="faults", stride=1 if thorough else 4, seed=ctx.seed, keys=2, nch=3,
                                      capx=4, out=t)
        validate(ctx, t, "faults")
        ctx.exhaustive = thorough
    if focus == "hits":
        # item files renamed while the cache was closed (names claiming other ranges / another key, same length and crc)
        t = os.path.join(w, "renames.ndjson")
        summaries["renames"] = vlib.xv("chunkcache", mode="renames", seed=ctx.seed, keys=2, nch=3, capx=4, out=t)
        validate(ctx, t, "renames")
    if focus == "hits":
        # damaged item read by 8 threads at the same moment (large chunks: the checksum pass takes milliseconds)
        t = os.path.join(w, "dstorm.ndjson")
        summaries["dstorm"] = vlib.xv("chunkcache", mode="dstorm", n=12 * k, threads=8, seed=ctx.seed, keys=1, nch=4,
                                      minlen=1500000, maxlen=2000000, capx=3, out=t)
        validate(ctx, t, "dstorm", exact=False)
    t = os.path.join(w, "storm.ndjson")
    summaries["storm"] = vlib.xv("chunkcache", mode="storm", n=6 * k, threads=8, ops=40, seed=ctx.seed, keys=2, nch=3, capx=2, out=t)
    validate(ctx, t, "storm", exact=False)
    ctx.notes["driver_summaries"] = {m: {k2: v for k2, v in s.items() if k2 != "sample"} for m, s in summaries.items()}
    ctx.assumptions += [
        "the bytes stored for (key, chunk range) are a fixed function of the item (xorbs are immutable); data for distinct chunks is pairwise distinct",
        "crc32 detects every single burst error of at most 32 bits (the damage class of the property)",
        "free-running (storm) traces are validated with FsExact = FALSE: file-system outcomes are not predicted, only lock-protected state, hits and quiescent directory listings are checked",
        "I/O errors may end an operation anywhere a file-system call is made (the properties do not constrain errors)",
    ]
