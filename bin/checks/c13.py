"""C13 Chunk-cache accounting is exact and the capacity bound holds."""
from checks import cc_common


def check(ctx):
    cc_common.run_all(ctx, "accounting")


def replay(ctx, path):
    exact = "storm" not in path
    return 0 if cc_common.validate(ctx, path, "replay", exact=exact) else 1
