"""C18 Keyed shards protect chunk hashes, keep dedup working, and expire."""
import json

from checks import sh_common, sm_common


def check(ctx):
    thorough = ctx.tier == "thorough"
    ctx.model("ShardKeyed", "MC_ShardKeyed.cfg", must_cover=("Export", "Tick", "Load", "Clean"))
    ctx.model("ShardKeyed", "MC_ShardKeyed_ctl.cfg", expect_violation="NeverDeletedEarly", coverage=False)
    ctx.model("ShardKeyed", "MC_ShardKeyed_ctl2.cfg", expect_violation="LoadsUnexpired", coverage=False)
    # the manager's collections by key (registration index, query across collections) at lock granularity
    sm_common.run(ctx, controls=("hoisted_index", "first_verdict"))
    k = 6 if thorough else 2
    for i in range(k):
        sh_common.record(ctx, "keyed", 5, seed_off=i, need=("ShExport", "ShDedupPair", "ShExpiry", "ShKeyedFile", "ShKeyedTimes"))
    ctx.assumptions += sh_common.ASSUME + [
        "equality of manager answers between a plain shard and its keyed export is checked on shards whose 64-bit prefixes do not collide: a keyed export necessarily changes which prefixes collide, and the manager's chunk table keeps one location per prefix (C05 covers collisions)",
        "the clock is a verification hook (utils::verif::clock) so that now = expiry and now = expiry + grace are hit exactly"]


def replay(ctx, path):
    if json.loads(open(path).readline()).get("ev") == "SmSetup":
        return 0 if sm_common.validate(ctx, path, "replay") else 1
    return 0 if sh_common.validate(ctx, path, "replay") else 1
