"""C12 A chunk-cache hit returns exactly the bytes that were put."""
from checks import cc_common


def check(ctx):
    cc_common.run_all(ctx, "hits")


def replay(ctx, path):
    exact = "storm" not in path
    return 0 if cc_common.validate(ctx, path, "replay", exact=exact) else 1
