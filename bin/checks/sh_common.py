"""Shared by C05, C09, C10, C18: the mdb_shard crate."""
import os

import vlib

TRACE_CFG = """SPECIFICATION TraceSpec
POSTCONDITION TraceAccepted
CHECK_DEADLOCK FALSE
"""


def validate(ctx, path, label):
    return ctx.validate("Trace_Shard", TRACE_CFG, path, label=label, header=1)


def record(ctx, mode, n, seed_off=0, need=(), **kw):
    """Runs one mode of the shard driver and validates its trace; `need` lists event-count keys that must be > 0."""
    w = os.path.join(vlib.WORK, ctx.pid.lower())
    os.makedirs(w, exist_ok=True)
    t = os.path.join(w, "%s_%d.ndjson" % (mode, seed_off))
    r = vlib.xv("shard", mode=mode, n=n, seed=ctx.seed + seed_off, out=t, **kw)
    if "died" in r:
        # the driver process died inside the code under test: the trace up to that point plus the death is validated
        # (no action of the specification matches ShAbort, so the run is reported with the partial trace as replay)
        import json
        with open(r["partial"], "a") as f:
            f.write(json.dumps({"ev": "ShAbort", "signal": -r["died"], "what": r["what"]}) + "\n")
        os.replace(r["partial"], t)
        validate(ctx, t, mode)
        return r
    counts = r["counts"]
    missing = [k for k in need if not any(c.startswith(k) and v > 0 for c, v in counts.items())]
    if missing:
        raise vlib.ToolError("vacuity: the %s driver never produced %s (counts: %s)" % (mode, missing, counts))
    bad = {k: v for k, v in counts.items() if k.startswith("ShPanic") or k.startswith("ShError")}
    ctx.notes.setdefault("event_counts", {})[mode] = counts
    if seed_off == 0:
        ctx.sample({"mode": mode, "recorded_trace_prefix": r["sample"][:3]})
    validate(ctx, t, mode)
    return r


ASSUME = [
    "hashes are engineered [u64;4] values projected to <<prefix id, full id>>; blake3 / HMAC are uninterpreted (the keyed forms used as reference come from the harness's own blake3 keyed hash)",
    "the content of a xorb / file record is a function of its hash in every generated shard family (content addressing), verification and metadata values of one file agree across shards",
]
