"""Shared by C07 / C08: the xorb object format (specs/Xorb.tla, Trace_Xorb.tla, harness driver `xorb`)."""
import json
import os

import vlib

TRACE_CFG = """SPECIFICATION TraceSpec
CONSTANTS
  Chunks <- TChunks
  MaxChunks = 3
  MaxU = %(maxu)d
  MaxC = %(maxc)d
  Skip = "none"
INVARIANT TraceInvs
POSTCONDITION TraceAccepted
CHECK_DEADLOCK FALSE
"""
# (Chunks <- TChunks is the six-record chunk pool of the setup line; it is only consulted by splice / insert mutations.)


def trace_cfg(path):
    setup = json.loads(open(path).readline())
    return TRACE_CFG % dict(maxu=setup["maxu"], maxc=setup["maxc"])


def validate(ctx, path, label, **kw):
    return ctx.validate("Trace_Xorb", trace_cfg(path), path, label=label, header=1, **kw)


def models(ctx, big):
    ctx.model("MC_Xorb", "MC_Xorb.cfg", must_cover=("DoBuild", "DoMutate", "DoCheck"))
    if big:
        ctx.model("MC_Xorb", "MC_Xorb_big.cfg", must_cover=("DoBuild", "DoMutate", "DoCheck"), timeout=1800)


def need(summary, what, cond):
    if not cond:
        raise vlib.ToolError("vacuity: %s (driver summary: %s)" % (what, json.dumps({k: v for k, v in summary.items() if k != "sample"})[:1500]))


def split_file(path, per):
    """Splits a scenario file into parts of at most `per` lines."""
    lines = open(path).read().splitlines()
    parts = []
    for i in range(0, len(lines), per):
        pp = "%s.%d" % (path, len(parts))
        with open(pp, "w") as f:
            f.write("\n".join(lines[i:i + per]) + "\n")
        parts.append(pp)
    return parts
