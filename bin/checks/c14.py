"""C14 Reported sizes and dedup metrics are conserved."""
from checks import up_common

PROPS = ["C14"]


def check(ctx):
    up_common.run_all(ctx, PROPS, faults=1)


def replay(ctx, path):
    return 0 if up_common.validate(ctx, path, "replay", PROPS) else 1
