"""Shared by C01, C02, C03, C11, C14, C15, C16: the upload pipeline."""
import json
import os

import vlib

TRACE_CFG = """SPECIFICATION TraceSpec
CONSTANTS
  P = %(P)s
  Relax = %(relax)s
  MaxXorbChunks = %(maxc)d
  MaxXorbBytes = %(maxb)d
  MaxChunk = %(maxchunk)d
  NRanges = %(nranges)d
INVARIANT ObsInv
POSTCONDITION TraceAccepted
CHECK_DEADLOCK FALSE
"""

# size-limit configurations (the repository's own HF_XET_* mechanism; one harness process per configuration)
BASE = {"HF_XET_TARGET_CHUNK_SIZE": "128", "HF_XET_MINIMUM_CHUNK_DIVISOR": "1", "HF_XET_MAXIMUM_CHUNK_MULTIPLIER": "2"}
CONFIGS = {
    "A": dict(BASE, HF_XET_MAX_XORB_CHUNKS="4", HF_XET_MAX_XORB_BYTES="1000", HF_XET_NRANGES_IN_STREAMING_FRAGMENTATION_ESTIMATOR="2"),
    "B": dict(BASE, HF_XET_MAX_XORB_CHUNKS="1", HF_XET_MAX_XORB_BYTES="100000", HF_XET_NRANGES_IN_STREAMING_FRAGMENTATION_ESTIMATOR="4"),
    "C": dict(BASE, HF_XET_MAX_XORB_CHUNKS="8", HF_XET_MAX_XORB_BYTES="700", HF_XET_NRANGES_IN_STREAMING_FRAGMENTATION_ESTIMATOR="3",
              HF_XET_INGESTION_BLOCK_SIZE="100", HF_XET_MDB_SHARD_MIN_TARGET_SIZE="400"),
    "D": {"HF_XET_TARGET_CHUNK_SIZE": "1024", "HF_XET_MAX_XORB_CHUNKS": "8", "HF_XET_MAX_XORB_BYTES": "8192",
          "HF_XET_NRANGES_IN_STREAMING_FRAGMENTATION_ESTIMATOR": "2", "HF_XET_INGESTION_BLOCK_SIZE": "1500"},
    # limits of the design model MC_Upload / Gen_Upload (MaxC = 2 chunks)
    "G": dict(BASE, HF_XET_MAX_XORB_CHUNKS="2", HF_XET_MAX_XORB_BYTES="100000", HF_XET_NRANGES_IN_STREAMING_FRAGMENTATION_ESTIMATOR="2"),
    # tiny shards: the session shard is flushed at almost every registration (concurrent-cleaning storms)
    "S": dict(BASE, HF_XET_MAX_XORB_CHUNKS="3", HF_XET_MAX_XORB_BYTES="100000", HF_XET_MDB_SHARD_MIN_TARGET_SIZE="300",
              HF_XET_NRANGES_IN_STREAMING_FRAGMENTATION_ESTIMATOR="128"),
    # several users with separate local shard caches, connected only by the store's global dedup index
    "U": dict(BASE, HF_XET_MAX_XORB_CHUNKS="4", HF_XET_MAX_XORB_BYTES="1000", HF_XET_NRANGES_IN_STREAMING_FRAGMENTATION_ESTIMATOR="2",
              HF_XET_MDB_SHARD_GLOBAL_DEDUP_CHUNK_MODULUS="3"),
    # one chunk per xorb and three upload permits: registrations wait for a permit while uploads are in flight
    "P": dict(BASE, HF_XET_MAX_XORB_CHUNKS="1", HF_XET_MAX_XORB_BYTES="100000", HF_XET_NRANGES_IN_STREAMING_FRAGMENTATION_ESTIMATOR="4",
              HF_XET_MAX_CONCURRENT_UPLOADS="3"),
    # a chunk index cap that a 14-session history (about 60 chunks) stays far below
    "H": dict(BASE, HF_XET_MAX_XORB_CHUNKS="4", HF_XET_MAX_XORB_BYTES="100000", HF_XET_NRANGES_IN_STREAMING_FRAGMENTATION_ESTIMATOR="128",
              HF_XET_CHUNK_INDEX_TABLE_MAX_SIZE="150"),
    # a fragmentation estimator over two ranges and xorbs that are not cut inside a small file
    "F": dict(BASE, HF_XET_MAX_XORB_CHUNKS="64", HF_XET_MAX_XORB_BYTES="100000", HF_XET_NRANGES_IN_STREAMING_FRAGMENTATION_ESTIMATOR="2"),
    "E": {"HF_XET_TARGET_CHUNK_SIZE": "256", "HF_XET_MAX_XORB_CHUNKS": "3", "HF_XET_MAX_XORB_BYTES": "4096",
          "HF_XET_NRANGES_IN_STREAMING_FRAGMENTATION_ESTIMATOR": "128"},
}


def trace_cfg(path, props, relax=("empty-file-salt",)):
    setup = json.loads(open(path).readline())
    lim = setup["limits"]
    return TRACE_CFG % dict(P=vlib.cfg_set(props), relax=vlib.cfg_set(relax), maxc=lim["max_xorb_chunks"], maxb=lim["max_xorb_bytes"], maxchunk=lim["max_chunk"], nranges=lim.get("nranges", 128))


def validate(ctx, path, label, props, relax=("empty-file-salt",)):
    return ctx.validate("Trace_Upload", trace_cfg(path, props, relax), path, label=label, header=1)


def run_all(ctx, props, faults=1):
    thorough = ctx.tier == "thorough"
    vlib.build_harness()
    w = vlib.workdir(ctx.pid.lower())
    k = 6 if thorough else 1
    plan = [("A", "random", 40 * k, {}), ("B", "random", 12 * k, {}), ("C", "random", 15 * k, {}),
            ("D", "natural", 12 * k, {}), ("E", "natural", 8 * k, {}), ("A", "random", 12 * k, {"gd": 1}),
            # constant and short-period content only: rejected dedup hits followed by hits in the file's own pending data
            ("D", "natural", 10 * k, {"periodic": 1}), ("E", "natural", 8 * k, {"periodic": 1}), ("U", "random", 20 * k, {"gd": 1, "users": 3}),
            # several users without global dedup: a user who uploads what another one uploaded produces byte-identical
            # xorbs and shards, which the store answers with "exists"
            ("A", "random", 12 * k, {"users": 3}),
            # several processes of one user: the same shard cache directory reached through separate manager instances
            ("A", "random", 15 * k, {"users": 1002}),
            # uploads through the real RemoteClient to a loopback server in front of the observing store: what goes over
            # the wire (xorb serialization with the compression the code chooses, shard bytes) is read by the harness's
            # own decoder and judged by the same observation machine
            ("A", "random", 10 * k, {"remote": 1}), ("D", "natural", 6 * k, {"remote": 1}),
            # ... with several users: global dedup answered with HMAC-keyed shards, filed by the client in its own cache
            ("U", "random", 12 * k, {"gd": 1, "users": 3, "remote": 1}),
            # ... with dry-run sessions (FileUploadSession::dry_run) over the data of the session that follows them
            ("A", "random", 8 * k, {"remote": 1, "dry": 1}), ("D", "natural", 4 * k, {"remote": 1, "dry": 1}),
            # the top-level API: data_client::upload_async over files on disk (configuration derived from the endpoint,
            # parallel ingestion through parutils), observed at the loopback server and through the returned pointers
            ("C", "random", 8 * k, {"api": 1}), ("E", "natural", 5 * k, {"api": 1}),
            # sizes exactly at and one past the chunk-count limit, remainders adding up to the limit / one more
            ("A", "limits", 1, {}), ("G", "limits", 1, {}), ("C", "limits", 1, {}),
            # every single store call failing in turn (nothing stored / stored then failed / failing at finalize)
            ("A", "sweep", 1, {"nputs": 8}), ("G", "sweep", 1, {"nputs": 10}),
            # ... and with tiny shards: a session has several shards, the first shard upload is the one that fails
            ("S", "sweep", 1, {"nputs": 3}),
            # all upload permits taken by slow uploads, one of which fails while the next registration waits
            ("P", "saturate", 1, {}),
            # rejected dedup hits whose tail is then found in the file's own pending data
            ("F", "defrag", 1, {"blocks": 40}),
            # a long history of sessions against one shard cache, each re-uploading its predecessor's file
            ("H", "history", 2 * k, {"blocks": 200, "sessions": 14}),
            # 10-16 files cleaned concurrently with session-shard flushes in between, then re-uploaded
            ("S", "cstorm", 6 * k, {"blocks": 200})]
    counts = {}
    # design model of the pipeline (exhaustive for 2 files x 3 chunks, one injected failure) + negative control
    ctx.model("MC_Upload", "MC_Upload.cfg", workers=12,
              must_cover=("PGlobalHit", "PGlobalReject", "PLocalHit", "PNew", "Finish", "FinalAgg", "FinalJoin", "DoPutEnd"))
    ctx.model("MC_Upload", "MC_Upload_f1.cfg", expect_violation="Invs", coverage=False)
    if thorough:
        ctx.model("MC_Upload", "MC_Upload_big.cfg", workers=12, timeout=3400)
    # behaviours of the model (sampled by simulation) replayed: chunk-id sequences, feed partition, cleaner
    # schedule and fault plan are the model's, the code's behaviour is recorded and validated
    scn = ctx.generate("Gen_Upload", "Gen_Upload.cfg", simulate="num=%d" % (300 * k), extra="-depth 60 -seed %d" % ctx.seed)
    sp = os.path.join(w, "scn.ndjson")
    with open(sp, "w") as f:
        for sc in scn:
            f.write(json.dumps(sc) + "\n")
    if scn:
        ctx.sample({"generated_scenario": scn[0]})
    ctx.notes["scenarios_generated"] = len(scn)
    # (one process per 500 scenarios: every LocalClient keeps an LMDB environment, and LMDB takes one of the 1024
    # pthread keys of a process per environment)
    for b in range(0, max(len(scn), 1), 500):
        spb = os.path.join(w, "scn_%d.ndjson" % b)
        with open(spb, "w") as f:
            for sc in scn[b:b + 500]:
                f.write(json.dumps(sc) + "\n")
        t = os.path.join(w, "gen_%d.ndjson" % b)
        r = vlib.xv("upload", env=CONFIGS["G"], mode="scn", seed=ctx.seed, out=t, **{"in": spb})
        for kk, v in r["counts"].items():
            counts[kk] = counts.get(kk, 0) + v
        validate(ctx, t, "G-gen" if b == 0 else "G-gen-%d" % b, props)
    for i, (cfg, mode, n, extra) in enumerate(plan):
        t = os.path.join(w, "%s_%s_%d.ndjson" % (cfg, mode, i))
        r = vlib.xv("upload", env=CONFIGS[cfg], mode=mode, n=n, seed=ctx.seed + 100 * i, faults=faults, out=t, **extra)
        for kk, v in r["counts"].items():
            counts[kk] = counts.get(kk, 0) + v
        if i == 0:
            ctx.sample({"config": CONFIGS[cfg], "recorded_trace_prefix": r["sample"][:8]})
        validate(ctx, t, "%s-%s%s%s" % (cfg, mode, "-gd" if "gd" in extra else "", "-remote-dry" if "dry" in extra else "-remote" if "remote" in extra else "-api" if "api" in extra else "-periodic" if "periodic" in extra else ""), props)
    ctx.notes["event_counts"] = counts
    ctx.notes["configurations"] = {k2: CONFIGS[k2] for k2 in sorted({p[0] for p in plan})}
    # vacuity: the interesting branches must have been exercised
    need = ["DdDecision:dedup", "DdDecision:dedup:local", "DdDecision:prevented", "DdDecision:new", "DdCut",
            "UpCompletion:merge", "UpCompletion:cut", "UpCompletion:swap", "UpPutEnd:ok", "UpPutEnd:exists", "UpDownload",
            "UpGlobalQuery:hit", "UpGlobalQuery:none", "UpDryFinalize"]
    missing = [n for n in need if counts.get(n, 0) == 0]
    if missing:
        raise vlib.ToolError("vacuity: branches never exercised by the drivers: %s" % missing)
    ctx.assumptions += [
        "blake3 / SHA-256 are uninterpreted: hashes are interned ids; the reference values come from an independent implementation of the published constructions in the harness (merkleref, sha2)",
        "chunk boundaries of the inputs are computed by the harness's independent gear-hash reference (gearref); pool blocks are 'first chunk of random data', so any chunk-id sequence is realisable as bytes",
        "the store is LocalClient wrapped by an observing client; failures are injected at put / upload_shard",
    ]


def run_decisions(ctx, props, label="dd"):
    """A small upload plan whose deduper decision events are validated (C05: every dedup answer used or rejected by the
    pipeline - session shard, shard cache, the file's own pending xorb - is truthful)."""
    thorough = ctx.tier == "thorough"
    vlib.build_harness()
    w = vlib.workdir(ctx.pid.lower() + "_up")
    k = 5 if thorough else 1
    plan = [("A", "random", 30 * k, {}), ("B", "random", 10 * k, {}), ("C", "random", 12 * k, {}), ("D", "natural", 8 * k, {}),
            ("U", "random", 12 * k, {"gd": 1, "users": 3})]
    counts = {}
    for i, (cfg, mode, n, extra) in enumerate(plan):
        t = os.path.join(w, "%s_%s_%s_%d.ndjson" % (label, cfg, mode, i))
        r = vlib.xv("upload", env=CONFIGS[cfg], mode=mode, n=n, seed=ctx.seed + 1000 + 100 * i, faults=0, out=t, **extra)
        for kk, v in r["counts"].items():
            counts[kk] = counts.get(kk, 0) + v
        validate(ctx, t, "%s-%s-%s" % (label, cfg, mode), props)
    ctx.notes["decision_event_counts"] = {k2: v for k2, v in counts.items() if k2.startswith("Dd")}
    need = ["DdDecision:dedup", "DdDecision:dedup:local", "DdDecision:prevented", "DdCut"]
    missing = [n for n in need if counts.get(n, 0) == 0]
    if missing:
        raise vlib.ToolError("vacuity: deduper branches never exercised: %s" % missing)
