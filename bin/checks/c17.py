"""C17 File reconstruction writes exactly the requested bytes at the right offsets.

Model: Reconstruct.tla (MC_Reconstruct*.cfg; negative controls re-introduce the defects of DESIGN 6 C17 K and F7).
Conformance: scenarios of Gen_Reconstruct and random plans run end to end through RemoteClient::get_file against the
harness's HTTP server (reconstruction endpoint + blob store serving really serialized xorbs); both writers (one
process each, HF_XET_RECONSTRUCT_WRITE_SEQUENTIALLY), cache off / cold / warm, one URL per fetch range and one URL per
xorb; the recorded steps and the output file (as chunk-id pieces) are validated by Trace_Reconstruct.tla."""
import concurrent.futures
import json
import os
import random

import vlib

TRACE_CFG = """SPECIFICATION TraceSpec
CONSTANTS
  Bug = "none"
  MaxReqs = 1000000
INVARIANT TraceInvs
POSTCONDITION TraceAccepted
CHECK_DEADLOCK FALSE
"""

WRITERS = {"seq": {"HF_XET_RECONSTRUCT_WRITE_SEQUENTIALLY": "true"}, "par": {"HF_XET_RECONSTRUCT_WRITE_SEQUENTIALLY": "false"}}
MUST_COVER = ("Setup", "MCCall", "MCServePlan", "MCHit", "MCFetched", "MCFill", "MCSeqWrite", "ParPlan", "MCParWrite", "Finish")


def validate(ctx, path, label):
    return ctx.validate("Trace_Reconstruct", TRACE_CFG, path, label=label, header=1)


def models(ctx, thorough):
    # every file of <= 2 terms over xorbs <<1,2,3>>, <<2>>; every byte range; plans with <= 2 ordered fetch ranges per xorb
    ctx.model("MC_Reconstruct", "MC_Reconstruct.cfg", must_cover=MUST_COVER)
    # every file of <= 3 terms over xorbs <<1,2>>, <<3>>; every byte range; one fetch range per xorb
    ctx.model("MC_Reconstruct", "MC_Reconstruct_t3.cfg", must_cover=MUST_COVER)
    controls = ["offset_every_term", "fileoff_first", "flight_url_only"]
    if thorough:
        controls += ["remaining_kept", "trim_rel_term"]
    for b in controls:
        ctx.model("MC_Reconstruct", "MC_Reconstruct_bug_%s.cfg" % b, expect_violation="Invs", coverage=False)
    if thorough:
        # F7 only bites when fetch ranges share a URL: the URL-keyed flight with one URL per range is correct
        ctx.model("MC_Reconstruct", "MC_Reconstruct_flight_perrange.cfg", must_cover=("MCFlightEnd",))
        # <= 3 terms over <<1,2>>, <<3>> with <= 2 ordered fetch ranges per xorb, all cache modes
        ctx.model("MC_Reconstruct", "MC_Reconstruct_big.cfg", timeout=3400, must_cover=MUST_COVER)
        # <= 3 terms over one xorb <<2,3,1>>, <= 2 ordered fetch ranges (cache on, initially empty)
        ctx.model("MC_Reconstruct", "MC_Reconstruct_one3.cfg", timeout=3400)
        # <= 2 terms, every chunk-length assignment {1,2,3}^3 of the first xorb (cache on, initially empty)
        ctx.model("MC_Reconstruct", "MC_Reconstruct_lens.cfg", timeout=3400)


def record(ctx, w, label, counts, env=None, **kw):
    """Runs the driver once per writer (the two processes run side by side) and validates both traces."""
    def one(writer):
        e = dict(WRITERS[writer])
        e.update(env or {})
        t = os.path.join(w, "%s_%s.ndjson" % (label, writer))
        r = vlib.xv("reconstruct", env=e, out=t, dir=os.path.join(w, "run_%s_%s" % (label, writer)), timeout=2400, **kw)
        return writer, t, r
    with concurrent.futures.ThreadPoolExecutor(max_workers=2) as ex:
        results = list(ex.map(one, list(WRITERS)))
    ok = True
    for writer, t, r in results:
        if r["writer"] != writer:
            raise vlib.ToolError("driver ran writer %s, expected %s" % (r["writer"], writer))
        for k, v in r["counts"].items():
            counts["%s:%s" % (writer, k)] = counts.get("%s:%s" % (writer, k), 0) + v
        if label == "small" and writer == "par":
            ctx.sample({"recorded_trace_prefix": r["sample"]})
        ok = validate(ctx, t, "%s-%s" % (label, writer)) and ok
    return ok


def check(ctx):
    thorough = ctx.tier == "thorough"
    vlib.build_harness()
    w = vlib.workdir(ctx.pid.lower() + ("_thorough" if thorough else ""))   # the tiers may run side by side
    models(ctx, thorough)
    rnd = random.Random(ctx.seed)
    counts = {}
    gens = {}
    # (cfg, how many scenarios are replayed; None = all of them)
    plan = [("small", "Gen_Reconstruct_small.cfg", None), ("mid", "Gen_Reconstruct.cfg", 2500 if thorough else 100),
            ("t3", "Gen_Reconstruct_t3.cfg", None if thorough else 100)]
    for label, cfg, take in plan:
        scn = ctx.generate("Gen_Reconstruct", cfg, name="gen_reconstruct_" + label)
        gens[label] = {"generated": len(scn), "replayed": len(scn) if take is None else min(take, len(scn))}
        if take is not None and take < len(scn):
            scn = rnd.sample(scn, take)
        if label == "small" and scn:
            ctx.sample({"generated_scenario": scn[len(scn) // 2]})
        sp = os.path.join(w, "scn_%s.ndjson" % label)
        with open(sp, "w") as f:
            for s in scn:
                f.write(json.dumps(s) + "\n")
        record(ctx, w, label, counts, mode="scn", seed=ctx.seed, steer=5, fresh=60, **{"in": sp})
    ctx.notes["scenarios"] = gens
    # every (file, byte range, plan) of the `small` bound runs in all 12 mode combinations
    ctx.exhaustive = True
    ctx.notes["exhaustive_bound"] = ("replay: all files of <= 2 terms over xorbs <<1,2>>, <<3>>, all byte ranges + the whole-file call, "
                                     "all plans with <= 2 ordered fetch ranges per xorb, x {sequential, parallel} x {no cache, cold, warm} x "
                                     "{url per range, url per xorb}; completion orders are steered by response delays, not enumerated "
                                     "(the model enumerates them)")
    k = 5 if thorough else 1
    record(ctx, w, "random", counts, mode="random", n=40 * k, terms=12, seed=ctx.seed, fresh=8)
    record(ctx, w, "randombig", counts, mode="random", n=3 * k, terms=300, big=1, seed=ctx.seed + 1, fresh=2)
    record(ctx, w, "random2gets", counts, env={"HF_XET_NUM_CONCURRENT_RANGE_GETS": "2"}, mode="random", n=10 * k, terms=40,
           seed=ctx.seed + 2, fresh=5)
    ctx.notes["event_counts"] = counts
    need = ["seq:RcSeqWrite", "par:RcParPlan", "par:RcParWrite"]
    for wr in WRITERS:
        need += ["%s:%s" % (wr, n) for n in ("RcHit", "RcFetched", "RcTerm", "RcServe", "RcEnd", "flight_joined", "fresh_clients")]
    missing = [n for n in need if counts.get(n, 0) == 0]
    if missing:
        raise vlib.ToolError("vacuity: branches never exercised by the driver: %s" % missing)
    ctx.assumptions += [
        "chunk contents are pairwise distinct within a scenario (checked by the trace spec on the interned ids), so an output byte is identified by (chunk id, offset); generated scenarios give every byte its own value and project the output byte by byte, random scenarios cut the output at the file's chunk boundaries and compare each cut with that chunk's bytes",
        "the CAS server and the blob store are the harness's HTTP server; the plan it serves is re-checked by the trace spec (PlanOK: overlapping terms, offset into the first term, every fetch range contains a term range, url_range = serialized extent)",
        "byte ranges lie within the file (the property's quantifier); the chunk cache is large enough never to evict",
        "completion orders are steered by delaying blob responses and otherwise left to the runtime; whatever order happened is what gets validated",
    ]


def replay(ctx, path):
    return 0 if validate(ctx, path, "replay") else 1


def selftest(ctx):
    """Binding controls: the model controls must be violated, and a recorded trace with ONE corrupted field must be
    rejected at exactly that line."""
    vlib.build_harness()
    w = vlib.workdir("c17_selftest")
    for b in ["offset_every_term", "remaining_kept", "fileoff_first", "trim_rel_term", "flight_url_only"]:
        ctx.model("MC_Reconstruct", "MC_Reconstruct_bug_%s.cfg" % b, expect_violation="Invs", coverage=False)
    scn = ctx.generate("Gen_Reconstruct", "Gen_Reconstruct_small.cfg")[::9]
    sp = os.path.join(w, "scn.ndjson")
    with open(sp, "w") as f:
        for s in scn:
            f.write(json.dumps(s) + "\n")
    t = os.path.join(w, "par.ndjson")
    vlib.xv("reconstruct", env=WRITERS["par"], mode="scn", out=t, dir=os.path.join(w, "run"), fresh=0, **{"in": sp})
    lines = open(t).read().splitlines()
    ok, d, _ = vlib.run_trace_tlc("Trace_Reconstruct", TRACE_CFG, t)
    if not ok:
        log_line = lines[d - 1] if d else "?"
        raise vlib.ToolError("selftest: the uncorrupted trace is rejected at line %s: %s" % (d, log_line))

    def bump(field):
        def f(r):
            r[field] += 1
        return f

    def first_piece(r):
        r["out"][0][1] += 1
    controls = [("RcEnd", first_piece), ("RcEnd", bump("n")), ("RcParPlan", bump("off")), ("RcParPlan", bump("end")),
                ("RcFetched", bump("len")), ("RcHit", bump("len")), ("RcPlan", bump("off")), ("RcServe", bump("b")),
                ("RcParWrite", bump("len"))]
    bad = 0
    for i, (ev, mut) in enumerate(controls):
        idx = [j for j, l in enumerate(lines) if '"ev":"%s"' % ev in l]
        j = idx[len(idx) // 2]
        r = json.loads(lines[j])
        mut(r)
        cp = os.path.join(w, "corrupt_%d.ndjson" % i)
        with open(cp, "w") as f:
            f.write("\n".join(lines[:j] + [json.dumps(r, separators=(",", ":"))] + lines[j + 1:]) + "\n")
        ok, d, _ = vlib.run_trace_tlc("Trace_Reconstruct", TRACE_CFG, cp)
        verdict = "rejected at line %s" % d if not ok else "ACCEPTED"
        vlib.log("[selftest] %s corrupted at line %d: %s" % (ev, j + 1, verdict))
        if ok or d != j + 1:
            bad += 1
    if bad:
        raise vlib.ToolError("selftest: %d corrupted traces were not rejected at the corrupted line" % bad)
    vlib.log("[selftest] C17: 5 model controls violated, %d/%d corrupted traces rejected at the corrupted line" % (len(controls), len(controls)))
    return 0
