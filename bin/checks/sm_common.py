"""ShardFileManager at lock granularity (specs/ShardManager.tla): shared by C11 (records are never lost, found again
after a flush), C05 (answers truthful) and C18 (keyed collections)."""
import json
import os

import vlib

TRACE_CFG = """SPECIFICATION TraceSpec
CONSTANTS
  Threads = {"t1", "t2"}
  Xorbs = {1, 2, 3}
  XC <- MC_XC
  P0 <- MC_P0
  Ext <- MC_Ext
  IndexCap = 100
  Variant = "ok"
INVARIANT Invs
POSTCONDITION TraceAccepted
CHECK_DEADLOCK FALSE
"""


def validate(ctx, path, label):
    return ctx.validate("Trace_ShardManager", TRACE_CFG, path, label=label, header=1)


def run(ctx, controls=("reset_late", "hoisted_index", "first_verdict", "quadratic_count")):
    thorough = ctx.tier == "thorough"
    vlib.build_harness()
    w = vlib.workdir(ctx.pid.lower() + "_sm")
    ctx.model("MC_ShardManager", "MC_ShardManager.cfg", must_cover=("AddCas", "FlushWrite", "FlushRegister", "RegisterExt"))
    ctx.model("MC_ShardManager", "MC_ShardManager_cap.cfg", coverage=False)      # a cap of 3 entries that is reached
    for v in controls:
        ctx.model("MC_ShardManager", "MC_ShardManager_%s.cfg" % v, expect_violation="Invs", coverage=False)
    # behaviours of the model (simulation) replayed under gate control: every step is one action
    scn = ctx.generate("Gen_ShardManager", "Gen_ShardManager.cfg", simulate="num=%d" % (1500 if thorough else 300),
                       extra="-depth 12 -seed %d" % ctx.seed)
    sp = os.path.join(w, "scn.ndjson")
    with open(sp, "w") as f:
        for s in scn:
            f.write(json.dumps(s) + "\n")
    if scn:
        ctx.sample({"generated_schedule": scn[0]})
    t = os.path.join(w, "sched.ndjson")
    r = vlib.xv("shardmgr", mode="sched", seed=ctx.seed, out=t, **{"in": sp})
    validate(ctx, t, "sm-sched")
    t2 = os.path.join(w, "seq.ndjson")
    r2 = vlib.xv("shardmgr", mode="seq", n=200 if thorough else 40, seed=ctx.seed, out=t2)
    validate(ctx, t2, "sm-seq")
    ctx.notes["shard_manager"] = {"schedules": len(scn), "sched": {k: v for k, v in r.items() if k != "sample"},
                                  "seq": {k: v for k, v in r2.items() if k != "sample"}}
    need = ["SmAdd", "SmFlushWrite", "SmRegister", "SmQuery:found", "SmQuery:none"]
    missing = [n for n in need if r["counts"].get(n, 0) == 0]
    if missing or r.get("skipped_steps", 0) * 10 > max(1, r["counts"].get("SmAdd", 0)):
        raise vlib.ToolError("vacuity: shard manager schedules not realised: missing %s, skipped %s" % (missing, r.get("skipped_steps")))
    ctx.assumptions += [
        "ShardFileManager: a chunk's 64-bit prefix is its engineered first word (chunks 1 and 2 collide), keyed hashes of distinct chunks never share a prefix; within one shard the location that survives for a prefix is unspecified, so for colliding plain prefixes only truthfulness of the answer is required",
    ]
