"""C08 Xorb validation accepts only hash-consistent objects and never panics / allocates unboundedly."""
import json
import os

import vlib
from checks import xorb_common as xc


def check(ctx):
    thorough = ctx.tier == "thorough"
    vlib.build_harness()
    w = vlib.workdir("c08")
    # exhaustive: every field-level mutation of every xorb of <= 3 chunks (6-chunk universe, 3 footer forms), 5 claimed
    # hashes each: AcceptSound, ValidComplete, Agree
    xc.models(ctx, big=True)
    # negative control: both validators skip the boundary-offset comparison
    ctx.model("MC_Xorb", "MC_Xorb_skip.cfg", expect_violation="Invs", coverage=False)

    # (A) every mutated object of the model, concretised by the independent encoder, judged by the code
    scn = ctx.generate("Gen_Xorb", "Gen_Xorb_big.cfg" if thorough else "Gen_Xorb.cfg", timeout=1800)
    sp = os.path.join(w, "scn.ndjson")
    with open(sp, "w") as f:
        for sc in scn:
            f.write(json.dumps(sc) + "\n")
    ctx.sample({"generated_scenario": scn[len(scn) // 2]})
    ctx.notes["scenarios_generated"] = len(scn)
    kinds, verd, objects = {}, {}, 0
    for i, part in enumerate(xc.split_file(sp, 12000)):
        t = os.path.join(w, "scn_%d.ndjson" % i)
        s = vlib.xv("xorb", mode="scn", seed=ctx.seed, out=t, timeout=1500, **{"in": part})
        objects += s["objects"]
        for k, v in s["mutation_kinds"].items():
            kinds[k] = kinds.get(k, 0) + v
        for k, v in s["verdicts"].items():
            verd[k] = verd.get(k, 0) + v
        if i == 0:
            ctx.sample({"replayed_object": s["sample"]})
        xc.validate(ctx, t, "scn%d" % i, timeout=3000)
    ctx.notes["scenario_replay"] = {"objects": objects, "mutation_kinds": kinds, "verdicts": verd}
    ctx.exhaustive = True
    # (R) byte-level fault enumeration on valid xorbs of the real serializer and of the independent encoder
    t = os.path.join(w, "faults.ndjson")
    s = vlib.xv("xorb", mode="faults", seed=ctx.seed, thorough=1 if thorough else 0, out=t, timeout=3000)
    ctx.sample({"fault_input": s["sample"]})
    ctx.notes["fault_enumeration"] = {k: v for k, v in s.items() if k != "sample"}
    xc.validate(ctx, t, "faults", timeout=3000)
    ctx.assumptions += [
        "blake3 and LZ4 are uninterpreted primitives; hashes are interned ids; 'decodes / root / footer consistent' for a byte string is the harness's own strict sequential reading (xorbenc + merkleref), which shares no code with cas_object",
        "the model abstracts misaligned parsing (a declared count or length that disagrees with what is present never parses); that abstraction is tested by replaying every mutated object of the model and comparing accept / not-accept for both validators and both footer parsers",
        "unbounded allocation is observed as the death of a child process under RLIMIT_AS = 512 MiB (an allocation below that is not seen); panics are observed in debug builds (overflow checks on)",
        "the streaming validator accepts the empty xorb (no chunks, zero hash) which the seekable one rejects: agreement of the validators is claimed for non-empty objects with a v1 footer marker only",
    ]
    if ctx.violations:
        return          # vacuity is judged on complete runs only
    expected_kinds = {"none", "ver", "clen", "ulen", "scheme", "payload", "drop", "dup", "swap", "splice", "insert", "oversize",
                      "cut_frame", "cut_after", "cut_foot8", "cut_foot", "gap", "trail", "empty", "f_ident", "f_ver", "f_hash",
                      "f_hident", "f_hver", "f_bident", "f_bver", "f_n1", "f_n2", "f_n3", "f_counts", "f_hashes", "f_bounds",
                      "f_unpacked", "f_hoff", "f_boff", "f_infolen", "f_shrink", "f_grow"}
    xc.need(kinds, "every mutation kind must be replayed", expected_kinds <= set(kinds))
    xc.need(verd, "both validators must accept and reject something", all(verd.get(k, 0) > 0 for k in ("seek:accept", "seek:reject", "stream:accept", "stream:reject")))

    ic = s["input_classes"]
    xc.need(s, "flips, truncations, splices, inflated fields, frames longer than declared and random strings must all be enumerated",
            all(ic.get(k, 0) > 0 for k in ("flip", "trunc", "splice", "set32", "set24", "overlong", "random", "none")))


def replay(ctx, path):
    return 0 if xc.validate(ctx, os.path.abspath(path), "replay") else 1
