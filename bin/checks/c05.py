"""C05 Deduplication answers are truthful."""
from checks import sh_common


def check(ctx):
    thorough = ctx.tier == "thorough"
    # the lookup / dedup-query definitions over all small shards (colliding prefixes, repeated chunks, keyed), Cap = 2
    ctx.model("MC_Shard", "MC_Shard.cfg", coverage=False)
    ctx.model("MC_Shard", "MC_Shard_prefixonly.cfg", expect_violation="PrefixOnlyTruthful", coverage=False)
    k = 8 if thorough else 3
    for i in range(k):
        sh_common.record(ctx, "dedup", 16 if not thorough else 24, seed_off=i,
                         need=("ShDedup:mem:found", "ShDedup:disk:found", "ShDedup:manager:found", "ShDedup:disk:none"))
    # dedup queries against the results of unions / differences as well
    sh_common.record(ctx, "setops", 10 * k, seed_off=50, need=("ShDedup:disk:found",))
    ctx.assumptions += sh_common.ASSUME


def replay(ctx, path):
    return 0 if sh_common.validate(ctx, path, "replay") else 1
