"""C05 Deduplication answers are truthful."""
import json

from checks import sh_common, sm_common, up_common


def check(ctx):
    thorough = ctx.tier == "thorough"
    # the lookup / dedup-query definitions over all small shards (colliding prefixes, repeated chunks, keyed), Cap = 2
    ctx.model("MC_Shard", "MC_Shard.cfg", coverage=False)
    ctx.model("MC_Shard", "MC_Shard_prefixonly.cfg", expect_violation="PrefixOnlyTruthful", coverage=False)
    k = 8 if thorough else 3
    for i in range(k):
        sh_common.record(ctx, "dedup", 16 if not thorough else 24, seed_off=i,
                         need=("ShDedup:mem:found", "ShDedup:disk:found", "ShDedup:manager:found", "ShDedup:disk:none"))
    # dedup queries against the results of unions / differences as well
    sh_common.record(ctx, "setops", 10 * k, seed_off=50, need=("ShDedup:disk:found",))
    # the answers the upload pipeline actually acts on, including the lookup in the file's own pending xorb
    up_common.run_decisions(ctx, ["C05"])
    # the manager's answers under every interleaving of add / flush / register (in-memory shard, keyed collections)
    sm_common.run(ctx, controls=("first_verdict",))
    ctx.assumptions += sh_common.ASSUME


def replay(ctx, path):
    if json.loads(open(path).readline()).get("ev") == "SmSetup":
        return 0 if sm_common.validate(ctx, path, "replay") else 1
    if "limits" in json.loads(open(path).readline()):      # an upload trace
        return 0 if up_common.validate(ctx, path, "replay", ["C05"]) else 1
    return 0 if sh_common.validate(ctx, path, "replay") else 1
