"""C04 Chunking is a deterministic, content-defined, bounded function of the stream."""
import json
import os

import vlib

TRACE_CFG = """SPECIFICATION TraceSpec
CONSTANTS
  W = %(w)d
  MinChunk = %(min)d
  MaxChunk = %(max)d
  SkipExtra = 0
  ResetCur = TRUE
INVARIANT Invs
POSTCONDITION TraceAccepted
CHECK_DEADLOCK FALSE
"""

# chunk-size configurations (the repository's own HF_XET_* mechanism; one harness process per configuration)
CONFIGS = {
    "t128d1": {"HF_XET_TARGET_CHUNK_SIZE": "128", "HF_XET_MINIMUM_CHUNK_DIVISOR": "1", "HF_XET_MAXIMUM_CHUNK_MULTIPLIER": "2"},
    "t128": {"HF_XET_TARGET_CHUNK_SIZE": "128"},                                    # min 16 <= window: no skip-ahead
    "t256d2m4": {"HF_XET_TARGET_CHUNK_SIZE": "256", "HF_XET_MINIMUM_CHUNK_DIVISOR": "2", "HF_XET_MAXIMUM_CHUNK_MULTIPLIER": "4"},
    "t1024": {"HF_XET_TARGET_CHUNK_SIZE": "1024"},
    "t8192": {"HF_XET_TARGET_CHUNK_SIZE": "8192"},
    "t65536": {},                                                                   # the production defaults
    "t65536x": {"HF_XET_TARGET_CHUNK_SIZE": "65536", "HF_XET_MINIMUM_CHUNK_DIVISOR": "8", "HF_XET_MAXIMUM_CHUNK_MULTIPLIER": "2"},
}
# length classes of Gen_Chunker -> class names of the driver's synthesiser
GEN_ENV = CONFIGS["t128d1"]


def trace_cfg(path):
    setup = json.loads(open(path).readline())
    return TRACE_CFG % dict(w=setup["w"], min=setup["min"], max=setup["max"])


def validate(ctx, path, label):
    return ctx.validate("Trace_Chunker", trace_cfg(path), path, label=label, header=1)


def add_counts(total, r):
    for k, v in r["counts"].items():
        total[k] = total.get(k, 0) + v


def models(ctx, thorough):
    branches = ("CallEmpty", "CallFlush", "CallSkipOnly", "CallNoMatch", "CallMatchSkip", "CallMatch", "CallForcedClamp",
                "CallForced", "CallBlock")
    # scaled-down constants (W=2, min 5, max 8), all reference streams of <= 3 chunks + tail, all call sequences
    ctx.model("MC_Chunker", "MC_Chunker.cfg", must_cover=branches)
    # min <= window: the skip-ahead branch is dead, everything else must still hold
    ctx.model("MC_Chunker", "MC_Chunker_noskip.cfg",
              must_cover=("CallEmpty", "CallFlush", "CallNoMatch", "CallMatch", "CallForcedClamp", "CallForced", "CallBlock"))
    # the real constants of target 128 / divisor 1 (W=64, 128, 256) over the length classes
    ctx.model("MC_Chunker", "MC_Chunker_real.cfg", must_cover=branches)
    # the reference rule itself on concrete symbols: position independence, and the transcribed chunker follows it
    ctx.model("ChunkerRule", "ChunkerRule.cfg", must_cover=("Next",))
    ctx.model("ChunkerRule", "ChunkerRule_min2.cfg", must_cover=("Next",))
    # negative controls: skip distance off by one; cur_chunk_len not reset at a cut; rule that does not reset the hash
    ctx.model("MC_Chunker", "MC_Chunker_skip1.cfg", expect_violation="MCInvs", coverage=False)
    ctx.model("MC_Chunker", "MC_Chunker_noreset.cfg", expect_violation="MCInvs", coverage=False)
    ctx.model("ChunkerRule", "ChunkerRule_noreset.cfg", expect_violation="Invs", coverage=False)
    if thorough:
        ctx.model("MC_Chunker", "MC_Chunker_real_mid.cfg", timeout=1800)
        ctx.model("MC_Chunker", "MC_Chunker_real_big.cfg", timeout=3400)
        ctx.model("ChunkerRule", "ChunkerRule_big.cfg", timeout=3400)


def check(ctx):
    models(ctx, ctx.tier == "thorough")
    drivers_only(ctx)


def drivers_only(ctx):
    thorough = ctx.tier == "thorough"
    vlib.build_harness()
    w = vlib.workdir("c04")
    k = 6 if thorough else 1
    counts = {}
    per_cfg = {}
    # behaviours of the model (length-class lists and call-size lists chosen by TLC) realised as bytes and replayed
    scn = ctx.generate("Gen_Chunker", "Gen_Chunker.cfg", simulate="num=%d" % (150 * k), extra="-depth 30 -seed %d" % ctx.seed)
    sp = os.path.join(w, "scn.ndjson")
    with open(sp, "w") as f:
        for s in scn:
            f.write(json.dumps(s) + "\n")
    if not scn:
        raise vlib.ToolError("Gen_Chunker produced no scenario")
    ctx.sample({"generated_scenario": scn[0]})
    ctx.notes["scenarios_generated"] = len(scn)
    for cfg in ("t128d1", "t1024") + (("t65536",) if thorough else ()):
        t = os.path.join(w, "gen_%s.ndjson" % cfg)
        r = vlib.xv("chunker", env=CONFIGS[cfg], mode="scn", seed=ctx.seed, out=t, **{"in": sp})
        add_counts(counts, r)
        validate(ctx, t, "gen-" + cfg)
    plan = [("t128d1", "mixed", 90 * k), ("t128", "random", 12 * k), ("t256d2m4", "classes", 30 * k), ("t1024", "mixed", 80 * k),
            ("t8192", "mixed", 44 * k), ("t65536", "random", 12 * k), ("t65536x", "classes", 12 * k)]
    for i, (cfg, mode, n) in enumerate(plan):
        t = os.path.join(w, "%s_%s.ndjson" % (cfg, mode))
        r = vlib.xv("chunker", env=CONFIGS[cfg], mode=mode, n=n, seed=ctx.seed + 1000 * i, out=t)
        add_counts(counts, r)
        c = per_cfg.setdefault(cfg, {"min": r["min"], "max": r["max"], "runs": 0, "events": 0})
        c["runs"] += r["runs"]
        c["events"] += r["events"]
        if i == 0:
            ctx.sample({"config": CONFIGS[cfg], "recorded_trace_prefix": r["sample"][:8]})
        validate(ctx, t, "%s-%s" % (cfg, mode))
        # the production-size skip branch: a boundary inside the first hashed bytes after min-64-1 was really seen
        if cfg in ("t1024", "t8192", "t65536x") and mode != "random" and r["counts"].get("chunks_in_window", 0) == 0:
            raise vlib.ToolError("vacuity: no chunk shorter than the minimum at %s (skip-ahead window never hit)" % cfg)
    ctx.notes["event_counts"] = counts
    ctx.notes["configurations"] = per_cfg
    need = ["calls_empty", "calls_none", "calls_partial", "blocks", "finish_flush", "chunks_at_max", "chunks_in_window",
            "chunks_mincut", "ref_tail_open", "ref_match", "kind:constant", "kind:periodic", "kind:lowentropy", "kind:random",
            "kind:relocated", "partition:ones", "partition:whole", "partition:around_boundaries"]
    missing = [n for n in need if counts.get(n, 0) == 0]
    if missing:
        raise vlib.ToolError("vacuity: never exercised by the drivers: %s" % missing)
    ctx.assumptions += [
        "the gear table and h = (h << 1) + T[b] are primitives; the reference boundaries are computed by the harness's independent implementation of the published rule (gearref) and carried in the trace",
        "streams are sampled (random, constant, periodic 1..4096, low-entropy, boundary-rich, relocated content, synthesised length classes); the model is exhaustive over reference length lists and call sequences only for the small instances",
        "power-of-two targets 128, 256, 1024, 8192, 65536 with the divisor / multiplier settings listed under configurations",
        "next_block(&[], true) returns without flushing (the code's behaviour; finish() or next(&[], true) flushes) - transcribed, not judged",
    ]


def replay(ctx, path):
    return 0 if validate(ctx, path, "replay") else 1
