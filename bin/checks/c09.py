"""C09 Shard files answer every lookup exactly as the data they were built from."""
from checks import sh_common


def check(ctx):
    thorough = ctx.tier == "thorough"
    # interpolation search: every probe position the floating-point interpolation could produce, windows 1..3
    for w in (1, 2, 3):
        ctx.model("MC_ShardSearch", "MC_ShardSearch_w%d.cfg" % w, must_cover=("Probe", "Scan"))
    ctx.model("MC_ShardSearch", "MC_ShardSearch_ctl.cfg", expect_violation="Sound", coverage=False)
    ctx.model("MC_Shard", "MC_Shard.cfg", coverage=False)
    sh_common.record(ctx, "search", 1, need=("SsSearch",), **({"thorough": 1} if thorough else {}))
    k = 8 if thorough else 3
    for i in range(k):
        sh_common.record(ctx, "lookup", 16, seed_off=i,
                         need=("ShLookup:file:hit", "ShLookup:file:none", "ShLookup:xorb:hit", "ShLookup:xorb:none", "ShScan", "ShSizes"))
    # exported (re-keyed, tables optionally dropped, streaming and file variants) shards are serialized shards too:
    # scans and by-hash lookups of every export
    sh_common.record(ctx, "keyed", 4 if not thorough else 8, seed_off=70, need=("ShExport", "ShExportLookup:file:hit", "ShExportLookup:file:none"))
    ctx.exhaustive = True
    ctx.assumptions += sh_common.ASSUME + [
        "the interpolated probe position is modelled as ANY position the clamp allows, so the model covers every floating-point rounding",
        "the search's tuning constants are shrunk through a verification hook for small tables (windows 1-3) and left at 256 / 4 for tables of 257-4000 entries"]


def replay(ctx, path):
    return 0 if sh_common.validate(ctx, path, "replay") else 1
