"""parutils' worker pool (tokio_par_for_each / run_tokio_parallel): the pool under data_client::upload_async and
download_async.  ParFor.tla (the algorithm: shared queue index, results stored by index, a failing worker stops, the
caller returns the first error) is model-checked - bound, at-most-once, ok means all, errors propagate, termination, and
that it implements the observable behaviour ParForObs.tla; recorded calls of the real functions are validated against
ParForObs by Trace_ParFor.tla (result order for C01, error propagation for C16)."""
import os

import vlib

TRACE_CFG = """SPECIFICATION TraceSpec
POSTCONDITION TraceAccepted
CHECK_DEADLOCK FALSE
"""


def validate(ctx, path, label):
    return ctx.validate("Trace_ParFor", TRACE_CFG, path, label=label, header=1)


def run(ctx):
    thorough = ctx.tier == "thorough"
    ctx.model("ParFor", "MC_ParFor.cfg", workers=2)
    ctx.model("ParFor", "MC_ParFor_nofail.cfg", workers=2)
    ctx.model("ParFor", "MC_ParFor_lost_error.cfg", expect_violation="Invs", coverage=False)
    ctx.model("ParFor", "MC_ParFor_racy_index.cfg", expect_violation="Invs", coverage=False)
    w = vlib.workdir(ctx.pid.lower())
    t = os.path.join(w, "parfor.ndjson")
    r = vlib.xv("parfor", n=600 if thorough else 120, seed=ctx.seed, out=t)
    ctx.notes["parfor_calls"] = {k: r.get(k) for k in ("runs", "ok", "err", "panics")}
    if not r.get("ok") or not r.get("err"):
        raise vlib.ToolError("vacuity: the parfor driver produced no successful or no failing call: %s" % r)
    return validate(ctx, t, "parfor")
