"""C10 Shard union, difference and consolidation neither lose nor invent records."""
from checks import sh_common


def check(ctx):
    thorough = ctx.tier == "thorough"
    ctx.model("ShardSetOps", "MC_ShardSetOps_union.cfg", must_cover=("Step",))
    ctx.model("ShardSetOps", "MC_ShardSetOps_difference.cfg", must_cover=("Step",))
    ctx.model("ShardSetOps", "MC_ShardSetOps_ctl.cfg", expect_violation="Correct", coverage=False)
    k = 8 if thorough else 3
    for i in range(k):
        sh_common.record(ctx, "setops", 20, seed_off=i, need=("ShSetOp", "ShConsolidate", "ShLookup:file:hit"))
    ctx.assumptions += sh_common.ASSUME


def replay(ctx, path):
    return 0 if sh_common.validate(ctx, path, "replay") else 1
