"""C19 Interrupted writes never leave a partial file under a final name."""
import json
import os

import vlib
from checks import sysfs

TRACE_CFG = """SPECIFICATION TraceSpec
CONSTANTS
  Protos = {"shard_flush", "consolidate", "local_put", "cache_put"}
  AllInputs = {"i1", "i2", "i3", "i4"}
  Variant = "ok"
POSTCONDITION TraceAccepted
CHECK_DEADLOCK FALSE
"""


ASSUME = [
        "system-call level: the operation is deterministic up to temporary names, so the n-th call of a fresh run is the call recorded; every kill run is checked to have died on entry of the same abstract call (others are counted as unrealised); only calls of the operation's own thread inside the watched directory are projected (no mmap writes there)",

        "process-crash model: the directory is copied at every crash point (hook between two file-system effects); a crash while the temporary file is being written is emulated by truncating it to prefix lengths 0, 1, half, len-1",
        "consistency of a final-named file with its name is decided by the component's own validators (shard: content hash = name and it parses; xorb: validate_cas_object for the name's hash; cache item: length and crc32 of the name)",
        "cache_put gives up subsumed and evicted items by design; everything else retrievable before must be retrievable after the re-open",
]


def validate(ctx, path, label):
    return ctx.validate("Trace_AtomicFs", TRACE_CFG, path, label=label, header=1)


def check(ctx):
    thorough = ctx.tier == "thorough"
    vlib.build_harness()
    w = vlib.workdir("c19")
    ctx.model("AtomicFs", "MC_AtomicFs.cfg", must_cover=("Create", "Write", "Rename", "Unlink", "Crash", "Recover"))
    ctx.model("AtomicFs", "MC_AtomicFs_ctl1.cfg", expect_violation="Invs", coverage=False)
    ctx.model("AtomicFs", "MC_AtomicFs_ctl2.cfg", expect_violation="Invs", coverage=False)
    ctx.exhaustive = True
    points = {}
    for i in range(6 if thorough else 1):
        t = os.path.join(w, "crash_%d.ndjson" % i)
        r = vlib.xv("atomicfs", n=40 if thorough else 12, seed=ctx.seed + i, out=t)
        for k, v in r["points"].items():
            points[k] = points.get(k, 0) + v
        if i == 0:
            ctx.sample({"recorded_trace_prefix": r["sample"]})
        validate(ctx, t, "crash-%d" % i)
    ctx.notes["crash_point_snapshots"] = points
    need = ["partial_write", "shard_before_rename", "shard_after_rename", "sfc_before_rename", "sfc_after_rename",
            "consolidate_before_remove", "consolidate_after_remove", "cc_before_del", "cc_after_del"]
    missing = [p for p in need if points.get(p, 0) == 0]
    if missing:
        raise vlib.ToolError("vacuity: crash points never reached: %s" % missing)
    # system-call level: kill a fresh run just before every modifying system call (independent of the hooks)
    if not sysfs.available():
        # the hook-based crash points above stand on their own; the evidence says that this part did not run
        ctx.notes["syscall_level"] = "skipped: strace / ptrace is not available in this environment"
        vlib.log("[c19] strace not available: system-call level exploration skipped")
        ctx.assumptions += ASSUME
        return
    sysw = vlib.workdir("c19sys")
    lines, tot, ops = ['{"ev":"AfSetup"}'], {"events": 0, "kills": 0, "unrealised": 0, "operations": 0}, {}
    for proto in ("shard_flush", "consolidate", "local_put", "cache_put"):
        for sd in range(ctx.seed, ctx.seed + (16 if thorough else 4)):
            ev, st = sysfs.explore(sysw, proto, sd, "s")
            lines += ev + ['{"ev":"reset"}']
            tot["operations"] += 1
            for k in ("events", "kills", "unrealised"):
                tot[k] += st[k]
            for l in ev:
                v = json.loads(l)
                if v["ev"] == "AfSys":
                    ops[v["op"]] = ops.get(v["op"], 0) + 1
    t = os.path.join(sysw, "sys.ndjson")
    open(t, "w").write("\n".join(lines) + "\n")
    ctx.sample({"syscall_level_trace_prefix": [json.loads(l) for l in lines[1:6]]})
    validate(ctx, t, "syscall-kills")
    ctx.notes["syscall_level"] = dict(tot, ops=ops)
    for need_op in ("openw", "write", "rename", "unlink"):
        if ops.get(need_op, 0) == 0:
            raise vlib.ToolError("vacuity: no %s system call observed" % need_op)
    if tot["kills"] == 0 or tot["unrealised"] * 5 > tot["events"]:
        raise vlib.ToolError("vacuity: kill runs not realised: %s" % tot)
    ctx.assumptions += ASSUME


def replay(ctx, path):
    return 0 if validate(ctx, path, "replay") else 1
