"""C19 Interrupted writes never leave a partial file under a final name."""
import os

import vlib

TRACE_CFG = """SPECIFICATION TraceSpec
CONSTANTS
  Protos = {"shard_flush", "consolidate", "local_put", "cache_put"}
  AllInputs = {"i1", "i2", "i3", "i4"}
  Variant = "ok"
POSTCONDITION TraceAccepted
CHECK_DEADLOCK FALSE
"""


def validate(ctx, path, label):
    return ctx.validate("Trace_AtomicFs", TRACE_CFG, path, label=label, header=1)


def check(ctx):
    thorough = ctx.tier == "thorough"
    vlib.build_harness()
    w = vlib.workdir("c19")
    ctx.model("AtomicFs", "MC_AtomicFs.cfg", must_cover=("Create", "Write", "Rename", "Unlink", "Crash", "Recover"))
    ctx.model("AtomicFs", "MC_AtomicFs_ctl1.cfg", expect_violation="Invs", coverage=False)
    ctx.model("AtomicFs", "MC_AtomicFs_ctl2.cfg", expect_violation="Invs", coverage=False)
    ctx.exhaustive = True
    points = {}
    for i in range(6 if thorough else 1):
        t = os.path.join(w, "crash_%d.ndjson" % i)
        r = vlib.xv("atomicfs", n=40 if thorough else 12, seed=ctx.seed + i, out=t)
        for k, v in r["points"].items():
            points[k] = points.get(k, 0) + v
        if i == 0:
            ctx.sample({"recorded_trace_prefix": r["sample"]})
        validate(ctx, t, "crash-%d" % i)
    ctx.notes["crash_point_snapshots"] = points
    need = ["partial_write", "shard_before_rename", "shard_after_rename", "sfc_before_rename", "sfc_after_rename",
            "consolidate_before_remove", "consolidate_after_remove", "cc_before_del", "cc_after_del"]
    missing = [p for p in need if points.get(p, 0) == 0]
    if missing:
        raise vlib.ToolError("vacuity: crash points never reached: %s" % missing)
    ctx.assumptions += [
        "process-crash model: the directory is copied at every crash point (hook between two file-system effects); a crash while the temporary file is being written is emulated by truncating it to prefix lengths 0, 1, half, len-1",
        "consistency of a final-named file with its name is decided by the component's own validators (shard: content hash = name and it parses; xorb: validate_cas_object for the name's hash; cache item: length and crc32 of the name)",
        "cache_put gives up subsumed and evicted items by design; everything else retrievable before must be retrievable after the re-open",
    ]


def replay(ctx, path):
    return 0 if validate(ctx, path, "replay") else 1
