#!/usr/bin/env python3
"""Regenerates /verif/MANIFEST.json from the table below (single source of truth for the check list)."""
import json
import os

VERIF = os.path.dirname(os.path.dirname(os.path.abspath(__file__)))
props = [json.loads(l) for l in open(os.path.join(VERIF, "properties.jsonl"))]

# id -> (engine, technique, level text, level note, design ref)
CLAIMED = {
    "C20": ("Singleflight",
            "TLC model checking (safety+liveness) of Singleflight.tla; all behaviours of the 2-caller model replayed into Group::work under async gate control; recorded traces validated against Trace_Singleflight.tla",
            "Exhaustive model checking of the lock-granularity model (safety and NoWaitForever under weak fairness) plus conformance: every maximal behaviour of the 2-caller model is executed against the real Group on current- and multi-thread runtimes and every recorded event sequence (hooks under the map mutex / result lock) must be a behaviour of the spec with all invariants holding at every step.",
            "tokio Notify semantics are modelled (registered set); hangs are observed as bounded-time timeouts; blake3-free.",
            "5.9, 6 C20"),
}
CLAIMED["C12"] = ("ChunkCache",
    "TLC model checking of ChunkCache.tla (lock/file-system granularity, damage and re-open); TLC-generated and random gate-controlled schedules, sequential damage histories and a per-byte fault enumeration replayed on DiskCache; traces validated against Trace_ChunkCache.tla",
    "Exhaustive model checking of the cache protocol (2 threads; damage/plant/delete/re-open environment) with HitsGood, plus conformance: every hit recorded from the real DiskCache carries the interned chunk ids and offsets, which the trace spec compares with the content table; every open/crc outcome must be the one the model predicts from the damage the harness applied; fault enumeration covers a burst error at every byte, truncation to every length, extension, deletion and junk names at every directory level.",
    "crc32 burst-detection property assumed; data for distinct chunks distinct; free-running traces validated without file-system prediction.",
    "5.7, 6 C12")
CLAIMED["C13"] = ("ChunkCache",
    "TLC model checking of ChunkCache.tla (AccountingExact, NoOrphanFiles, CapacityBound; negative control FixDrift=FALSE); gate-controlled schedules incl. identical concurrent puts replayed on DiskCache; counters logged under the state lock validated against Trace_ChunkCache.tla",
    "Exhaustive model checking of every interleaving of two threads at lock/file-system granularity, plus conformance: every commit / removal event carries num_items and total_bytes read under the lock and must equal the model's values; quiescent directory listings must contain no file the model does not track and, after read-back, must equal the tracked set and byte total.",
    "eviction choice and find_match choice are logged, not predicted; I/O errors may end any operation.",
    "5.7, 6 C13")

_UP_TECH = "TLC model checking of the pipeline design model Upload.tla (dedup / aggregation / background puts / finalize; negative control FixF1=FALSE); model behaviours (Gen_Upload) and randomized multi-session scenarios replayed through FileUploadSession over an observing, fault-injecting store under ten size-limit / concurrency configurations (several users with separate shard caches and global dedup, several processes sharing one cache, saturated upload permits, a long session history under an index cap), also through the real RemoteClient against a loopback server whose own decoder reads what goes over the wire (keyed global-dedup shards included) and through the top-level API data_client::upload_async / download_async; recorded events validated against the observation machine UploadObs.tla via Trace_Upload.tla with the clauses of this property enabled"
_UP_NOTE = "hashes are interned ids; reference hashes come from the harness's independent implementations (merkleref, sha2, gearref); store = LocalClient behind an observing client; limits via the repository's HF_XET_* variables (debug builds)."
for _pid, _text in {
    "C01": "Every UpDownload event (whole file and byte ranges through the pointer's string form) must carry an output whose interned digest equals that of the expected slice, and every uploaded file record must flatten, through the xorbs actually stored, to the file's chunk-id sequence.",
    "C02": "Every put must be consistent with its declared boundaries and chunk hashes and be named by the independently recomputed xorb hash (function + injective); every file record must reference stored xorbs with in-range indices and byte counts, verification hashes, file hash and SHA-256 equal to the reference values; every stored xorb file must pass both validators and re-hash to its name.",
    "C03": "Every Finish must return the reference file hash of (content, salt) and the byte count; the map (content, salt) -> (hash, size) is checked to be a function and injective over all scenarios of a run (feed partitions, dedup state, concurrency, ingestion block sizes vary).",
    "C11": "After a successful finalize the CAS sections readable from the local shard cache must list every xorb the session stored; a later Finish whose chunks are all in the cache and that reports no fragmentation prevention must report zero new bytes (sessions of several users, and of several processes sharing one cache directory). ShardManager.tla (ShardFileManager at lock granularity; NoLoss / FoundAgain under every interleaving of add, the two critical sections of flush, and register; negative control reset_late) is model-checked and its TLC-generated schedules are replayed on two threads under gate control, validated by Trace_ShardManager.tla.",
    "C14": "Per file: size = total = bytes fed, new + deduped = total (bytes and chunks), the per-position decisions of the deduper partition the file, prevented counters equal the new chunks covered by a rejected hit; per session: sums of its files, xorb/shard upload bytes equal what the store accepted.",
    "C15": "Every PutStart must be non-empty, within the configured chunk and byte limits with every chunk within the maximum chunk size; no uploaded file record may hold the zero xorb hash.",
    "C16": "Every ShardStart must reference only xorbs already stored; a session with an injected put or shard failure must report an error from add_data / finish / finalize and never reach a successful Finalize; a successful Finalize requires every finished file's record to be uploaded with all its xorbs stored.",
}.items():
    CLAIMED[_pid] = ("Upload", _UP_TECH, "Exhaustive model checking of the design model (2 files x 3 chunks, one injected failure: RoundTrip, NoSwallowedFailure, ShardAfterXorbs, Limits, Metrics, DedupComplete) plus conformance on recorded executions. " + _text, _UP_NOTE, "5.5, 6 " + _pid)

_SH_NOTE = "hashes are engineered [u64;4] values projected to <<prefix id, full id>>; blake3/HMAC uninterpreted (reference keyed forms from the harness's own blake3 keyed hash); xorb / file content is a function of its hash in the generated shard families."
CLAIMED["C05"] = ("Shard",
    "TLC model checking of the lookup / dedup-query definitions of Shard.tla over all small shards (colliding prefixes, repeated chunks, plain and keyed, result buffer overflow; negative control: prefix-only answers); every dedup answer of the in-memory shard, the serialized shard and the ShardFileManager (add / flush / keyed-export / register histories, results of set operations) validated against the declared shard content by Trace_Shard.tla In addition ShardManager.tla (ShardFileManager at lock granularity: collections by key, two-section flush, query across collections; negative controls reset_late / hoisted_index / first_verdict) is model-checked, and TLC-generated schedules are replayed on two threads under gate control (plus sequential histories) with the hook events SmAdd / SmFlushWrite / SmRegister and every query answer validated by Trace_ShardManager.tla.",
    "Exhaustive check of the model's query semantics (Truthful, Complete below the collision limit) plus conformance: each recorded answer (n, xorb, range, bytes) must be truthful for some queried shard - recorded chunk hashes at the positions equal the queried hashes (plain, or their keyed form), bytes = sum of lengths - for present, absent, partially matching and overrunning queries under engineered 64-bit prefix collisions.",
    _SH_NOTE, "5.4, 6 C05")
CLAIMED["C09"] = ("Shard",
    "TLC model checking of ShardSearch.tla (transcription of search_on_sorted_u64s with EVERY probe position the interpolation could produce, read windows 1-3, safety + termination; negative control) and of Shard.tla lookups; real search run on all sorted arrays up to length 5-6 over extreme keys with shrunk windows (hook) and on 257-4000-entry tables with default constants; every file / xorb lookup, full scan (seekable, minimal, streaming readers) and size / total of serialized shards validated against the declared content by Trace_Shard.tla",
    "Exhaustive model checking of the search algorithm (result = exactly the entries holding the key, up to the buffer capacity, no duplicates, terminates) plus conformance of the real search and of every reader on shards with 0..280 records, up to 7 records sharing a prefix, all four flag combinations and empty records.",
    _SH_NOTE, "5.4, 6 C09")
CLAIMED["C10"] = ("Shard",
    "TLC model checking of ShardSetOps.tla (two-cursor merge with the code's action table incl. the four flag-superset cases; result = set-theoretic union / difference, sorted, no duplicates, terminates; negative control); unions / differences through readers, files and in-memory shards and consolidation of session directories at several thresholds executed on generated shard families and validated by Trace_Shard.tla",
    "Exhaustive model checking of the merge for all pairs of sorted inputs over 3 hashes x 4 flag sets, plus conformance: the listing, totals and lookup tables of every result must equal the union / difference computed by the spec from the declared inputs; consolidation must keep every record retrievable, return existing hash-named shards, invent nothing and delete only shards covered by a returned shard.",
    _SH_NOTE, "5.4, 6 C10")
CLAIMED["C18"] = ("Shard",
    "TLC model checking of ShardKeyed.tla (export under keys, per-key collections, clock, load / clean; negative controls strict_expiry and no_grace); exports for 3 keys x 8 include-flag combinations, manager dedup with unkeyed hashes against original and keyed directories, expiry at the exact boundaries through a clock hook, validated by Trace_Shard.tla In addition ShardManager.tla (ShardFileManager at lock granularity: collections by key, two-section flush, query across collections; negative controls reset_late / hoisted_index / first_verdict) is model-checked, and TLC-generated schedules are replayed on two threads under gate control (plus sequential histories) with the hook events SmAdd / SmFlushWrite / SmRegister and every query answer validated by Trace_ShardManager.tla.",
    "Exhaustive model checking of the keyed-shard life cycle plus conformance: every exported shard must hold exactly the independently computed keyed form of every chunk hash (no raw hash under a non-zero key), unchanged xorb and file hashes, file records kept or dropped and optional tables present exactly as requested; manager answers for unkeyed queries equal the original's; loaded iff now <= expiry, deleted iff expiry + grace <= now.",
    _SH_NOTE + " Equality of manager answers is checked on collision-free prefixes (see evidence assumptions).", "5.4, 6 C18")

CLAIMED["C19"] = ("AtomicFs",
    "TLC model checking of AtomicFs.tla (temp + rename protocols of shard flush, consolidation, LocalClient put and cache put with Crash / Recover at every step; negative controls delete_before_write and write_final); directory snapshots taken by crash-point hooks between the real file-system effects (plus synthesized partial temp files) re-opened by the real components and validated by Trace_AtomicFs.tla; independently of the hooks, the operation's system calls (strace) projected to protocol steps and a fresh run killed (SIGKILL injection) just before every modifying call, the surviving directory re-opened by the real component (TrSys / TrSysCrash)",
    "Exhaustive model checking of the four write protocols with a crash after every effect, plus crash-point enumeration on the code: at every crash point of every run the copied directory must be exactly the file system the model predicts for that point, every final-named file must be complete and consistent with its name according to the component's own validator, the real re-open must succeed, everything retrievable before the operation must still be retrievable (cache: except subsumed / evicted items, and never wrong bytes), and temp files must be ignored or cleaned.",
    "process-crash model (completed system calls persist); a crash inside the write of the temporary file is emulated by truncating it to prefix lengths.",
    "5.8, 6 C19")

CLAIMED["C04"] = ("Chunker",
    "TLC model checking of Chunker.tla (call-level transcription of Chunker::next / next_block / finish over an abstract stream given by its reference chunk lengths; instances W=2/5/8, W=4/2/8 and the real constants 64/128/256 over length classes; negative controls: skip distance off by one, cur_chunk_len not reset) and of ChunkerRule.tla (concrete {0,1} streams: the one-pass reference rule is position independent and the transcribed chunker follows it for every call partition; negative control: hash not reset); model behaviours (Gen_Chunker) realised as bytes by a length-class synthesiser, plus random / constant / periodic / low-entropy / boundary-rich / relocated streams, replayed on the real Chunker under seven chunk-size configurations; every call validated against Trace_Chunker.tla",
    "Exhaustive model checking of the call protocol (out is a prefix of the reference chunking at every step and equals it at the end; buffered + emitted = consumed; no chunk above the maximum, every chunk but the stream's last at least min - 64; a call returning no chunk consumed all its input; next_block = iterated next) for all reference length lists and all call sequences of the small instances, plus conformance: every recorded call (n, final, consumed, emitted) of next / next_block / finish must equal the model's step on the reference boundaries computed by the harness's independent gear-hash implementation, for targets 128 (divisor 1 and 8), 256 (divisor 2, multiplier 4), 1024, 8192 and 65536 (Chunker::default and Chunker::new), call partitions incl. empty, one-byte, 63/64/65-byte, boundary-straddling and whole-stream calls; chunk bytes must concatenate to the input and chunk hashes equal the reference chunk hash.",
    "gear table and rolling-hash step are primitives; streams are sampled, the model is exhaustive only over length lists / call sequences of the small instances; next_block(&[], true) does not flush (transcribed, not judged); hangs of the code are recorded by a watchdog as unmatched events.",
    "5.1, 6 C04")
CLAIMED["C06"] = ("MerkleTree",
    "TLC model checking of MerkleTree.tla (merge_one_level / merge with a symbolic hash algebra, parents' cut bits non-deterministic; all leaf lists of 1..10 (12) leaves over all cut-bit patterns with repeated hashes; negative controls: >=2 guard dropped, child slice one short); every cut-bit pattern of 1..8 (11) leaves realised as leaf hashes and random families of 1..20000 leaves with purposely made variants pushed through MerkleMemDB merge_to_cas / merge_to_file (real tree walked level by level), cas_node_hash, add_file+finalize, file_node_hash, with_salt, range_hash_from_chunks, compute_data_hash / HashedWrite (incl. short-writing sinks), hex / base64 / slice forms, hmac, RawXorbData -> CasObject::serialize -> both validators, and the independent reference merkleref; validated against Trace_MerkleTree.tla",
    "Exhaustive model checking of the aggregation tree (termination, in-order leaves and lengths of every level = the input list, fan-out bounds <= 9 / >= 3 for every group but the last, uniqueness of the grouping) plus conformance: the grouping of every level of every real tree must be the rule's grouping of the recorded cut bits and its leaves the declared list; per chunk-list family all producer, validator and reference paths must yield one id per (list, salt) and different ids for different lists (changed hash, changed length, swap, insert, drop, duplicate); range hashes, chunk hashes (one-shot = streaming over random splits = reference), keyed hashes are functions equal to the reference; every text / byte form decodes to the same hash and equals the reference encoding; both xorb validators accept a serialized xorb under the uploader's hash and reject it under another.",
    "blake3 uninterpreted: hashes, salts, keys, byte strings, texts and large lengths are interned ids, injectivity is checked over what a run sees; inside a list the length is a function of the chunk hash (MerkleMemDB keeps one node per hash) and the zero hash is not a leaf.",
    "5.2, 6 C06")

CLAIMED["C07"] = ("Xorb",
    "TLC model checking of Xorb.tla (serialization with the fallback rule, footer as prefix sums, range reads; negative control Skip=fallback); generated chunk-shape lists (1 B..128 KiB, every residue mod 4, six content classes, none/lz4/bg4/auto, up to 8192 chunks) serialized by CasObject::serialize and read back through every reader and the three chunk decoders; events validated against Trace_Xorb.tla",
    "Exhaustive model checking of RoundTrip for all xorbs of <=3 chunks over a 6-chunk universe, plus conformance: for every recorded xorb the frames and footer found in the written bytes by an independent parser, the footer returned and the footer re-read must equal the specification's object computed from the chunk list and the independently computed compressor sizes (scheme in {requested, none}, none exactly when not strictly smaller; boundary and unpacked arrays = prefix sums); every chunk range a<b, get_all_bytes, uncompressed_range_length and the sync / async-read / stream decoders must return SubSeq(ids, a, b) with the specified offsets.",
    "LZ4 (lz4_flex) and blake3 uninterpreted: compressor sizes are inputs of the spec, decoded bytes are interned ids (0 = equals no input chunk); unsafe bg4 code exercised, not proved.",
    "5.3, 6 C07")
CLAIMED["C08"] = ("Xorb",
    "TLC model checking of Xorb.tla (both validators check by check, 39 field-level mutation kinds, 3 footer forms; negative control Skip=bounds); every mutated object of the model (Gen_Xorb) concretised by an independent encoder and given to validate_cas_object, validate_cas_object_from_async_read, CasObject::deserialize and deserialize_only_boundaries_section in a child process under RLIMIT_AS; byte-level fault enumeration (flips, truncation at every offset, splices, inflated fields, random strings) on valid xorbs of the real serializer and of the independent encoder; events validated against Trace_Xorb.tla",
    "Exhaustive model checking of AcceptSound (accept => frames decode, recomputed root = claimed hash, relied-on footer consistent), ValidComplete and validator agreement over all single field-level mutations of all xorbs of <=3 chunks, plus conformance: for every mutated object of the model (quick: <=2 chunks, 8.1k; thorough: all 112k) the code's accept / not-accept for both validators and both footer parsers must equal the model's and the independent strict reading of the bytes must equal the model's summary; for every fault input an accept(h) requires the independent decode + merkleref recomputation to report decodes, root = h and a consistent relied-on footer, valid xorbs must be accepted for their own hash only, and no call may panic, abort under RLIMIT_AS or hang.",
    "misaligned parsing is abstracted in the model (tested by the exhaustive replay); allocation observed as child death under RLIMIT_AS = 512 MiB, panics in debug builds; the streaming validator accepts the empty xorb, agreement claimed for non-empty v1 objects.",
    "5.3, 6 C08")

CLAIMED["C17"] = ("Reconstruct",
    "TLC model checking of Reconstruct.tla (server plan derivation, per-term cache hit / download through the singleflight + cache fill + trim + length check, sequential and parallel writer; negative controls offset_every_term, remaining_kept, fileoff_first, trim_rel_term, flight_url_only); every scenario of the small Gen_Reconstruct bound, samples of two larger bounds and random plans of up to 300 terms run end to end through RemoteClient::get_file against the harness's loopback HTTP server (reconstruction endpoint + blob store serving really serialized xorbs), both writers x no/cold/warm chunk cache x url-per-range/url-per-xorb; hook events of remote_client.rs and the output file projected to chunk-id pieces validated against Trace_Reconstruct.tla",
    "Exhaustive model checking of both writers and the fetch path (all files of <= 2 terms over xorbs <<1,2,3>>,<<2>> and of <= 3 terms over <<1,2>>,<<3>>, every byte range and the whole-file call, every plan with ordered fetch-range lists, cache off/empty/warm, every interleaving of term fetches, cache fills and writes): output bytes = SubSeq(file bytes, s+1, e), reported length = its length, no failure; plus conformance: every recorded get_file call must be a behaviour of the spec step by step (the plan the server derived from the Range header it received, each term's hit or download with the fetch range, url_range, byte and chunk counts it returned, each writer step's start/end/file offset) and must end with an output file whose chunk-id pieces equal the expected slice and a returned length of e - s; sequential = parallel = cold = warm follows because all equal the same function of (file, range).",
    "chunk contents pairwise distinct (checked on the trace); CAS server and blob store are the harness's HTTP server (plan re-checked by PlanOK); ranges within the file; cache never evicts; completion orders steered by response delays, enumerated only in the model.",
    "5.6, 6 C17")

PENDING_REASON = "check not built yet in this round (planned in DESIGN.md section 6); no claim is made"

checks = []
for p in props:
    pid = p["id"]
    if pid not in CLAIMED:
        continue
    eng, tech, text, note, ref = CLAIMED[pid]
    checks.append({
        "property_id": pid,
        "quick_cmd": "bin/check %s --tier quick" % pid,
        "thorough_cmd": "bin/check %s --tier thorough" % pid,
        "evidence_file": "evidence/%s.json" % pid,
        "replay_cmd_template": "bin/check %s --replay {path}" % pid,
        "engine": eng,
        "level_claimed": {"category": "model_checking", "text": text, "design_ref": ref},
        "level_note": note,
        "technique": tech,
    })
m = {
    "version": 1,
    "setup_cmd": "cd harness && cp -n /repo/Cargo.lock Cargo.lock; CARGO_NET_OFFLINE=true cargo build --offline",
    "hooks": {
        "guard": "xet_verif",
        "enable": "RUSTFLAGS --cfg xet_verif (set in /verif/harness/.cargo/config.toml; the harness has path dependencies on /repo's crates)",
        "baseline_off_cmd": "cd /repo && (cargo nextest run --workspace --no-fail-fast --tool-config-file pb:/w/lib/nextest.toml --profile pb --test-threads 8 --offline || cargo test --workspace --no-fail-fast --offline)",
        "source_commits": [l.strip() for l in open(os.path.join(VERIF, "hooks_commits.txt")) if l.strip()],
        "add_only": True,
    },
    "engines": [
        {"name": "tlc", "path": "specs/", "serves_properties": sorted(CLAIMED), "kind_free_text": "TLA+ specifications model-checked with TLC; Trace_* modules validate ndjson traces recorded from the real crates; Gen_* modules emit scenarios"},
        {"name": "xv", "path": "harness/", "serves_properties": sorted(CLAIMED), "kind_free_text": "Rust conformance harness (path deps on /repo crates, --cfg xet_verif): gate-controlled replay of TLC scenarios, randomized recorders, fault/crash enumeration"},
    ],
    "checks": checks,
    "not_applicable": [{"property_id": p["id"], "reason": PENDING_REASON} for p in props if p["id"] not in CLAIMED],
    "notes": "bin/check <id> --tier quick|thorough; exit 0 held / 1 VIOLATION / 2 tool error. known_findings.txt lists fixed defects and open findings.",
}
json.dump(m, open(os.path.join(VERIF, "MANIFEST.json"), "w"), indent=1)
print("MANIFEST.json: %d checks, %d not_applicable" % (len(checks), len(m["not_applicable"])))
