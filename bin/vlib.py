"""Shared machinery of /verif/bin/check: harness build, TLC runs (model checking, scenario generation, trace
validation), known findings, evidence files.  Exit codes: 0 held, 1 VIOLATION printed, 2 tool error."""
import json
import os
import re
import shutil
import subprocess
import sys
import time

VERIF = os.path.dirname(os.path.dirname(os.path.abspath(__file__)))
SPECS = os.path.join(VERIF, "specs")
HARNESS = os.path.join(VERIF, "harness")
# XV_BIN: a pre-built harness binary (only for development measurements such as bin/coverage.sh; the checks registered
# in MANIFEST.json never set it and always rebuild from /repo's working tree)
XV = os.environ.get("XV_BIN") or os.path.join(HARNESS, "target", "debug", "xv")
WORK = os.path.join(VERIF, "work")
EVID = os.path.join(VERIF, "evidence")
REPLAYS = os.path.join(EVID, "replays")
KNOWN = os.path.join(VERIF, "known_findings.txt")
TLC_JAR = "/opt/veriftools/tla/tla2tools.jar"


class ToolError(Exception):
    pass


class DriverDied(ToolError):
    """the harness process was killed by a signal while running the code under test; .path = the trace recorded so far"""
    def __init__(self, path, msg):
        super().__init__(msg)
        self.path = path


def log(*a):
    print(*a, flush=True)


def sh(cmd, timeout=None, env=None, cwd=None, stdin=None):
    e = dict(os.environ)
    if env:
        e.update(env)
    try:
        p = subprocess.run(cmd, shell=isinstance(cmd, str), cwd=cwd, env=e, timeout=timeout, input=stdin,
                           stdout=subprocess.PIPE, stderr=subprocess.STDOUT, text=True, errors="replace")
        return p.returncode, p.stdout
    except subprocess.TimeoutExpired as ex:
        out = ex.stdout or ""
        if isinstance(out, bytes):
            out = out.decode(errors="replace")
        return 124, out + "\n[timeout]"


def workdir(name):
    d = os.path.join(WORK, name)
    shutil.rmtree(d, ignore_errors=True)
    os.makedirs(d, exist_ok=True)
    return d


# --------------------------------------------------------------------------- harness
_built = False


def build_harness():
    """cargo build of the harness against /repo's current working tree, hooks on."""
    global _built
    if _built or os.environ.get("XV_BIN"):
        return
    lock = os.path.join(HARNESS, "Cargo.lock")
    if not os.path.exists(lock):
        shutil.copy("/repo/Cargo.lock", lock)
    t0 = time.time()
    rc, out = sh("cargo build --offline 2>&1", cwd=HARNESS, timeout=3000, env={"CARGO_NET_OFFLINE": "true"})
    if rc != 0:
        sys.stdout.write(out[-6000:])
        raise ToolError("harness build failed (rc=%d)" % rc)
    log("[build] harness built in %.1fs" % (time.time() - t0))
    _built = True


def xv(driver, timeout=600, env=None, **kw):
    """Runs a harness driver; returns its JSON summary."""
    build_harness()
    args = [XV, driver] + ["%s=%s" % (k, v) for k, v in kw.items()]
    e = dict(os.environ)
    if env:
        e.update(env)
    try:
        p = subprocess.run(args, env=e, timeout=timeout, stdout=subprocess.PIPE, stderr=subprocess.PIPE, text=True,
                           errors="replace")
    except subprocess.TimeoutExpired:
        raise ToolError("xv %s timed out after %ss" % (driver, timeout))
    if p.returncode != 0:
        # a driver that records its trace incrementally (<out>.partial) and dies inside the code under test (abort on
        # allocation failure, stack overflow, ...): the death is data, the partial trace is judged
        part = str(kw.get("out", "")) + ".partial"
        if p.returncode < 0 and kw.get("out") and os.path.exists(part) and os.path.getsize(part) > 0:
            tail = [l for l in (p.stderr or "").splitlines() if l.strip()]
            what = next((l for l in tail if "memory allocation" in l or "overflow" in l or "panicked" in l), tail[0] if tail else "")
            return {"died": p.returncode, "partial": part, "what": what[:300]}
        out = str(kw.get("out", ""))
        if (p.returncode < 0 or p.returncode == 101) and out and os.path.exists(out) and os.path.getsize(out) > 0:
            # (101: a panic that reached the driver's main thread, e.g. through a lock that an earlier panic inside the
            # code under test had poisoned)
            # killed by a signal (abort on allocation failure, stack overflow, ...) inside the code under test: the runs
            # recorded so far plus the death are handed to the check's trace validation (bin/check catches DriverDied)
            tail = [l for l in (p.stderr or "").splitlines() if l.strip()]
            what = next((l for l in tail if "memory allocation" in l or "overflow" in l or "panicked" in l), tail[0] if tail else "")
            with open(out, "a") as f:
                f.write("\n" + json.dumps({"ev": "reset"}) + "\n" + json.dumps({"ev": "XvAbort", "driver": driver, "signal": -p.returncode if p.returncode < 0 else 0, "what": what[:300]}) + "\n")
            raise DriverDied(out, "xv %s died (rc %d): %s" % (driver, p.returncode, what[:200]))
        sys.stdout.write((p.stderr or "")[-4000:])
        raise ToolError("xv %s failed rc=%d" % (driver, p.returncode))
    last = [l for l in p.stdout.splitlines() if l.strip()]
    try:
        return json.loads(last[-1])
    except Exception:
        raise ToolError("xv %s: no JSON summary: %r" % (driver, p.stdout[-500:]))


# --------------------------------------------------------------------------- TLC
ACTION_RE = re.compile(r"^<(\w+) line \d+, col \d+ to line \d+, col \d+ of module (\w+)(?: \([\d ]+\))?>: (\d+):(\d+)")


def parse_tlc(out):
    r = {"generated": 0, "distinct": 0, "depth": 0, "actions": {}, "violated": None, "error": None}
    m = re.findall(r"(\d+) states generated, (\d+) distinct states found", out)
    if m:
        r["generated"], r["distinct"] = int(m[-1][0]), int(m[-1][1])
    m = re.findall(r"depth of the complete state graph search is (\d+)", out)
    if m:
        r["depth"] = int(m[-1])
    for line in out.splitlines():
        am = ACTION_RE.match(line)
        if am:
            name = am.group(1)
            d, t = int(am.group(3)), int(am.group(4))
            old = r["actions"].get(name, (0, 0))
            r["actions"][name] = (old[0] + d, old[1] + t)
    m = re.search(r"Error: Invariant (\w+) is violated", out)
    if m:
        r["violated"] = m.group(1)
    m = re.search(r"Error: Action property (\w+) is violated", out)
    if m:
        r["violated"] = m.group(1)
    m = re.search(r"Error: Temporal propert(?:y|ies) (\w+)? ?w(?:as|ere) violated", out)
    if m:
        r["violated"] = m.group(1) or "temporal"
    if r["violated"] is None and "Error:" in out:
        em = re.search(r"Error: (.*)", out)
        r["error"] = em.group(1) if em else "error"
    return r


def tlc(module, cfg, name, workers=8, timeout=900, simulate=None, coverage=True, env=None, extra="", heap="8g",
        deque=False):
    """Runs TLC on specs/<module>.tla with specs/<cfg>; returns (parsed, raw output)."""
    meta = workdir("tlc_%s_%d" % (name, os.getpid()))
    jopts = "-Xss512m"
    if deque:
        jopts += " -Dtlc2.tool.queue.IStateQueue=StateDeque"
    e = {"JAVA_TOOL_OPTIONS": jopts}
    if env:
        e.update(env)
    # the pre-installed `tlc` wrapper puts the CommunityModules on the classpath
    cmd = "tlc -workers %d %s -metadir %s -cleanup -noGenerateSpecTE %s %s -config %s %s" % (
        workers, "-coverage 1" if coverage else "", meta, ("-simulate " + simulate) if simulate else "", extra, cfg,
        module + ".tla")
    t0 = time.time()
    rc, out = sh(cmd, cwd=SPECS, timeout=timeout, env=e)
    shutil.rmtree(meta, ignore_errors=True)
    if rc == 124:
        raise ToolError("TLC timed out on %s/%s after %ss" % (module, cfg, timeout))
    p = parse_tlc(out)
    p["wall_s"] = round(time.time() - t0, 1)
    p["rc"] = rc
    return p, out


def scenarios_from(out):
    """Extracts the JSON documents printed by `PrintT(<<"SCN", ToJson(..)>>)`."""
    res = []
    for line in out.splitlines():
        if line.startswith('<<"SCN", '):
            s = line.strip()[len('<<"SCN", '):-2]
            try:
                v = json.loads(s)
                if isinstance(v, str):
                    v = json.loads(v)
                res.append(v)
            except Exception:
                pass
    return res


# --------------------------------------------------------------------------- check context
class Ctx:
    def __init__(self, pid, tier, seed):
        self.pid, self.tier, self.seed = pid, tier, seed
        self.t0 = time.time()
        self.states = 0
        self.transitions = 0
        self.traces = 0
        self.events = 0
        self.samples = []
        self.models = []
        self.assumptions = []
        self.notes = {}
        self.violations = 0
        self.known_hits = 0
        self.exhaustive = False
        self.evals = 0
        self.known = load_known(pid)
        os.makedirs(REPLAYS, exist_ok=True)
        os.makedirs(WORK, exist_ok=True)

    # ---- reporting
    def violation(self, what, replay_text=None, replay_path=None, tag="v"):
        """Reports a violation unless it matches a `finding:` line for this property."""
        for pat, desc in self.known:
            if re.search(pat, what):
                self.known_hits += 1
                log("KNOWN-FINDING: property=%s %s" % (self.pid, desc))
                return False
        if replay_path is None:
            replay_path = os.path.join(REPLAYS, "%s-%s-%d-%d.txt" % (self.pid, tag, self.seed, self.violations))
            with open(replay_path, "w") as f:
                f.write(replay_text or what)
        self.violations += 1
        log("[violation] %s" % what[:2000])
        log("VIOLATION property=%s replay=%s" % (self.pid, replay_path))
        return True

    def sample(self, s):
        if len(self.samples) < 6:
            self.samples.append(s)

    # ---- model checking
    def model(self, module, cfg, name=None, must_cover=(), expect_violation=None, **kw):
        """Model-checks specs/<module>.tla under <cfg>.  An invariant violation of the design model is a VIOLATION;
        with expect_violation=<name> the run is a negative control and must fail with that property."""
        name = name or (module + "_" + cfg.replace(".cfg", ""))
        p, out = tlc(module, cfg, name, **kw)
        log("[tlc] %s/%s: %d generated, %d distinct, depth %d, %.1fs%s" % (
            module, cfg, p["generated"], p["distinct"], p["depth"], p["wall_s"],
            (" VIOLATED " + str(p["violated"])) if p["violated"] else ""))
        if expect_violation is not None:
            if p["violated"] is None:
                raise ToolError("negative control %s/%s: expected a violation of %s but TLC found none:\n%s" % (
                    module, cfg, expect_violation, out[-1500:]))
            self.models.append({"module": module, "cfg": cfg, "control": True, "violated": p["violated"],
                                "distinct": p["distinct"]})
            return p, out
        if p["error"] and not p["violated"]:
            sys.stdout.write(out[-3000:])
            raise ToolError("TLC error on %s/%s: %s" % (module, cfg, p["error"]))
        if p["violated"]:
            self.violation("design model %s/%s violates %s" % (module, cfg, p["violated"]), replay_text=out, tag="model")
        else:
            for a in must_cover:
                if p["actions"].get(a, (0, 0))[1] == 0:
                    raise ToolError("vacuity: action %s of %s/%s was never taken" % (a, module, cfg))
        self.states += p["distinct"]
        self.transitions += p["generated"]
        self.models.append({"module": module, "cfg": cfg, "generated": p["generated"], "distinct": p["distinct"],
                            "depth": p["depth"], "wall_s": p["wall_s"],
                            "actions": {k: v[1] for k, v in p["actions"].items() if k[0].isupper()}})
        return p, out

    def generate(self, module, cfg, name=None, **kw):
        """Runs a Gen_ spec and returns the scenarios it printed."""
        name = name or ("gen_" + module)
        kw.setdefault("workers", 1)
        kw.setdefault("coverage", False)
        p, out = tlc(module, cfg, name, **kw)
        if p["violated"] or p["error"]:
            sys.stdout.write(out[-3000:])
            raise ToolError("scenario generation %s/%s failed: %s" % (module, cfg, p["violated"] or p["error"]))
        scn = scenarios_from(out)
        log("[gen] %s/%s: %d scenarios (%d distinct states, %.1fs)" % (module, cfg, len(scn), p["distinct"], p["wall_s"]))
        self.states += p["distinct"]
        self.transitions += p["generated"]
        return scn

    # ---- trace validation
    def validate(self, trace_module, cfg_text, trace_path, label="", max_rejects=3, timeout=1200, header=0):
        """Validates an ndjson trace (runs separated by reset events; the first `header` lines are a preamble every
        run needs) against specs/<trace_module>.tla.  Every rejected run becomes a replay artefact and a VIOLATION
        (or KNOWN-FINDING); validation continues with the runs after it."""
        lines = [l for l in open(trace_path).read().splitlines() if l.strip()]
        head, body = lines[:header], lines[header:]
        is_reset = lambda l: '"ev":"reset"' in l
        total_runs = 1 + sum(1 for l in body if is_reset(l))
        start = 0
        rejects = 0
        accepted_runs = 0
        while start < len(body):
            part = body[start:]
            ppath = trace_path if start == 0 else trace_path + ".part%d" % start
            if start:
                with open(ppath, "w") as f:
                    f.write("\n".join(head + part) + "\n")
            ok, d, out = run_trace_tlc(trace_module, cfg_text, ppath, timeout)
            if start:
                os.unlink(ppath)
            if ok:
                accepted_runs += 1 + sum(1 for l in part if is_reset(l))
                self.transitions += len(part)
                break
            # rejected at line d (1-based) of the file: the first unmatched event
            if d is not None:
                d -= header
            if d is None or d < 1 or d > len(part):
                sys.stdout.write(out[-3000:])
                raise ToolError("trace validation of %s failed without a rejection point (d=%r)" % (trace_path, d))
            lo = d - 1
            while lo > 0 and not is_reset(part[lo - 1]):
                lo -= 1
            hi = d - 1
            while hi < len(part) and not is_reset(part[hi]):
                hi += 1
            accepted_runs += sum(1 for l in part[:lo] if is_reset(l))
            self.transitions += lo
            run = part[lo:hi]
            rejects += 1
            rp = os.path.join(REPLAYS, "%s-%s-%d-%d.ndjson" % (self.pid, label or "trace", self.seed, self.violations + self.known_hits))
            with open(rp, "w") as f:
                f.write("\n".join(head + run) + "\n")
            last_state = last_matched_state(trace_module, cfg_text, rp, header + d - lo, timeout)
            with open(rp + ".diag.txt", "w") as f:
                f.write("first unmatched event (line %d of the replay file): %s\n\nlast matched state:\n%s\n" % (header + d - lo, part[d - 1], last_state))
            what = "trace rejected by %s at event %d of run: %s" % (trace_module, d - lo, part[d - 1])
            self.violation(what, replay_path=rp)
            start = start + hi + 1
            if rejects >= max_rejects:
                log("[validate] stopping after %d rejected runs" % rejects)
                break
        self.traces += accepted_runs
        self.events += len(lines)
        log("[validate] %s %s: %d runs, %d events, %d accepted, %d rejected" % (
            trace_module, label, total_runs, len(lines), accepted_runs, rejects))
        return rejects == 0

    # ---- evidence
    def finish(self, level="model_checking", rule=None):
        ev = {
            "property_id": self.pid,
            "tier": self.tier,
            "seed": self.seed,
            "level": level,
            "coverage": {
                "states": self.states,
                "transitions": self.transitions,
                "traces_validated_against_impl": self.traces,
                "trace_events": self.events,
                "samples": self.samples[:6] or ["(none)"],
                "models": self.models,
                "exhaustive": self.exhaustive,
                "known_finding_hits": self.known_hits,
            },
            "assumptions": self.assumptions,
            "wall_s": round(time.time() - self.t0, 1),
            "violations": self.violations,
        }
        ev["coverage"].update(self.notes)
        if rule:
            ev["coverage"]["rule"] = rule
        os.makedirs(EVID, exist_ok=True)
        with open(os.path.join(EVID, self.pid + ".json"), "w") as f:
            json.dump(ev, f, indent=1)
        log("[evidence] %s: states=%d transitions=%d traces=%d events=%d violations=%d wall=%.1fs" % (
            self.pid, self.states, self.transitions, self.traces, self.events, self.violations, ev["wall_s"]))
        return 1 if self.violations else 0


def load_known(pid):
    res = []
    if os.path.exists(KNOWN):
        for line in open(KNOWN):
            line = line.strip()
            m = re.match(r"finding:\s+property=(\S+)\s+match=(\S+)\s+(.*)", line)
            if m and m.group(1) == pid:
                res.append((m.group(2), m.group(3)))
    return res


def cfg_set(values):
    """A TLC cfg set literal of strings / ints."""
    def one(v):
        return str(v) if isinstance(v, int) else '"%s"' % v
    return "{" + ", ".join(one(v) for v in sorted(values, key=lambda x: (isinstance(x, str), x))) + "}"


def run_trace_tlc(trace_module, cfg_text, trace_path, timeout=1200, stopat=None):
    name = "trace_%s_%d" % (trace_module, os.getpid())
    cfgp = os.path.join(SPECS, "_%s.cfg" % name)
    with open(cfgp, "w") as f:
        f.write(cfg_text)
        if stopat is not None:
            f.write("\nINVARIANT StopAt\n")
    env = {"TRACE": trace_path}
    if stopat is not None:
        env["STOPAT"] = str(stopat)
    try:
        p, out = tlc(trace_module, os.path.basename(cfgp), name, workers=1, timeout=timeout, coverage=False, env=env,
                     deque=True)
    finally:
        os.unlink(cfgp)
    if stopat is not None:
        return None, None, out
    m = re.search(r'"TRACE_REJECTED at line",\s*(\d+)', out)
    if m:
        return False, int(m.group(1)), out
    if p["violated"]:
        # an invariant of the base spec failed on a state reached by the trace
        dm = re.findall(r"^/\\ l = (\d+)", out, re.M)
        d = int(dm[-1]) - 1 if dm else None
        return False, d, out
    if p["error"] or p["rc"] != 0:
        if "TRACE_ACCEPTED" not in out:
            sys.stdout.write(out[-3000:])
            raise ToolError("TLC failed validating %s with %s: %s" % (trace_path, trace_module, p["error"]))
    return True, None, out


def last_matched_state(trace_module, cfg_text, trace_path, d, timeout):
    try:
        _, _, out = run_trace_tlc(trace_module, cfg_text, trace_path, timeout, stopat=d)
        i = out.rfind("State ")
        return out[i:i + 4000] if i >= 0 else out[-2000:]
    except Exception as e:  # diagnostics only
        return "(unavailable: %s)" % e


def trace_values(path, field, evs=None):
    vals = set()
    for line in open(path):
        line = line.strip()
        if not line:
            continue
        try:
            r = json.loads(line)
        except Exception:
            continue
        if evs is not None and r.get("ev") not in evs:
            continue
        if field in r:
            vals.add(r[field])
    return vals
