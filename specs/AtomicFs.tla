------------------------------ MODULE AtomicFs ------------------------------
(***************************************************************************)
(* Temp-file + rename write protocols and their recovery (C19):            *)
(*   shard_flush   MDBInMemoryShard::write_to_directory /                  *)
(*                 MDBShardFile::write_out_from_reader                     *)
(*                 (temp .mdb_temp -> <hash>.mdb)                          *)
(*   consolidate   consolidate_shards_in_directory: write the merged shard *)
(*                 (temp + rename), then unlink every input that is not    *)
(*                 itself an output                                        *)
(*   local_put     LocalClient::put through SafeFileCreator                *)
(*   cache_put     DiskCache::put: SafeFileCreator, in-memory commit, then *)
(*                 unlink of subsumed / evicted item files                 *)
(* Process-crash model: a crash can happen between any two file-system     *)
(* effects; completed system calls persist; a file being written holds a   *)
(* prefix of its final content ("partial") until the last write completed. *)
(* A file name is final or temporary; a final file holds a set of records. *)
(* Recover = what the component does when it re-opens the directory:       *)
(* temp files are ignored (shards, xorbs) or removed (cache scan).          *)
(* Variants (negative controls): "delete_before_write" (consolidate        *)
(* unlinks inputs before the merged shard is renamed), "write_final"       *)
(* (content written in place under the final name).                        *)
(***************************************************************************)
EXTENDS Naturals, FiniteSets, Sequences, TLC

CONSTANTS Protos,       \* subset of {"shard_flush", "consolidate", "local_put", "cache_put"}
          AllInputs,    \* names of final files that may exist before the operation (each holds its own record)
          Variant

VARIABLES Proto,        \* the protocol of this run
          Inputs,       \* final files present before the operation
          Victims       \* consolidate: Inputs merged away; cache_put: items subsumed / evicted by the new one

New == "new"            \* the final file the operation produces
Tmp == "tmp"            \* its temporary name
Names == AllInputs \cup {New, Tmp}
IsFinal(n) == n # Tmp

VARIABLES fs,           \* [Names -> "absent" | "partial" | "complete"]
          pc, todo,     \* protocol position; victims still to unlink
          crashed, recovered
vars == <<Proto, Inputs, Victims, fs, pc, todo, crashed, recovered>>
conf == <<Proto, Inputs, Victims>>

\* records a complete final file makes retrievable: an input holds itself, the new file holds itself plus,
\* for consolidate, everything of the merged inputs
RecordsOf(n) == IF n = New THEN (IF Proto = "consolidate" THEN Victims \cup {New} ELSE {New}) ELSE {n}
Retrievable == UNION {RecordsOf(n) : n \in {m \in Names : IsFinal(m) /\ fs[m] = "complete"}}
Before == Inputs        \* retrievable before the operation

Init == /\ Proto \in Protos /\ Inputs \in SUBSET AllInputs
        /\ Victims \in (IF Proto \in {"consolidate", "cache_put"} THEN SUBSET Inputs ELSE {{}})
        /\ fs = [n \in Names |-> IF n \in Inputs THEN "complete" ELSE "absent"]
        /\ pc = "start" /\ todo = Victims /\ crashed = FALSE /\ recovered = FALSE

Live == ~crashed

Create == /\ Live /\ pc = "start"
          /\ IF Variant = "write_final" THEN fs' = [fs EXCEPT ![New] = "partial"] ELSE fs' = [fs EXCEPT ![Tmp] = "partial"]
          /\ pc' = IF Variant = "delete_before_write" /\ Proto = "consolidate" THEN "unlink_early" ELSE "write"
          /\ UNCHANGED <<todo, crashed, recovered, conf>>

UnlinkEarly == /\ Live /\ pc = "unlink_early"
               /\ IF todo = {} THEN pc' = "write" /\ UNCHANGED <<fs, todo>>
                  ELSE \E v \in todo : fs' = [fs EXCEPT ![v] = "absent"] /\ todo' = todo \ {v} /\ UNCHANGED pc
               /\ UNCHANGED <<crashed, recovered, conf>>

Write == /\ Live /\ pc = "write"
         /\ IF Variant = "write_final" THEN fs' = [fs EXCEPT ![New] = "complete"] /\ pc' = "unlink"
            ELSE fs' = [fs EXCEPT ![Tmp] = "complete"] /\ pc' = "rename"
         /\ UNCHANGED <<todo, crashed, recovered, conf>>

Rename == /\ Live /\ pc = "rename"
          /\ fs' = [fs EXCEPT ![Tmp] = "absent", ![New] = "complete"]
          /\ pc' = "unlink"
          /\ UNCHANGED <<todo, crashed, recovered, conf>>

\* the content written is identical to a file that is already there (a shard flushed or received a second time): the
\* rename replaces that file atomically by an equal one; nothing is ever missing under the final name
RenameOnto(i) == /\ Live /\ pc = "rename" /\ Proto = "shard_flush" /\ i \in Inputs /\ fs[i] = "complete"
                 /\ fs' = [fs EXCEPT ![Tmp] = "absent"]
                 /\ pc' = "unlink"
                 /\ UNCHANGED <<todo, crashed, recovered, conf>>

\* inputs merged into the new shard (or cache items subsumed / evicted) are unlinked one at a time, in any order
Unlink == /\ Live /\ pc = "unlink"
          /\ IF todo = {} \/ Proto \in {"shard_flush", "local_put"} THEN pc' = "done" /\ UNCHANGED <<fs, todo>>
             ELSE \E v \in todo : fs' = [fs EXCEPT ![v] = "absent"] /\ todo' = todo \ {v} /\ UNCHANGED pc
          /\ UNCHANGED <<crashed, recovered, conf>>

Crash == /\ Live /\ pc # "done" /\ crashed' = TRUE /\ UNCHANGED <<fs, pc, todo, recovered, conf>>

\* re-opening the directory: the cache scan removes files whose name does not parse (temp files); shard and xorb
\* directories ignore them
Recover == /\ crashed /\ ~recovered
           /\ fs' = IF Proto = "cache_put" THEN [fs EXCEPT ![Tmp] = "absent"] ELSE fs
           /\ recovered' = TRUE /\ UNCHANGED <<pc, todo, crashed, conf>>

Next == Create \/ UnlinkEarly \/ Write \/ Rename \/ (\E i \in AllInputs : RenameOnto(i)) \/ Unlink \/ Crash \/ Recover
Spec == Init /\ [][Next]_vars

\* C19: no partial file is ever visible under a final name
FinalComplete == \A n \in Names : IsFinal(n) => fs[n] # "partial"
\* C19: whatever was retrievable before the operation stays retrievable (for cache_put the victims are given up on
\*      purpose: subsumed ranges stay covered by the new item, evicted ones are dropped by design)
Kept == IF Proto = "cache_put" THEN Before \ Victims ELSE Before
NoLoss == Kept \subseteq Retrievable
\* leftover temp files are removed by the cache scan, and are never a final name anywhere
TempHandled == recovered /\ Proto = "cache_put" => fs[Tmp] = "absent"
Invs == FinalComplete /\ NoLoss /\ TempHandled
=============================================================================
