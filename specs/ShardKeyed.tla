----------------------------- MODULE ShardKeyed -----------------------------
(***************************************************************************)
(* Keyed shard life cycle (mdb_shard/src/shard_format.rs                   *)
(* export_as_keyed_shard_impl, shard_file_handle.rs export_with_expiration, *)
(* load_all_valid, clean_expired_shards; shard_file_manager.rs register and *)
(* chunk_hash_dedup_query).                                                 *)
(* A plain shard holds chunks (plain hashes).  Export(key, inclFile,        *)
(* inclCas, inclChunk, validFor) produces a shard whose chunk list and      *)
(* chunk table hold H(c, key) (H(c, 0) = c), whose file section is kept or  *)
(* dropped, and whose expiry is now + validFor.  The manager keeps one      *)
(* collection per key; a dedup query with a plain hash c looks up H(c, key) *)
(* in each collection's table, which is built from the chunk table when it  *)
(* is present and by scanning the chunk lists when it was omitted.          *)
(* Time: Tick advances the clock; Load only loads shards with               *)
(* now <= expiry; Clean deletes shards with expiry + Grace <= now.          *)
(* Variant "strict_expiry" (load iff now < expiry) and "no_grace" are       *)
(* negative controls.                                                       *)
(***************************************************************************)
EXTENDS Naturals, FiniteSets, Sequences, TLC
CONSTANTS Chunks, Keys, MaxTime, Grace, MaxShards, Variant

H(c, k) == IF k = 0 THEN <<"plain", c>> ELSE <<"hmac", c, k>>     \* injective, and a keyed form never equals a raw hash

VARIABLES now, disk, loaded, deletedEarly
vars == <<now, disk, loaded, deletedEarly>>
\* disk: set of exported shards [key, chunks (stored forms), hasFiles, hasTable, expiry]

Init == now = 0 /\ disk = {} /\ loaded = {} /\ deletedEarly = FALSE

Export(k, inclFile, inclChunk, validFor) ==
  /\ now + validFor <= MaxTime /\ Cardinality(disk) < MaxShards
  /\ disk' = disk \cup {[key |-> k, chunks |-> {H(c, k) : c \in Chunks}, hasFiles |-> inclFile,
                         hasTable |-> inclChunk, expiry |-> now + validFor]}
  /\ UNCHANGED <<now, loaded, deletedEarly>>

Tick == now < MaxTime /\ now' = now + 1 /\ UNCHANGED <<disk, loaded, deletedEarly>>

Valid(s) == IF Variant = "strict_expiry" THEN now < s.expiry ELSE now <= s.expiry
Load == loaded' = {s \in disk : Valid(s)} /\ UNCHANGED <<now, disk, deletedEarly>>

Expired(s) == IF Variant = "no_grace" THEN s.expiry <= now ELSE s.expiry + Grace <= now
Clean == /\ disk' = {s \in disk : ~Expired(s)}
         /\ deletedEarly' = (deletedEarly \/ \E s \in disk : Expired(s) /\ now < s.expiry + Grace)
         /\ UNCHANGED <<now, loaded>>

Next == \/ \E k \in Keys, f \in BOOLEAN, t \in BOOLEAN, v \in 1..2 : Export(k, f, t, v)
        \/ Tick \/ Load \/ Clean
Spec == Init /\ [][Next]_vars

\* what the manager's lookup of plain hash c answers: found in some loaded collection
Table(s) == s.chunks                              \* built from the chunk table, or from the lists when it was omitted
Found(c) == \E s \in loaded : H(c, s.key) \in Table(s)

\* C18
NoRawHashUnderKey == \A s \in disk : s.key # 0 => \A c \in Chunks : <<"plain", c>> \notin s.chunks
DedupKeepsWorking == \A c \in Chunks : loaded # {} => Found(c)
NeverDeletedEarly == ~deletedEarly
\* a shard past its expiry is not loaded: checked right after Load through an action property
LoadRespectsExpiry == [][loaded' # loaded => \A s \in loaded' : now <= s.expiry]_vars
LoadsUnexpired == [][loaded' # loaded => \A s \in disk : now <= s.expiry => s \in loaded']_vars
=============================================================================
