------------------------- MODULE Trace_ShardManager -------------------------
(* Trace validation for ShardFileManager: the hook events of add_cas_block,   *)
(* flush (two critical sections) and register_shards (one event per           *)
(* registered shard, under the bookkeeper lock) and the answers of            *)
(* chunk_hash_dedup_query must be a behaviour of ShardManager.  The           *)
(* implementation's collection index and collection count are bound to the    *)
(* model's at every registration.                                             *)
EXTENDS MC_ShardManager, Json, IOUtils, TLCExt

Rec == ndJsonDeserialize(IOEnv.TRACE)
VARIABLE l
tvars == <<vars, l>>
IsEvent(e) == l <= Len(Rec) /\ Rec[l].ev = e /\ l' = l + 1
R == Rec[l]

TraceInit == Init /\ l = 2
TrReset == IsEvent("reset") /\ mem' = {} /\ added' = {} /\ disk' = {} /\ pend' = [t \in Threads |-> None]
           /\ cols' = <<[key |-> 0, shards |-> <<>>, table |-> {}]>> /\ byKey' = (0 :> 1) /\ indexed' = 0 /\ nextId' = 1

TrAdd == IsEvent("SmAdd") /\ AddCas(R.actor, R.x)
\* the shard a flush wrote holds exactly the memory shard's xorbs; the harness numbers flushed shards in event order
TrFlushWrite == IsEvent("SmFlushWrite") /\ R.shard = nextId /\ {R.xorbs[i] : i \in 1..Len(R.xorbs)} = mem /\ FlushWrite(R.actor)
TrFlushEmpty == IsEvent("SmFlushEmpty") /\ mem = {} /\ pend[R.actor] = None /\ UNCHANGED vars
TrRegister ==
  /\ IsEvent("SmRegister")
  /\ IF R.actor \in Threads /\ pend[R.actor] # None
       THEN R.shard = pend[R.actor].id /\ FlushRegister(R.actor)
       ELSE \E s \in Ext : s.id = R.shard /\ RegisterExt({s}, <<s>>)
  \* where the code put the shard: its key's collection, at the code's index, with the code's collection count
  /\ R.key \in DOMAIN byKey' /\ byKey'[R.key] = R.col + 1 /\ Len(cols') = R.ncols
  /\ \E j \in 1..Len(cols'[R.col + 1].shards) : cols'[R.col + 1].shards[j].id = R.shard
  \* the counter the code compares with CHUNK_INDEX_TABLE_MAX_SIZE is the number of table entries
  /\ ("indexed" \in DOMAIN R) => (R.indexed = indexed')
\* a query for one chunk, answered against the state at that moment
TrQuery ==
  /\ IsEvent("SmQuery")
  /\ (R.found => (R.x \in Xorbs /\ R.off + 1 <= Len(XC[R.x]) /\ XC[R.x][R.off + 1] = R.c))      \* C05
  \* found iff the model finds it; when plain prefixes collide, which location survives in the unkeyed table is
  \* unspecified, but a chunk held by the memory shard or by a keyed collection must be found whatever the unkeyed
  \* collection says first
  /\ (UniqueP0(R.c) => (R.found <=> Query(R.c).found))
  /\ (R.found => Held(R.c))
  /\ (MustFind(R.c) => R.found)
  /\ UNCHANGED vars

TraceNext == TrReset \/ TrAdd \/ TrFlushWrite \/ TrFlushEmpty \/ TrRegister \/ TrQuery
TraceSpec == TraceInit /\ [][TraceNext]_tvars
TraceAccepted ==
  LET d == TLCGet("stats").diameter IN
  IF d = Len(Rec) THEN TRUE
  ELSE Print(<<"TRACE_REJECTED at line", d + 1, "of", Len(Rec), Rec[d + 1]>>, FALSE)
StopAt == l # atoi(IOEnv.STOPAT)
=============================================================================
