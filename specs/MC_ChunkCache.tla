--------------------------- MODULE MC_ChunkCache ---------------------------
EXTENDS ChunkCache
MCRanges == {<<0, 1>>, <<0, 2>>, <<1, 2>>}
MCRanges2 == {<<0, 1>>, <<0, 2>>}
MCRanges1 == {<<0, 1>>}
MCRanges3 == {<<0, 1>>, <<0, 2>>, <<1, 2>>, <<0, 3>>, <<2, 3>>}
MCILen(i) == (i[2][2] - i[2][1]) + 1
Invs == TypeOK /\ AccountingExact /\ NoOrphanFiles /\ CapacityBound /\ HitsGood
=============================================================================
