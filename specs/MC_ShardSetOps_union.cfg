SPECIFICATION Spec
CONSTANTS
  Hashes = {1, 2, 3}
  Op = "union"
  Variant = "ok"
INVARIANT Correct
PROPERTY Terminates
CHECK_DEADLOCK FALSE
