---------------------------- MODULE ChunkerRule ----------------------------
(* Scaled-down CONCRETE instance of the chunking rule (C04): symbols {0,1},  *)
(* hash window W = 2, the "gear hash" is the sequence of the last <= W       *)
(* symbols fed since the last reset and it matches iff it is <<1,1>> (or,    *)
(* with ShortMatch, iff it is non-empty and all ones - the real hash can     *)
(* also match before a full window was fed).                                 *)
(*  (a) RefChunks(s): the reference rule as ONE pass over the stream (skip   *)
(*      RefSkip symbols of every chunk, hash the others, cut at a match or   *)
(*      at MaxChunk, reset the hash at every cut).                           *)
(*  (b) PositionIndependent: the chunks after any boundary of s are exactly  *)
(*      the chunks of the remaining symbols taken as a stream of their own - *)
(*      "boundaries depend only on the bytes since the previous boundary",   *)
(*      so identical content re-chunks identically wherever it occurs.       *)
(*  (c) Feed(n, final): Chunker::next transcribed on concrete symbols with   *)
(*      the rolling hash carried across calls; for every stream and every    *)
(*      call partition its output is a prefix of RefChunks(s), and all of it *)
(*      after the final call.                                                *)
EXTENDS Integers, Sequences

CONSTANTS W, MinChunk, MaxChunk, MaxLen,
          ShortMatch,   \* the hash may match before W symbols were fed
          ResetHash     \* TRUE in the code / rule; FALSE = hash not reset at a cut (negative control)

VARIABLES s, pos, cur, buffered, h, out
vars == <<s, pos, cur, buffered, h, out>>

Min2(a, b) == IF a <= b THEN a ELSE b
RefSkip == IF MinChunk > W THEN MinChunk - W - 1 ELSE 0
Upd(hh, b) == LET x == Append(hh, b) IN IF Len(x) > W THEN Tail(x) ELSE x
Match(hh) == IF ShortMatch THEN Len(hh) >= 1 /\ \A i \in 1..Len(hh) : hh[i] = 1
             ELSE Len(hh) = W /\ \A i \in 1..W : hh[i] = 1

(* (a) the reference rule, one pass; state after i symbols: hash, open chunk length, cut positions *)
RECURSIVE Run(_, _)
Run(t, i) ==
  IF i = 0 THEN [h |-> <<>>, c |-> 0, cuts |-> <<>>]
  ELSE LET p == Run(t, i - 1)
           c1 == p.c + 1
           h1 == IF c1 > RefSkip THEN Upd(p.h, t[i]) ELSE p.h
           cut == (c1 > RefSkip /\ Match(h1)) \/ c1 = MaxChunk
       IN IF cut THEN [h |-> IF ResetHash THEN <<>> ELSE h1, c |-> 0, cuts |-> Append(p.cuts, i)]
          ELSE [h |-> h1, c |-> c1, cuts |-> p.cuts]
Cuts(t) == Run(t, Len(t)).cuts
Lens(t) == LET c == Cuts(t)
               body == [j \in 1..Len(c) |-> c[j] - (IF j = 1 THEN 0 ELSE c[j - 1])]
               last == IF Len(c) = 0 THEN 0 ELSE c[Len(c)]
           IN IF last < Len(t) THEN Append(body, Len(t) - last) ELSE body
RefChunks(t) == Lens(t)

(* (b) *)
PositionIndependentAt(t) ==
  \A j \in 1..Len(Cuts(t)) :
     LET p == Cuts(t)[j] IN
     RefChunks(t) = RefChunks(SubSeq(t, 1, p)) \o RefChunks(SubSeq(t, p + 1, Len(t)))
PositionIndependent == PositionIndependentAt(s)

(* (c) Chunker::next on concrete symbols *)
\* gearhash next_match: feed symbols data[i..e] into hh until it matches; [h, at] with at = 0 for no match
RECURSIVE Scan(_, _, _, _)
Scan(hh, data, i, e) ==
  IF i > e THEN [h |-> hh, at |-> 0]
  ELSE LET h1 == Upd(hh, data[i]) IN
       IF Match(h1) THEN [h |-> h1, at |-> i] ELSE Scan(h1, data, i + 1, e)

Feed(n, final) ==
  /\ pos + n <= Len(s) /\ (final => pos + n = Len(s))
  /\ LET data == SubSeq(s, pos + 1, pos + n)
         adv == IF n # 0 /\ cur + W < MinChunk THEN Min2(MinChunk - cur - W - 1, n) ELSE 0
         cur1 == cur + adv
         readEnd == Min2(n, adv + (MaxChunk - cur1))
         sc == Scan(h, data, adv + 1, readEnd)
         match == sc.at # 0
         b0 == IF match THEN sc.at - adv ELSE readEnd - adv
         forced == b0 + cur1 >= MaxChunk
         b == IF forced THEN MaxChunk - cur1 ELSE b0
         create == n # 0 /\ (match \/ forced)
         consumed == IF n = 0 THEN 0 ELSE adv + b
         buf2 == buffered + consumed
         emit == create \/ (final /\ buf2 # 0)
     IN /\ pos' = pos + consumed
        /\ cur' = IF emit THEN 0 ELSE (IF n = 0 THEN cur ELSE cur1 + b)
        /\ buffered' = IF emit THEN 0 ELSE buf2
        /\ h' = IF emit /\ ResetHash THEN <<>> ELSE (IF n = 0 THEN h ELSE sc.h)
        /\ out' = IF emit THEN Append(out, buf2) ELSE out
        /\ ~emit => consumed = n                   \* no chunk returned => all input consumed
        /\ s' = s

Streams == UNION {[1..k -> {0, 1}] : k \in 0..MaxLen}
Init == s \in Streams /\ pos = 0 /\ cur = 0 /\ buffered = 0 /\ h = <<>> /\ out = <<>>
Next == \E n \in 0..(Len(s) - pos) : \E final \in BOOLEAN : Feed(n, final)
Spec == Init /\ [][Next]_vars

IsPrefix(a, b) == Len(a) <= Len(b) /\ \A i \in 1..Len(a) : a[i] = b[i]
RECURSIVE SumSeq(_)
SumSeq(q) == IF q = <<>> THEN 0 ELSE Head(q) + SumSeq(Tail(q))
FollowsRule == /\ IsPrefix(out, RefChunks(s))
               /\ buffered + SumSeq(out) = pos
               /\ (pos = Len(s) /\ buffered = 0) => out = RefChunks(s)
Bounded == \A i \in 1..Len(RefChunks(s)) :
              /\ RefChunks(s)[i] <= MaxChunk
              /\ i < Len(RefChunks(s)) => RefChunks(s)[i] >= RefSkip + 1
Concat == SumSeq(RefChunks(s)) = Len(s)
Invs == PositionIndependent /\ FollowsRule /\ Bounded /\ Concat
=============================================================================
