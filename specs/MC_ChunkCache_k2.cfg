SPECIFICATION Spec
CONSTANTS
  Threads = {t1, t2}
  Keys = {k1, k2}
  Ranges <- MCRanges2
  Capacity = 5
  FixDrift = TRUE
  WithEnv = FALSE
  FsExact = TRUE
  EarlyVerify = FALSE
  ILen <- MCILen
INVARIANT Invs
CHECK_DEADLOCK FALSE
