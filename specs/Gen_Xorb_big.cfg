SPECIFICATION GSpec
CONSTANTS
  Chunks <- MCChunks6
  MaxChunks = 3
  MaxU = 3
  MaxC = 6
  Skip = "none"
INVARIANT Emit
CHECK_DEADLOCK FALSE
