SPECIFICATION GSpec
CONSTANTS
  Bug = "none"
  MaxReqs = 1
  MaxTerms = 2
  MaxFetch = 2
  Writers = {"seq"}
  CacheModes = {"off"}
  SharedOpts = {FALSE}
  ShapeSet <- ShapesTiny
INVARIANT Emit
CHECK_DEADLOCK FALSE
