----------------------------- MODULE Gen_Chunker -----------------------------
(* Scenario generation for C04: behaviours of the Chunker model at the real  *)
(* constants of target 128 / divisor 1 (W = 64, 128, 256).  A scenario is    *)
(* the reference stream as a list of chunk-length CLASSES plus the tail, and *)
(* the calls TLC chose (size, final flag, next or next_block; -1 = all the   *)
(* rest).  The harness realises the class list as bytes for the chunk sizes  *)
(* of its own process, feeds the real Chunker with these calls (cycling      *)
(* through them until the stream ends) and records what it did.              *)
EXTENDS MC_Chunker, Json, TLCExt

CONSTANTS MaxCalls

VARIABLES hist, fin
gvars == <<vars, hist, fin>>

ClassOf(x) == CASE x = RefSkip + 1 -> "mincut"
                [] x = RefSkip + 2 -> "mincut1"
                [] x = MinChunk -> "min"
                [] x = MaxChunk - 1 -> "maxm1"
                [] x = MaxChunk -> "max"
                [] OTHER -> "natural"
NBody == IF closed THEN Len(ref) ELSE Len(ref) - 1
Classes == [i \in 1..NBody |-> ClassOf(ref[i])]
TailLen == IF closed THEN 0 ELSE ref[Len(ref)]

GInit == MCInit /\ hist = <<>> /\ fin = FALSE

GCall(n, enc, f, b) ==
  /\ ~fin /\ Len(hist) < MaxCalls /\ ~(Done /\ Len(hist) > 0)
  /\ IF b THEN NextBlock(n, f) ELSE Next(n, f)
  /\ hist' = Append(hist, [n |-> enc, f |-> f, b |-> b])
  /\ UNCHANGED fin

GNext == \/ \E n \in {x \in CallSizes : pos + x <= Total} : \E b \in BOOLEAN : GCall(n, n, FALSE, b)
         \/ Len(hist) >= 3 /\ \E f \in BOOLEAN : \E b \in BOOLEAN : GCall(Total - pos, -1, f, b)
         \/ /\ ~fin /\ Len(hist) > 0 /\ (Done \/ Len(hist) >= MaxCalls)
            /\ fin' = TRUE /\ UNCHANGED <<vars, hist>>
GSpec == GInit /\ [][GNext]_gvars

Emit == fin => PrintT(<<"SCN", ToJson([classes |-> Classes, tail |-> TailLen, calls |-> hist])>>)
=============================================================================
