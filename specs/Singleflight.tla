---------------------------- MODULE Singleflight ----------------------------
(***************************************************************************)
(* utils/src/singleflight.rs : Group::work at lock granularity.            *)
(*                                                                         *)
(* One action per critical section of the code:                            *)
(*   GetCall     get_call_or_create   (call_map mutex)                     *)
(*   GetFuture   Call::get_future     (res read lock: see the result or    *)
(*                                     register with the Notify)           *)
(*   TaskRun     first poll of the supplied future inside OwnerTask        *)
(*   Complete    Call::complete       (res write lock: store + notify;     *)
(*                                     also OwnerTask::drop after a panic) *)
(*   Remove      remove_call          (call_map mutex)                     *)
(*   Return      Group::work returns to its caller                         *)
(* FirstPoll only exists in the LazyNotified variant, which models the     *)
(* defect "notified() is created when the future is first polled instead   *)
(* of under the read lock".                                                *)
(***************************************************************************)
EXTENDS Naturals, FiniteSets, Sequences, TLC

CONSTANTS Callers, Keys, Outcomes, Vals, LazyNotified, MaxCalls

VARIABLES callMap,   \* [Keys -> flight id or 0]        the call_map
          calls,     \* sequence of flight records, index = flight id
          pc,        \* [Callers -> control state]
          key,       \* [Callers -> key of the current call]
          myCall,    \* [Callers -> flight id used by the current call]
          ret,       \* [Callers -> <<class, val>> returned by the last finished call, or None]
          doneFlights \* flights whose owning call has returned

vars == <<callMap, calls, pc, key, myCall, ret, doneFlights>>

None == "none"
NoVal == 0
NoRet == <<None, NoVal>>

Flight(k, c) == [key |-> k, res |-> None, val |-> NoVal, owner |-> c,
                 registered |-> {}, pending |-> {}, ran |-> 0, supplier |-> None]

Init == /\ callMap = [k \in Keys |-> 0]
        /\ calls = <<>>
        /\ pc = [c \in Callers |-> "idle"]
        /\ key = [c \in Callers |-> CHOOSE k \in Keys : TRUE]
        /\ myCall = [c \in Callers |-> 0]
        /\ ret = [c \in Callers |-> NoRet]
        /\ doneFlights = {}

(* get_call_or_create: one critical section under the map mutex *)
GetCall(c, k) ==
  /\ pc[c] \in {"idle", "done"}
  /\ key' = [key EXCEPT ![c] = k]
  /\ ret' = [ret EXCEPT ![c] = NoRet]
  /\ IF callMap[k] # 0
       THEN /\ myCall' = [myCall EXCEPT ![c] = callMap[k]]
            /\ UNCHANGED <<callMap, calls>>
       ELSE /\ Len(calls) < MaxCalls
            /\ calls' = Append(calls, Flight(k, c))
            /\ callMap' = [callMap EXCEPT ![k] = Len(calls) + 1]
            /\ myCall' = [myCall EXCEPT ![c] = Len(calls) + 1]
  /\ pc' = [pc EXCEPT ![c] = "getfut"]
  /\ UNCHANGED doneFlights

IsOwner(c) == calls[myCall[c]].owner = c

(* get_future: critical section under the result read lock *)
GetFuture(c) ==
  /\ pc[c] = "getfut"
  /\ LET id == myCall[c] IN
     IF calls[id].res # None
       THEN /\ pc' = [pc EXCEPT ![c] = IF IsOwner(c) THEN "join" ELSE "gotres"]
            /\ UNCHANGED calls
       ELSE /\ calls' = [calls EXCEPT ![id].registered = IF LazyNotified THEN @ ELSE @ \cup {c},
                                      ![id].pending = IF LazyNotified THEN @ \cup {c} ELSE @]
            /\ pc' = [pc EXCEPT ![c] = IF IsOwner(c) THEN "join" ELSE "wait"]
  /\ UNCHANGED <<callMap, key, myCall, ret, doneFlights>>

(* only in the LazyNotified variant: the registration happens at the first poll *)
FirstPoll(c) ==
  /\ LazyNotified
  /\ pc[c] \in {"wait", "join"}
  /\ c \in calls[myCall[c]].pending
  \* a registration made after completion is never notified
  /\ calls' = [calls EXCEPT ![myCall[c]].pending = @ \ {c},
                            ![myCall[c]].registered = IF calls[myCall[c]].res = None THEN @ \cup {c} ELSE @]
  /\ UNCHANGED <<callMap, pc, key, myCall, ret, doneFlights>>

(* the owner spawned OwnerTask; the supplied future of caller s runs (first poll) *)
TaskRun(id, s, v) ==
  /\ id \in 1..Len(calls)
  /\ pc[calls[id].owner] \in {"join", "joinwoken"}
  /\ myCall[calls[id].owner] = id
  /\ calls[id].res = None
  /\ calls[id].ran = 0
  /\ s = calls[id].owner               \* only the owner's future is ever run
  /\ calls' = [calls EXCEPT ![id].ran = 1, ![id].val = v, ![id].supplier = s]
  /\ UNCHANGED <<callMap, pc, key, myCall, ret, doneFlights>>

(* Call::complete: store the result and notify_waiters, atomically under the write lock *)
Complete(id, o) ==
  /\ id \in 1..Len(calls)
  /\ calls[id].res = None
  /\ calls[id].ran = 1
  /\ calls' = [calls EXCEPT ![id].res = o, ![id].registered = {}]
  /\ pc' = [c \in Callers |->
              IF c \in calls[id].registered /\ myCall[c] = id
                THEN (IF pc[c] = "wait" THEN "woken" ELSE IF pc[c] = "join" THEN "joinwoken" ELSE pc[c])
                ELSE pc[c]]
  /\ UNCHANGED <<callMap, key, myCall, ret, doneFlights>>

(* owner: join!(handle, results_future) finished, then remove_call under the map mutex *)
Remove(c) ==
  /\ \/ pc[c] = "joinwoken"
     \/ pc[c] = "join" /\ calls[myCall[c]].res # None /\ c \notin calls[myCall[c]].registered
                       /\ c \notin calls[myCall[c]].pending /\ ~LazyNotified
        \* (owner's get_future already saw the result: cannot happen, the task is spawned afterwards,
        \*  but it is what the code would do)
  /\ callMap[key[c]] = myCall[c]
  /\ callMap' = [callMap EXCEPT ![key[c]] = 0]
  /\ pc' = [pc EXCEPT ![c] = "removed"]
  /\ UNCHANGED <<calls, key, myCall, ret, doneFlights>>

\* what a caller of flight id gets: the class and, unless the task panicked, the task's value
RetOf(id) == <<calls[id].res, IF calls[id].res = "panic" THEN NoVal ELSE calls[id].val>>

Return(c) ==
  /\ pc[c] \in {"woken", "gotres", "removed"}
  /\ ret' = [ret EXCEPT ![c] = RetOf(myCall[c])]
  /\ doneFlights' = IF IsOwner(c) THEN doneFlights \cup {myCall[c]} ELSE doneFlights
  /\ pc' = [pc EXCEPT ![c] = "done"]
  /\ UNCHANGED <<callMap, calls, key, myCall>>

Next == \/ \E c \in Callers : \/ \E k \in Keys : GetCall(c, k)
                              \/ GetFuture(c) \/ FirstPoll(c) \/ Remove(c) \/ Return(c)
        \/ \E id \in 1..Len(calls) : \/ \E v \in Vals : TaskRun(id, calls[id].owner, v)
                                     \/ \E o \in Outcomes : Complete(id, o)

Progress(c) == GetFuture(c) \/ FirstPoll(c) \/ Remove(c) \/ Return(c)

Spec == Init /\ [][Next]_vars

Fairness == /\ \A c \in Callers : WF_vars(Progress(c))
            /\ \A id \in 1..MaxCalls : WF_vars(\E v \in Vals : TaskRun(id, calls[id].owner, v))
            /\ \A id \in 1..MaxCalls : WF_vars(\E o \in Outcomes : Complete(id, o))
FairSpec == Spec /\ Fairness

InCall(c) == pc[c] \notin {"idle", "done"}
NoWaitForever == \A c \in Callers : InCall(c) ~> pc[c] = "done"

(* ---- properties ---- *)
TypeOK == /\ callMap \in [Keys -> 0..Len(calls)]
          /\ \A c \in Callers : myCall[c] \in 0..Len(calls)

\* exactly one supplied task per flight, and a result only after it ran
ExecOnce == \A id \in 1..Len(calls) :
              /\ calls[id].ran <= 1
              /\ (calls[id].res # None => calls[id].ran = 1)
              /\ (calls[id].ran = 1 => calls[id].supplier = calls[id].owner)

\* every caller of a flight receives that flight's outcome, and the flight is one for its own key
GetsOutcome == \A c \in Callers :
                 pc[c] = "done" /\ ret[c] # NoRet =>
                   /\ ret[c] = RetOf(myCall[c])
                   /\ ret[c][1] # None
                   /\ calls[myCall[c]].key = key[c]

\* calls with different keys never share a flight
KeyIsolation == \A c \in Callers : myCall[c] # 0 /\ pc[c] # "idle" => calls[myCall[c]].key = key[c]

\* the map only points to flights for that key whose owner has not returned yet:
\* a call made after the owning call returned therefore starts (or joins) a newer flight
MapConsistent == \A k \in Keys : callMap[k] # 0 =>
                    /\ calls[callMap[k]].key = k
                    /\ callMap[k] \notin doneFlights

Safety == TypeOK /\ ExecOnce /\ GetsOutcome /\ KeyIsolation /\ MapConsistent
=============================================================================
