SPECIFICATION Spec
CONSTANTS
  Threads = {t1, t2}
  Xorbs = {1, 2, 3}
  XC <- MC_XC
  P0 <- MC_P0
  Ext <- MC_Ext
  IndexCap = 100
  Variant = "hoisted_index"
INVARIANT Invs
CHECK_DEADLOCK FALSE
