----------------------------- MODULE ChunkCache -----------------------------
(***************************************************************************)
(* chunk_cache/src/disk.rs : DiskCache at lock / file-system granularity.  *)
(*                                                                         *)
(* One action per critical section (the CacheState mutex) and per          *)
(* file-system effect:                                                     *)
(*   Start      a thread begins get(k,r) / put(k,r)                        *)
(*   Find       find_match                      (lock)                     *)
(*   Open       File::open + crc / header read  (fs; get_impl and          *)
(*              validate_match)                                            *)
(*   RmState    remove_item, state part         (lock)                     *)
(*   RmFile     remove_item, file part          (fs)                       *)
(*   PWrite     SafeFileCreator temp+rename     (fs)                       *)
(*   PCommit    subsume, evict, insert, counters (lock)                    *)
(*   PDel       remove_file of one queued path  (fs)                       *)
(*   Fail       the operation returns an I/O error (allowed anywhere a     *)
(*              file-system call is made; the properties do not constrain *)
(*              errors, only hits and accounting)                          *)
(*   Close/Damage/DeleteWhileOpen/Reopen   directory life cycle            *)
(* An item is <<key, <<start,end>>>>; the bytes stored for it are a fixed  *)
(* function of the item (a xorb is immutable), so a file is abstracted to  *)
(* "good" (what put wrote), "bad" (same length, different bytes) or        *)
(* "badlen" (truncated / extended).                                        *)
(* FixDrift = FALSE reproduces the commit step as found in the tree:       *)
(* an equal item removed from the list is not subtracted from totalBytes.  *)
(***************************************************************************)
EXTENDS Integers, FiniteSets, Sequences, TLC

CONSTANTS Threads, Keys, Ranges, Capacity, FixDrift, WithEnv, FsExact, EarlyVerify,
          ILen(_)         \* length in bytes of the cache file of an item

Item == Keys \X Ranges
Covers(a, b) == a[1] <= b[1] /\ b[2] <= a[2]       \* range a covers range b

VARIABLES tracked,     \* items in CacheState.inner
          verified,    \* tracked items whose checksum was checked (or that this process wrote)
          numItems, totalBytes,
          disk,        \* [Item -> {"none","good","bad","badlen"}]
          mode,        \* "open" | "closed"
          pc, op, cur, todel, res,
          planted,     \* a file was planted / the scan stopped early: the directory holds files the cache never tracked
          overfull     \* a re-open loaded more than Capacity bytes and no insertion happened since

vars == <<tracked, verified, numItems, totalBytes, disk, mode, pc, op, cur, todel, res, planted, overfull>>
hist == <<planted, overfull>>
state == <<tracked, verified, numItems, totalBytes>>

NoOp == [kind |-> "none", k |-> CHOOSE k \in Keys : TRUE, r |-> CHOOSE r \in Ranges : TRUE]
NoItem == <<>>

RECURSIVE SumLen(_)
SumLen(S) == IF S = {} THEN 0 ELSE LET x == CHOOSE x \in S : TRUE IN ILen(x) + SumLen(S \ {x})

Init == /\ tracked = {} /\ verified = {} /\ numItems = 0 /\ totalBytes = 0
        /\ disk = [i \in Item |-> "none"]
        /\ mode = "open"
        /\ pc = [t \in Threads |-> "idle"]
        /\ op = [t \in Threads |-> NoOp]
        /\ cur = [t \in Threads |-> NoItem]
        /\ todel = [t \in Threads |-> {}]
        /\ res = [t \in Threads |-> "none"]
        /\ planted = FALSE /\ overfull = FALSE

Goto(t, l) == pc' = [pc EXCEPT ![t] = l]
Ret(t, v) == pc' = [pc EXCEPT ![t] = "idle"] /\ res' = [res EXCEPT ![t] = v]

Start(t, kind, k, r) ==
  /\ mode = "open" /\ pc[t] = "idle"
  /\ op' = [op EXCEPT ![t] = [kind |-> kind, k |-> k, r |-> r]]
  /\ Goto(t, "find")
  /\ res' = [res EXCEPT ![t] = "none"]
  /\ UNCHANGED <<state, disk, mode, cur, todel, hist>>

(* find_match, under the lock: any tracked item of the key covering the range *)
Find(t, found) ==
  /\ pc[t] = "find"
  /\ LET c == {i \in tracked : i[1] = op[t].k /\ Covers(i[2], op[t].r)} IN
     IF c = {}
       THEN /\ found = NoItem
            /\ IF op[t].kind = "put" THEN Goto(t, "write") /\ UNCHANGED res ELSE Ret(t, "miss")
            /\ UNCHANGED cur
       ELSE /\ found \in c
            /\ cur' = [cur EXCEPT ![t] = found]
            /\ Goto(t, "open") /\ UNCHANGED res
  /\ UNCHANGED <<state, disk, mode, op, todel, hist>>

(* what opening and checking the file of cur[t] yields *)
OpenOutcome(t) ==
  LET d == disk[cur[t]] IN
  IF d = "none" THEN "missing"
  ELSE IF op[t].kind = "get"
         THEN (IF cur[t] \in verified \/ d = "good" THEN "ok" ELSE "mismatch")
         ELSE (IF d = "good" THEN "ok" ELSE "mismatch")      \* validate_match always re-checks length and crc

OpenWith(t, o) ==
  /\ pc[t] = "open" /\ ~(EarlyVerify /\ op[t].kind = "get" /\ disk[cur[t]] # "none")
  /\ o \in {"ok", "missing", "mismatch"}
  /\ IF o = "ok"
       THEN /\ verified' = IF op[t].kind = "get" /\ cur[t] \in tracked THEN verified \cup {cur[t]} ELSE verified
            /\ Ret(t, IF op[t].kind = "get" THEN (IF disk[cur[t]] = "good" THEN "hit_good" ELSE "hit_bad") ELSE "ok")
       ELSE /\ Goto(t, "rmstate") /\ UNCHANGED <<verified, res>>
  /\ UNCHANGED <<tracked, numItems, totalBytes, disk, mode, op, cur, todel, hist>>

Open(t) == IF FsExact THEN OpenWith(t, OpenOutcome(t)) ELSE \E o \in {"ok", "missing", "mismatch"} : OpenWith(t, o)

(* Negative control EarlyVerify: the shared verified flag is set before the checksum pass instead of after it
   matched, as a separate step; a second reader that arrives in between skips the check and is served the bytes. *)
PreVerify(t) ==
  /\ EarlyVerify /\ pc[t] = "open" /\ op[t].kind = "get" /\ disk[cur[t]] # "none"
  /\ pc' = [pc EXCEPT ![t] = IF cur[t] \in verified THEN "open2v" ELSE "open2u"]
  /\ verified' = IF cur[t] \in tracked THEN verified \cup {cur[t]} ELSE verified
  /\ UNCHANGED <<tracked, numItems, totalBytes, disk, mode, op, cur, todel, res, hist>>
Open2(t) ==
  /\ pc[t] \in {"open2v", "open2u"}
  /\ LET d == disk[cur[t]]
         o == IF d = "none" THEN "missing" ELSE IF pc[t] = "open2v" \/ d = "good" THEN "ok" ELSE "mismatch" IN
     IF o = "ok" THEN Ret(t, IF d = "good" THEN "hit_good" ELSE "hit_bad") /\ UNCHANGED verified
     ELSE Goto(t, "rmstate") /\ UNCHANGED <<verified, res>>
  /\ UNCHANGED <<tracked, numItems, totalBytes, disk, mode, op, cur, todel, hist>>

KeyHasItems(k) == \E i \in tracked : i[1] = k

(* remove_item, state part (lock).  If the key is still in the map but the item is not, the function returns
   without touching the file; if the key is gone from the map it still goes on to the file part. *)
RmState(t) ==
  /\ pc[t] = "rmstate"
  /\ IF cur[t] \in tracked
       THEN /\ tracked' = tracked \ {cur[t]} /\ verified' = verified \ {cur[t]}
            /\ numItems' = numItems - 1 /\ totalBytes' = totalBytes - ILen(cur[t])
            /\ Goto(t, "rmfile")
       ELSE /\ UNCHANGED state
            /\ IF KeyHasItems(cur[t][1]) THEN Goto(t, "find") ELSE Goto(t, "rmfile")
  /\ UNCHANGED <<disk, mode, op, cur, todel, res, hist>>

RmFile(t) ==
  /\ pc[t] = "rmfile"
  /\ disk' = [disk EXCEPT ![cur[t]] = "none"]
  /\ Goto(t, "find")
  /\ UNCHANGED <<state, mode, op, cur, todel, res, hist>>

NewItem(t) == <<op[t].k, op[t].r>>

PWrite(t) ==
  /\ pc[t] = "write"
  /\ disk' = [disk EXCEPT ![NewItem(t)] = "good"]
  /\ Goto(t, "commit")
  /\ UNCHANGED <<state, mode, op, cur, todel, res, hist>>

(* the eviction loop removes random items while total - capacity + add > removed: the set `ev` is a possible
   result iff it is empty and nothing was needed, or some last element x made it sufficient (or emptied the cache) *)
EvictOK(ev, pool, need) ==
  IF need <= 0 THEN ev = {}
  ELSE /\ ev # {} \/ pool = {}
       /\ (SumLen(ev) >= need \/ ev = pool)
       /\ (ev # {} => \E x \in ev : SumLen(ev \ {x}) < need)

PCommit(t, ev) ==
  /\ pc[t] = "commit"
  /\ LET new == NewItem(t)
         sub == {i \in tracked : i[1] = new[1] /\ Covers(new[2], i[2])}
         subDel == sub \ {new}
         tb1 == totalBytes - SumLen(IF FixDrift THEN sub ELSE subDel)
         n1 == numItems - Cardinality(sub)
         tr1 == tracked \ sub
         need == (tb1 + ILen(new)) - Capacity     \* may be "negative": compared through EvictOK
     IN /\ ev \subseteq tr1
        /\ IF tb1 + ILen(new) <= Capacity THEN ev = {} ELSE EvictOK(ev, tr1, need)
        /\ tracked' = (tr1 \ ev) \cup {new}
        /\ verified' = ((verified \ sub) \ ev) \cup {new}
        /\ numItems' = (n1 - Cardinality(ev)) + 1
        /\ totalBytes' = (tb1 - SumLen(ev)) + ILen(new)
        /\ todel' = [todel EXCEPT ![t] = subDel \cup ev]
  /\ Goto(t, "del")
  /\ overfull' = FALSE
  /\ UNCHANGED <<disk, mode, op, cur, res, planted>>

PDel(t, i) ==
  /\ pc[t] = "del" /\ i \in todel[t]
  /\ disk' = [disk EXCEPT ![i] = "none"]
  /\ todel' = [todel EXCEPT ![t] = @ \ {i}]
  /\ UNCHANGED <<state, mode, pc, op, cur, res, hist>>

PDone(t) ==
  /\ pc[t] = "del" /\ todel[t] = {}
  /\ Ret(t, "ok")
  /\ UNCHANGED <<state, disk, mode, op, cur, todel, hist>>

(* an I/O error ends the operation wherever a file-system call is made *)
\* ("find" is in the list because remove_item cleans up the key directory after it removed the file - our RmFile - and
\* that clean-up fails with DirectoryNotEmpty when a concurrent put has just created a file there)
Fail(t) ==
  /\ pc[t] \in {"open", "rmfile", "write", "del", "find"}
  /\ Ret(t, "err")
  /\ todel' = [todel EXCEPT ![t] = {}]
  /\ planted' = TRUE        \* a failed operation may leave its file or its queued deletions behind
  /\ UNCHANGED <<state, disk, mode, op, cur, overfull>>

(* ---- directory life cycle ---- *)
Quiescent == \A t \in Threads : pc[t] = "idle"

Close == /\ mode = "open" /\ Quiescent /\ mode' = "closed"
         /\ UNCHANGED <<state, disk, pc, op, cur, todel, res, hist>>

Damage(i, kind) ==
  /\ mode = "closed" /\ disk[i] # "none"
  /\ kind \in {"bad", "badlen", "none"}
  \* (flipping bytes of a file whose length is already wrong leaves a file of the wrong length)
  /\ disk' = [disk EXCEPT ![i] = IF kind = "bad" /\ disk[i] = "badlen" THEN "badlen" ELSE kind]
  /\ UNCHANGED <<state, mode, pc, op, cur, todel, res, hist>>

(* a file planted under a valid item name: wrong bytes of the right or of a wrong length *)
Plant(i, kind) ==
  /\ mode = "closed" /\ disk[i] = "none"
  /\ kind \in {"bad", "badlen"}
  /\ disk' = [disk EXCEPT ![i] = kind]
  /\ planted' = TRUE
  /\ UNCHANGED <<state, mode, pc, op, cur, todel, res, overfull>>

DeleteWhileOpen(i) ==
  /\ mode = "open" /\ disk[i] # "none"
  /\ disk' = [disk EXCEPT ![i] = "none"]
  /\ UNCHANGED <<state, mode, pc, op, cur, todel, res, hist>>

(* initialize: scan the directory; files whose length differs from their name are removed; items larger than
   the capacity are not tracked; the scan stops once 2*Capacity bytes are tracked; nothing is verified *)
Loadable == {i \in Item : disk[i] \in {"good", "bad"} /\ ILen(i) <= Capacity}

Reopen(loaded) ==
  /\ mode = "closed"
  /\ loaded \subseteq Loadable
  /\ \/ loaded = Loadable
     \/ SumLen(loaded) >= 2 * Capacity /\ \E x \in loaded : SumLen(loaded \ {x}) < 2 * Capacity
  /\ tracked' = loaded /\ verified' = {}
  /\ numItems' = Cardinality(loaded) /\ totalBytes' = SumLen(loaded)
  \* files with a wrong length are deleted by the scan, but only in directories it got to before stopping
  \* (a file that grew beyond the capacity is skipped before its length is compared, so it stays)
  /\ \E gone \in SUBSET {i \in Item : disk[i] = "badlen"} :
        /\ disk' = [i \in Item |-> IF i \in gone THEN "none" ELSE disk[i]]
        /\ planted' = (\/ planted \/ loaded # Loadable
                       \/ gone # {i \in Item : disk[i] = "badlen"}
                       \/ \E i \in Item : disk[i] \in {"good", "bad"} /\ ILen(i) > Capacity)
  /\ mode' = "open"
  /\ overfull' = (SumLen(loaded) > Capacity)
  /\ UNCHANGED <<pc, op, cur, todel, res>>

DoStart(t) == \E kind \in {"get", "put"}, k \in Keys, r \in Ranges : Start(t, kind, k, r)
DoFind(t) == \E f \in Item \cup {NoItem} : Find(t, f)
DoCommit(t) == \E ev \in SUBSET tracked : PCommit(t, ev)
DoDel(t) == \E i \in Item : PDel(t, i)
DoDamage == \E i \in Item : \E kind \in {"bad", "badlen", "none"} : Damage(i, kind)
DoPlant == \E i \in Item : \E kind \in {"bad", "badlen"} : Plant(i, kind)
DoDeleteWhileOpen == \E i \in Item : DeleteWhileOpen(i)
DoReopen == \E ld \in SUBSET Item : Reopen(ld)

ThreadStep(t) == \/ DoStart(t) \/ DoFind(t) \/ Open(t) \/ PreVerify(t) \/ Open2(t) \/ RmState(t) \/ RmFile(t) \/ PWrite(t)
                 \/ DoCommit(t) \/ DoDel(t) \/ PDone(t) \/ Fail(t)
EClose == WithEnv /\ Close
EDamage == WithEnv /\ DoDamage
EPlant == WithEnv /\ DoPlant
EDeleteWhileOpen == WithEnv /\ DoDeleteWhileOpen
EReopen == WithEnv /\ DoReopen

Next == (\E t \in Threads : ThreadStep(t)) \/ EClose \/ EDamage \/ EPlant \/ EDeleteWhileOpen \/ EReopen

Spec == Init /\ [][Next]_vars

(* ---- properties ---- *)
TypeOK == /\ tracked \subseteq Item /\ verified \subseteq tracked
          /\ numItems \in Nat /\ totalBytes \in Nat

\* C13: the counters equal the tracked entries
AccountingExact == numItems = Cardinality(tracked) /\ totalBytes = SumLen(tracked)

\* C13: every cache file on disk belongs to a tracked entry (at quiescence; files written but not yet
\*      committed and files queued for deletion exist only inside an operation)
NoOrphanFiles == Quiescent /\ mode = "open" /\ ~planted => \A i \in Item : disk[i] # "none" => i \in tracked

\* C13: after an insertion the byte total does not exceed the capacity (items never larger than capacity)
\* (C13's proviso: "provided no single item is larger than the capacity"; put accepts such an item after evicting
\* everything else)
CapacityBound == overfull \/ totalBytes <= Capacity \/ \E i \in tracked : ILen(i) > Capacity

\* C12: a hit never returns bytes other than those put
HitsGood == \A t \in Threads : res[t] # "hit_bad"
=============================================================================
