SPECIFICATION GSpec
CONSTANTS
  Threads = {"t1", "t2"}
  Keys = {"k1"}
  Ranges <- MCRanges
  Capacity = 4
  FixDrift = TRUE
  WithEnv = FALSE
  FsExact = TRUE
  EarlyVerify = FALSE
  ILen <- MCILen
  MaxLen = 36
INVARIANT Emit
CHECK_DEADLOCK FALSE
