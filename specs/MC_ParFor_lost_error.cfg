SPECIFICATION Spec
CONSTANTS
  N = 4
  K = 2
  Fails = {3}
  Variant = "lost_error"
INVARIANT Invs
PROPERTY Terminates
PROPERTY Implements
CHECK_DEADLOCK FALSE
