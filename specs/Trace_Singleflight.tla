------------------------- MODULE Trace_Singleflight -------------------------
(* Trace validation: events recorded from utils::singleflight::Group::work   *)
(* (hooks under the map mutex / result lock, harness events for task start   *)
(* and caller return) must be a behaviour of Singleflight.                    *)
EXTENDS Singleflight, Json, IOUtils, TLCExt

Rec == ndJsonDeserialize(IOEnv.TRACE)
TCallers == {Rec[i].actor : i \in {j \in 1..Len(Rec) : Rec[j].ev \in {"SfGetCall", "SfReturn"}}}
TKeys == {Rec[i].key : i \in {j \in 1..Len(Rec) : Rec[j].ev = "SfGetCall"}}

VARIABLE l
tvars == <<vars, l>>

TraceInit == Init /\ l = 1

IsEvent(e) == l <= Len(Rec) /\ Rec[l].ev = e /\ l' = l + 1
R == Rec[l]

TrReset == /\ IsEvent("reset")
           /\ callMap' = [k \in Keys |-> 0] /\ calls' = <<>>
           /\ pc' = [c \in Callers |-> "idle"] /\ key' = key
           /\ myCall' = [c \in Callers |-> 0] /\ ret' = [c \in Callers |-> NoRet]
           /\ doneFlights' = {}

TrGetCall == /\ IsEvent("SfGetCall")
             /\ R.created = (callMap[R.key] = 0)
             /\ GetCall(R.actor, R.key)
             /\ myCall'[R.actor] = R.call

TrGetFuture == /\ IsEvent("SfGetFuture")
               /\ myCall[R.actor] = R.call
               /\ R.has = (calls[R.call].res # None)
               /\ GetFuture(R.actor)

TrTaskRun == /\ IsEvent("SfTaskRun")
             /\ \E id \in 1..Len(calls) : TaskRun(id, R.supplier, R.val)

TrComplete == /\ IsEvent("SfComplete")
              /\ Complete(R.call, R.outcome)

TrRemove == /\ IsEvent("SfRemove")
            /\ R.found
            /\ Remove(R.actor)

TrReturn == /\ IsEvent("SfReturn")
            /\ R.owner = IsOwner(R.actor)
            /\ Return(R.actor)
            /\ ret'[R.actor] = <<R.class, R.val>>

\* a crowd on one key while its task runs (more callers than a 16-bit counter holds): one run, everybody served
TrCrowd == IsEvent("SfCrowd") /\ R.task_runs = 1 /\ R.returned = R.callers /\ R.hung = 0 /\ R.wrong = 0 /\ UNCHANGED vars
TraceNext == TrReset \/ TrGetCall \/ TrGetFuture \/ TrTaskRun \/ TrComplete \/ TrRemove \/ TrReturn \/ TrCrowd
TraceSpec == TraceInit /\ [][TraceNext]_tvars

TraceAccepted ==
  LET d == TLCGet("stats").diameter IN
  IF d - 1 = Len(Rec) THEN TRUE
  ELSE Print(<<"TRACE_REJECTED at line", d, "of", Len(Rec), Rec[d]>>, FALSE)

\* used to print the last matched state of a rejected trace (see bin/check)
StopAt == l # atoi(IOEnv.STOPAT)
=============================================================================
