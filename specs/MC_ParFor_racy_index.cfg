SPECIFICATION Spec
CONSTANTS
  N = 4
  K = 2
  Fails = {3}
  Variant = "racy_index"
INVARIANT Invs
PROPERTY Terminates
PROPERTY Implements
CHECK_DEADLOCK FALSE
