------------------------------- MODULE Upload -------------------------------
(***************************************************************************)
(* Design model of the upload pipeline:                                    *)
(*   FileDeduper::process_chunks / cut_new_xorb / finalize                 *)
(*   DataAggregator::merge_in / finalize                                   *)
(*   FileUploadSession::register_single_file_clean_completion,             *)
(*       process_aggregated_data_as_xorb, register_new_xorb_for_upload,    *)
(*       finalize (join of the background puts, then shard upload)         *)
(* A xorb's identity is its chunk-id sequence (content addressing); the    *)
(* zero hash of an unresolved reference is PENDING.  Chunk ids have unit   *)
(* length unless LenOf says otherwise.                                     *)
(*                                                                         *)
(* Modelled as the code does it:                                           *)
(*  - the global index (session shard + shard cache) is asked once per     *)
(*    position up front; a hit of n chunks that fragmentation prevention   *)
(*    rejects makes its first chunk new data and its remaining n-1 chunks  *)
(*    are re-examined against the pending xorb only (skipG);               *)
(*  - the pending-xorb lookup maps a hash to its LAST occurrence and a      *)
(*    local run must be contiguous under that map;                         *)
(*  - a new chunk extends the previous segment only if that segment is     *)
(*    pending and ends exactly at the pending xorb's current length;       *)
(*  - the fragmentation estimator is over-approximated: any hit that does  *)
(*    not continue the previous segment may be rejected;                   *)
(*  - puts run in the background: PutStart at registration, PutEnd(ok |    *)
(*    fail) any time later; a registration first harvests finished puts    *)
(*    (an error there is reported by that call), finalize joins all puts   *)
(*    and only then uploads the shard.                                     *)
(* FixF1 = FALSE reproduces the defect found in the tree: the aggregated   *)
(* xorb's chunk list was not registered in the session shard.              *)
(***************************************************************************)
EXTENDS Naturals, FiniteSets, Sequences, TLC

CONSTANTS ChunkIds, Files, MaxC, MaxFileLen, PreXorbs, MaxFaults, FixF1

PENDING == <<>>
Seg(x, lo, hi) == [x |-> x, lo |-> lo, hi |-> hi]     \* 0-based half-open chunk range

VARIABLES fed, st, newData, segs, internal, pend,      \* per file cleaner (pend: rest of a rejected hit)
          justRej,                                     \* files whose last step was the rejection of a hit
          agg, sessIdx,                                \* session: aggregator, in-memory session shard (CAS part)
          started, inflight, stored, failedPuts,       \* xorb uploads
          faults,                                      \* number of injected failures so far
          reported,                                    \* some call of the session returned an error
          shardFiles,                                  \* file records in the session shard
          phase,                                       \* "open" | "finalizing" | "ok" | "err"
          uploaded, cacheIdx,                          \* store / shard cache after finalize
          met                                          \* per file [total, new, dedup, prevented]

vars == <<fed, st, newData, segs, internal, pend, justRej, agg, sessIdx, started, inflight, stored, failedPuts, faults,
          reported, shardFiles, phase, uploaded, cacheIdx, met>>

Last(s, c) == LET I == {i \in 1..Len(s) : s[i] = c} IN IF I = {} THEN 0 ELSE CHOOSE i \in I : \A j \in I : j <= i
Index == sessIdx \cup cacheIdx

Init == /\ fed = [f \in Files |-> <<>>] /\ st = [f \in Files |-> "open"]
        /\ newData = [f \in Files |-> <<>>] /\ segs = [f \in Files |-> <<>>]
        /\ internal = [f \in Files |-> {}] /\ pend = [f \in Files |-> <<>>] /\ justRej = {}
        /\ agg = [chunks |-> <<>>, files |-> <<>>]
        /\ sessIdx = {} /\ started = {} /\ inflight = {} /\ stored = PreXorbs /\ failedPuts = {}
        /\ faults = 0 /\ reported = FALSE /\ shardFiles = {} /\ phase = "open"
        /\ uploaded = {} /\ cacheIdx = PreXorbs
        /\ met = [f \in Files |-> [total |-> 0, new |-> 0, dedup |-> 0, prevented |-> 0]]

(* register_new_xorb_for_upload: harvest finished puts (reporting a failed one), then start the upload *)
Register(x) ==
  /\ reported' = (reported \/ failedPuts # {})
  /\ IF x # <<>> THEN /\ started' = started \cup {x} /\ inflight' = inflight \cup {x}
                 ELSE UNCHANGED <<started, inflight>>

Continues(f, s) == Len(segs[f]) > 0 /\ segs[f][Len(segs[f])].x = s.x /\ segs[f][Len(segs[f])].hi = s.lo
AddEntry(f, s) ==   \* add_file_data_sequence_entry
  IF Continues(f, s)
    THEN /\ segs' = [segs EXCEPT ![f][Len(segs[f])].hi = s.hi] /\ UNCHANGED internal
    ELSE /\ segs' = [segs EXCEPT ![f] = Append(@, s)]
         /\ internal' = IF s.x = PENDING THEN [internal EXCEPT ![f] = @ \cup {Len(segs[f]) + 1}] ELSE internal

(* a hit of the up-front query for run q, accepted *)
IsPrefixOf(a, b) == Len(a) <= Len(b) /\ SubSeq(b, 1, Len(a)) = a
Drop(sq, n) == SubSeq(sq, n + 1, Len(sq))
skipG == [f \in Files |-> Len(pend[f])]

GlobalHit(f, q) ==
  /\ skipG[f] = 0
  /\ \E x \in Index : \E i \in 1..Len(x) :
        /\ i + Len(q) - 1 <= Len(x) /\ SubSeq(x, i, i + Len(q) - 1) = q
        /\ AddEntry(f, Seg(x, i - 1, i - 1 + Len(q)))
  /\ fed' = [fed EXCEPT ![f] = @ \o q]
  /\ met' = [met EXCEPT ![f].total = @ + Len(q), ![f].dedup = @ + Len(q)]
  /\ UNCHANGED <<st, newData, pend, justRej, agg, sessIdx, started, inflight, stored, failedPuts, faults, reported,
                 shardFiles, phase, uploaded, cacheIdx>>

(* ... rejected by fragmentation prevention: the run is withheld, nothing else changes in this step *)
GlobalReject(f, q) ==
  /\ skipG[f] = 0
  /\ \E x \in Index : \E i \in 1..Len(x) :
        /\ i + Len(q) - 1 <= Len(x) /\ SubSeq(x, i, i + Len(q) - 1) = q
        /\ ~Continues(f, Seg(x, i - 1, i - 1 + Len(q)))
  /\ pend' = [pend EXCEPT ![f] = q] /\ justRej' = justRej \cup {f}
  /\ UNCHANGED <<fed, st, newData, segs, internal, agg, sessIdx, started, inflight, stored, failedPuts, faults,
                 reported, shardFiles, phase, uploaded, cacheIdx, met>>

NoGlobal(f, c) == skipG[f] > 0 \/ ~\E x \in Index : \E i \in 1..Len(x) : x[i] = c
LocalRun(f, q) == LET b == Last(newData[f], q[1]) IN
                  b > 0 /\ \A i \in 1..Len(q) : Last(newData[f], q[i]) = b + i - 1
Dec(n, k) == IF n > k THEN n - k ELSE 0

LocalHit(f, q) ==
  /\ NoGlobal(f, q[1]) /\ LocalRun(f, q)
  /\ f \notin justRej
  /\ pend[f] = <<>> \/ IsPrefixOf(q, pend[f]) \/ IsPrefixOf(pend[f], q)   \* the withheld chunks come first
  /\ LET b == Last(newData[f], q[1]) IN AddEntry(f, Seg(PENDING, b - 1, b - 1 + Len(q)))
  /\ fed' = [fed EXCEPT ![f] = @ \o q]
  /\ met' = [met EXCEPT ![f].total = @ + Len(q), ![f].dedup = @ + Len(q)]
  /\ pend' = [pend EXCEPT ![f] = IF Len(q) >= Len(@) THEN <<>> ELSE Drop(@, Len(q))] /\ UNCHANGED justRej
  /\ UNCHANGED <<st, newData, agg, sessIdx, started, inflight, stored, failedPuts, faults, reported, shardFiles,
                 phase, uploaded, cacheIdx>>

(* new data, possibly cutting a mid-file xorb first (register_new_xorb: add_cas_block + upload) *)
New(f, c, first) ==
  \* right after a rejection the first withheld chunk is stored as new data without any further lookup;
  \* later withheld chunks become new only if the pending xorb does not hold them
  /\ IF first THEN pend[f] # <<>> /\ c = pend[f][1] /\ (f \in justRej \/ ~LocalRun(f, <<c>>))
              ELSE NoGlobal(f, c) /\ ~LocalRun(f, <<c>>)
  /\ LET cut == Len(newData[f]) + 1 > MaxC
         nd  == IF cut THEN <<>> ELSE newData[f]
         sg0 == IF cut THEN [i \in 1..Len(segs[f]) |-> IF i \in internal[f] THEN [segs[f][i] EXCEPT !.x = newData[f]] ELSE segs[f][i]]
                       ELSE segs[f]
         in0 == IF cut THEN {} ELSE internal[f]
         ext == Len(sg0) > 0 /\ sg0[Len(sg0)].x = PENDING /\ sg0[Len(sg0)].hi = Len(nd)
     IN /\ segs' = [segs EXCEPT ![f] = IF ext THEN [sg0 EXCEPT ![Len(sg0)].hi = @ + 1]
                                        ELSE Append(sg0, Seg(PENDING, Len(nd), Len(nd) + 1))]
        /\ internal' = [internal EXCEPT ![f] = IF ext THEN in0 ELSE in0 \cup {Len(sg0) + 1}]
        /\ newData' = [newData EXCEPT ![f] = Append(nd, c)]
        /\ sessIdx' = IF cut THEN sessIdx \cup {newData[f]} ELSE sessIdx
        /\ IF cut THEN Register(newData[f]) ELSE UNCHANGED <<started, inflight, reported>>
  /\ fed' = [fed EXCEPT ![f] = Append(@, c)]
  /\ met' = [met EXCEPT ![f].total = @ + 1, ![f].new = @ + 1,
                        ![f].prevented = IF skipG[f] > 0 THEN @ + 1 ELSE @]
  /\ pend' = [pend EXCEPT ![f] = IF @ = <<>> THEN <<>> ELSE Drop(@, 1)] /\ justRej' = justRej \ {f}
  /\ UNCHANGED <<st, agg, stored, failedPuts, faults, shardFiles, phase, uploaded, cacheIdx>>

Runs == UNION {[1..n -> ChunkIds] : n \in 1..2}
CanProcess(f) == st[f] = "open" /\ phase = "open" /\ ~reported
PGlobalHit(f) == CanProcess(f) /\ \E q \in Runs : Len(fed[f]) + Len(q) <= MaxFileLen /\ GlobalHit(f, q)
PGlobalReject(f) == CanProcess(f) /\ \E q \in Runs : Len(fed[f]) + Len(q) <= MaxFileLen /\ GlobalReject(f, q)
PLocalHit(f) == CanProcess(f) /\ \E q \in Runs : Len(fed[f]) + Len(q) <= MaxFileLen /\ LocalHit(f, q)
PNew(f) == CanProcess(f) /\ \E c \in ChunkIds : Len(fed[f]) + 1 <= MaxFileLen /\ New(f, c, skipG[f] > 0)
Process(f) == PGlobalHit(f) \/ PGlobalReject(f) \/ PLocalHit(f) \/ PNew(f)

(* ---- completion of one file ---- *)
Patch(a) == [i \in 1..Len(a.files) |->
               [a.files[i] EXCEPT !.segs = [j \in 1..Len(a.files[i].segs) |->
                    IF j \in a.files[i].internal THEN [a.files[i].segs[j] EXCEPT !.x = a.chunks] ELSE a.files[i].segs[j]]]]
UploadAgg(a) ==  \* process_aggregated_data_as_xorb
  /\ Register(a.chunks)
  /\ sessIdx' = IF FixF1 /\ a.chunks # <<>> THEN sessIdx \cup {a.chunks} ELSE sessIdx
  /\ shardFiles' = shardFiles \cup {[f |-> Patch(a)[i].f, segs |-> Patch(a)[i].segs] : i \in 1..Len(a.files)}
Shift(fi, k) == [fi EXCEPT !.segs = [j \in 1..Len(fi.segs) |-> IF fi.segs[j].x = PENDING
                                       THEN [fi.segs[j] EXCEPT !.lo = @ + k, !.hi = @ + k] ELSE fi.segs[j]]]
Finish(f) ==
  /\ st[f] = "open" /\ phase = "open" /\ ~reported /\ skipG[f] = 0
  /\ LET rem == [chunks |-> newData[f], files |-> <<[f |-> f, segs |-> segs[f], internal |-> internal[f]]>>] IN
     IF Len(agg.chunks) + Len(rem.chunks) > MaxC
       THEN IF Len(agg.chunks) > Len(rem.chunks)
              THEN UploadAgg(agg) /\ agg' = rem           \* swap: the session aggregate is cut
              ELSE UploadAgg(rem) /\ UNCHANGED agg
       ELSE /\ agg' = [chunks |-> agg.chunks \o rem.chunks,
                       files |-> agg.files \o <<Shift(rem.files[1], Len(agg.chunks))>>]
            /\ UNCHANGED <<started, inflight, reported, sessIdx, shardFiles>>
  /\ st' = [st EXCEPT ![f] = "finished"]
  /\ UNCHANGED <<fed, newData, segs, internal, pend, justRej, stored, failedPuts, faults, phase, uploaded, cacheIdx, met>>

(* ---- background puts ---- *)
PutEnd(x, ok) ==
  /\ x \in inflight
  /\ inflight' = inflight \ {x}
  /\ IF ok THEN stored' = stored \cup {x} /\ UNCHANGED <<failedPuts, faults>>
           ELSE /\ faults < MaxFaults /\ faults' = faults + 1
                /\ failedPuts' = failedPuts \cup {x} /\ UNCHANGED stored
  /\ UNCHANGED <<fed, st, newData, segs, internal, pend, justRej, agg, sessIdx, started, reported, shardFiles, phase,
                 uploaded, cacheIdx, met>>

(* ---- finalize: last aggregate, join, shard upload, move to the cache ---- *)
FinalAgg ==
  /\ phase = "open" /\ ~reported /\ \A f \in Files : st[f] = "finished"
  /\ UploadAgg(agg) /\ agg' = [chunks |-> <<>>, files |-> <<>>]
  /\ phase' = "finalizing"
  /\ UNCHANGED <<fed, st, newData, segs, internal, pend, justRej, stored, failedPuts, faults, uploaded, cacheIdx, met>>

FinalJoin(shardOk) ==
  /\ phase = "finalizing" /\ inflight = {}
  /\ IF failedPuts # {} \/ reported
       THEN phase' = "err" /\ reported' = TRUE /\ UNCHANGED <<uploaded, cacheIdx, faults>>
       ELSE IF shardOk
              THEN /\ uploaded' = shardFiles /\ cacheIdx' = cacheIdx \cup sessIdx
                   /\ phase' = "ok" /\ UNCHANGED <<reported, faults>>
              ELSE /\ faults < MaxFaults /\ faults' = faults + 1
                   /\ phase' = "err" /\ reported' = TRUE /\ UNCHANGED <<uploaded, cacheIdx>>
  /\ UNCHANGED <<fed, st, newData, segs, internal, pend, justRej, agg, sessIdx, started, inflight, stored, failedPuts,
                 shardFiles, met>>

DoPutEnd == \E x \in inflight : \E ok \in BOOLEAN : PutEnd(x, ok)
DoFinalJoin == \E ok \in BOOLEAN : FinalJoin(ok)
Next == (\E f \in Files : PGlobalHit(f) \/ PGlobalReject(f) \/ PLocalHit(f) \/ PNew(f) \/ Finish(f))
        \/ DoPutEnd \/ FinalAgg \/ DoFinalJoin
Spec == Init /\ [][Next]_vars

(* ---- properties ---- *)
RECURSIVE FlattenSegs(_, _)
FlattenSegs(ss, i) == IF i > Len(ss) THEN <<>> ELSE SubSeq(ss[i].x, ss[i].lo + 1, ss[i].hi) \o FlattenSegs(ss, i + 1)
WellFormedSeg(s) == s.x # PENDING /\ s.x \in stored /\ s.lo < s.hi /\ s.hi <= Len(s.x)

\* C01 / C16: a session that reports success leaves every file reconstructible from the store
RoundTrip == phase = "ok" => \A f \in Files : \E r \in uploaded :
                 r.f = f /\ (\A j \in 1..Len(r.segs) : WellFormedSeg(r.segs[j])) /\ FlattenSegs(r.segs, 1) = fed[f]
\* C16: a failed upload is never swallowed
NoSwallowedFailure == phase = "ok" => failedPuts = {}
\* C16: the shard is uploaded only after every xorb it references is stored
ShardAfterXorbs == \A r \in uploaded : \A j \in 1..Len(r.segs) : r.segs[j].x \in stored
\* C15: no file record is emitted with an unresolved reference; xorbs respect the limits
NoPendingUploaded == \A r \in shardFiles : \A j \in 1..Len(r.segs) : r.segs[j].x # PENDING
Limits == \A x \in started : Len(x) >= 1 /\ Len(x) <= MaxC
\* C14: conservation
Metrics == \A f \in Files : /\ met[f].total = Len(fed[f]) /\ met[f].new + met[f].dedup = met[f].total
                           /\ met[f].prevented <= met[f].new
\* C11: everything a finalized session stored as new data is visible to later sessions
DedupComplete == phase = "ok" => \A x \in started : x \in cacheIdx

Invs == RoundTrip /\ NoSwallowedFailure /\ ShardAfterXorbs /\ NoPendingUploaded /\ Limits /\ Metrics /\ DedupComplete
=============================================================================
