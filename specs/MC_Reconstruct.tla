--------------------------- MODULE MC_Reconstruct ---------------------------
(* Bounded instances of Reconstruct: every file of at most MaxTerms terms     *)
(* over the xorb shapes of ShapeSet (a shape = the chunk lengths of each      *)
(* xorb), every byte range of the file (and the whole-file call), every plan  *)
(* the server may derive (ordered fetch-range lists of at most MaxFetch       *)
(* ranges per xorb, each containing at least one term range), both writers,   *)
(* cache off / empty / pre-warmed with whole xorbs, every interleaving of     *)
(* term fetches, cache fills and writes.                                      *)
EXTENDS Reconstruct
CONSTANTS MaxTerms, MaxFetch, Writers, CacheModes, SharedOpts, ShapeSet

ShapesQuick == {<< <<1, 2, 3>>, <<2, 1>> >>}
ShapesTiny == {<< <<1, 2>>, <<3>> >>}
ShapesMid == {<< <<1, 2, 3>>, <<2>> >>}
ShapesOne3 == {<< <<2, 3, 1>> >>}
Lens == {1, 2, 3}
XShapes == UNION {[1..n -> Lens] : n \in 1..3}
ShapesAll == {<<a>> : a \in XShapes} \cup {<<a, b>> : a \in XShapes, b \in XShapes}
\* one xorb of three chunks with every length assignment, and a second xorb of one chunk
ShapesLens == {<<a, <<2>> >> : a \in [1..3 -> Lens]}

XorbsOf(shape) ==
  [x \in 1..Len(shape) |-> [i \in 1..Len(shape[x]) |-> [id |-> 10 * x + i, len |-> shape[x][i], ser |-> shape[x][i] + 1]]]
TermsOf(shape) == {<<x, lo, hi>> : x \in 1..Len(shape), lo \in 0..3, hi \in 0..3} \cap
                  {t \in (1..Len(shape)) \X (0..3) \X (0..3) : t[2] < t[3] /\ t[3] <= Len(shape[t[1]])}
FilesOf(shape) == UNION {[1..n -> TermsOf(shape)] : n \in 1..MaxTerms}
Warm(cm, shape) == IF cm = "warm" THEN {[x |-> x, lo |-> 0, hi |-> Len(shape[x]), src |-> 0] : x \in 1..Len(shape)} ELSE {}

SeqsUpTo(S, n) == UNION {[1..m -> S] : m \in 0..n}
NoDup(q) == \A i, j \in 1..Len(q) : i # j => q[i] # q[j]
\* the plans the server may answer with for [s, e)
CandPlans(s, e) ==
  LET js == {j \in 1..Len(file) : TStart(j) < e /\ TStart(j) + TLenOf(file[j]) > s}
      first == CHOOSE j \in js : \A i \in js : j <= i
      n == Cardinality(js)
      tx(x) == {file[j] : j \in {i \in js : file[i][1] = x}}
      cov(x) == {q \in SeqsUpTo(Ranges(x), MaxFetch) :
                   /\ NoDup(q)
                   /\ \A i \in 1..Len(q) : \E v \in tx(x) : FCovers(q[i], v)
                   /\ \A v \in tx(x) : \E i \in 1..Len(q) : FCovers(q[i], v)}
      fetches == IF NX = 1 THEN {<<a>> : a \in cov(1)} ELSE {<<a, b>> : a \in cov(1), b \in cov(2)}
  IN {[first |-> first, n |-> n, off |-> s - TStart(first), fetch |-> ft] : ft \in fetches}

MCSetup == \E shape \in ShapeSet, cm \in CacheModes : \E f \in FilesOf(shape) :
             Setup(XorbsOf(shape), f, cm # "off", Warm(cm, shape))
MCCall == /\ phase = "idle"
          /\ \E s \in 0..(FileLen - 1), w \in Writers : \E e \in (s + 1)..FileLen :
               \E whole \in (IF s = 0 /\ e = FileLen THEN {TRUE, FALSE} ELSE {FALSE}) : Call(s, e, whole, w)
MCServePlan == /\ phase = "called"
               /\ \E p \in CandPlans(req.s, req.e), sh \in SharedOpts : ServePlan(p, sh)
MCHit == phase = "run" /\ \E v \in Values, c \in cache : Hit(v, c)
MCFetched == phase = "run" /\ \E v \in Values : \E r \in {FindFetch(v)} \cup {fl.r : fl \in flights} : Fetched(v, r)
MCFlightEnd == phase = "run" /\ \E fl \in flights : FlightEnd(fl)
MCFill == phase = "run" /\ \E rw \in BagToSet(raws) : Fill(rw)
MCSeqWrite == phase = "run" /\ \E g \in BagToSet(gots) : SeqWrite(g[2])
MCParPlan == ParPlan
MCParWrite == phase = "run" /\ \E t \in 1..k, g \in BagToSet(gots) : ParWrite(t, g[2])
MCFinish == Finish
MCNext == \/ MCSetup \/ MCCall \/ MCServePlan \/ MCHit \/ MCFetched \/ MCFlightEnd \/ MCFill \/ MCSeqWrite
          \/ MCParPlan \/ MCParWrite \/ MCFinish \/ Idle
MCSpec == Init /\ [][MCNext]_vars
Invs == NoFailure /\ CorrectBytes /\ CorrectPieces /\ PiecesSound /\ CacheTruthful
=============================================================================
