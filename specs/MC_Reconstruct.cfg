SPECIFICATION MCSpec
CONSTANTS
  Bug = "none"
  MaxReqs = 1
  MaxTerms = 2
  MaxFetch = 2
  Writers = {"seq", "par"}
  CacheModes = {"off", "cold", "warm"}
  SharedOpts = {FALSE}
  ShapeSet <- ShapesMid
INVARIANT Invs
CHECK_DEADLOCK TRUE
