SPECIFICATION MCSpec
CONSTANTS
  Bug = "trim_rel_term"
  MaxReqs = 1
  MaxTerms = 2
  MaxFetch = 2
  Writers = {"seq", "par"}
  CacheModes = {"off", "cold", "warm"}
  SharedOpts = {FALSE}
  ShapeSet <- ShapesTiny
INVARIANT Invs
CHECK_DEADLOCK TRUE
