SPECIFICATION MCSpec
CONSTANTS
  W = 64
  MinChunk = 128
  MaxChunk = 256
  SkipExtra = 0
  ResetCur = TRUE
  Lens = {64, 65, 256}
  Tails = {0, 1, 64}
  MaxChunks = 2
  CallSizes = {0, 1, 63, 64, 65, 256, 300}
  FullProbe = FALSE
INVARIANT MCInvs
CHECK_DEADLOCK FALSE
