SPECIFICATION GSpec
CONSTANTS
  Bug = "none"
  MaxReqs = 1
  MaxTerms = 3
  MaxFetch = 1
  Writers = {"seq"}
  CacheModes = {"off"}
  SharedOpts = {FALSE}
  ShapeSet <- ShapesTiny
INVARIANT Emit
CHECK_DEADLOCK FALSE
