SPECIFICATION Spec
CONSTANTS
  W = 2
  MinChunk = 2
  MaxChunk = 8
  MaxLen = 9
  ShortMatch = TRUE
  ResetHash = TRUE
INVARIANT Invs
CHECK_DEADLOCK FALSE
