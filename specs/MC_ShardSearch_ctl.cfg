SPECIFICATION Spec
CONSTANTS
  W = 2
  D = 2
  Cap = 3
  Variant = "equal_keeps_hi"
  Arrays <- MCArrays
  Keys <- KeySet
INVARIANT Sound
INVARIANT Correct
INVARIANT InBounds
CHECK_DEADLOCK FALSE
