SPECIFICATION MCSpec
CONSTANTS
  W = 4
  MinChunk = 2
  MaxChunk = 8
  SkipExtra = 0
  ResetCur = TRUE
  Lens = {1, 2, 5, 8}
  Tails = {0, 1, 7}
  MaxChunks = 3
  CallSizes = {0, 1, 2, 3, 9}
  FullProbe = TRUE
INVARIANT MCInvs
CHECK_DEADLOCK FALSE
