SPECIFICATION MCSpec
CONSTANTS
  Bug = "none"
  MaxReqs = 1
  MaxTerms = 3
  MaxFetch = 1
  Writers = {"seq", "par"}
  CacheModes = {"cold"}
  SharedOpts = {FALSE}
  ShapeSet <- ShapesTiny
INVARIANT Invs
CHECK_DEADLOCK TRUE
