SPECIFICATION Spec
CONSTANTS
  Cap = 2
  KeyedH <- MCKeyedH
INVARIANT PrefixOnlyTruthful
CHECK_DEADLOCK FALSE
