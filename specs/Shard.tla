------------------------------- MODULE Shard -------------------------------
(***************************************************************************)
(* Content model of an MDB shard and the lookups the code performs on it   *)
(* (mdb_shard/src/shard_format.rs, shard_in_memory.rs,                      *)
(* shard_file_manager.rs).                                                  *)
(*                                                                         *)
(* A hash is <<prefix, rest>>: the lookup tables only hold the 64-bit       *)
(* prefix ("truncated hash"), the records hold the full hash.               *)
(* A shard is [xorbs, files, key]:                                          *)
(*   xorbs : function  xorb hash -> sequence of <<stored chunk hash, len>>  *)
(*   files : function  file hash -> file record                             *)
(*   key   : 0 (plain) or an HMAC key id; chunk hashes of a keyed shard are *)
(*           stored as KeyedH(h, key), xorb and file hashes are not keyed.  *)
(* Tables: one entry <<prefix, target>> per record, sorted by prefix; the   *)
(* order among equal prefixes is whatever the (unstable) sort produced.     *)
(* A table search returns up to Cap values; Cap hits for a file / xorb      *)
(* lookup is reported as a truncated-hash-collision error, for a chunk      *)
(* lookup the Cap candidates are simply all that is examined.               *)
(***************************************************************************)
EXTENDS Naturals, Sequences, FiniteSets, TLC

CONSTANTS Cap,            \* capacity of the search result buffer (8 in the code)
          KeyedH(_, _)    \* KeyedH(h, k): the stored form of chunk hash h under key k; KeyedH(h, 0) = h

Prefix(h) == h[1]
None == [found |-> FALSE]
NoRec == [kind |-> "none"]
Collision == [kind |-> "collision_error"]
Hit(h) == [kind |-> "hit", h |-> h]

XorbHashes(s) == DOMAIN s.xorbs
ChunkAt(s, x, i) == s.xorbs[x][i]          \* <<stored hash, len>>, i is 1-based here, 0-based in the code

RECURSIVE SumLens(_, _, _)
SumLens(cs, a, b) == IF a > b THEN 0 ELSE cs[a][2] + SumLens(cs, a + 1, b)

(* ---- table search: which target sets may come back for a prefix ---- *)
XorbCands(s, p) == {x \in XorbHashes(s) : Prefix(x) = p}
ChunkEntries(s) == UNION {{<<x, i>> : i \in 1..Len(s.xorbs[x])} : x \in XorbHashes(s)}
ChunkCands(s, p) == {e \in ChunkEntries(s) : Prefix(ChunkAt(s, e[1], e[2])[1]) = p}

\* the search returns all candidates when there are fewer than Cap, otherwise some Cap of them
Returned(C) == IF Cardinality(C) < Cap THEN {C} ELSE {D \in SUBSET C : Cardinality(D) = Cap}

(* ---- xorb / file lookup: get_cas_info_index_by_hash + full comparison ---- *)
LookupXorbResults(s, h) ==
  {IF Cardinality(D) >= Cap THEN Collision
   ELSE IF h \in D THEN Hit(h) ELSE NoRec : D \in Returned(XorbCands(s, Prefix(h)))}

FileCands(s, p) == {f \in DOMAIN s.files : Prefix(f) = p}
LookupFileResults(s, h) ==
  {IF Cardinality(D) >= Cap THEN Collision
   ELSE IF h \in D THEN Hit(h) ELSE NoRec : D \in Returned(FileCands(s, Prefix(h)))}

(* ---- dedup query: chunk_hash_dedup_query_direct on one table entry ---- *)
\* number of query hashes matched starting at chunk i of xorb x (0 if the first one does not match)
RECURSIVE MatchLen(_, _, _, _, _)
MatchLen(s, x, i, q, j) ==
  IF j > Len(q) \/ i + j - 1 > Len(s.xorbs[x]) THEN j - 1
  ELSE IF ChunkAt(s, x, i + j - 1)[1] = KeyedH(q[j], s.key) THEN MatchLen(s, x, i, q, j + 1) ELSE j - 1

Answer(s, x, i, n) == [found |-> TRUE, x |-> x, lo |-> i - 1, hi |-> i - 1 + n, n |-> n, bytes |-> SumLens(s.xorbs[x], i, i + n - 1)]

\* all answers the on-disk query may give: the first examined candidate whose first chunk matches
DedupResults(s, q) ==
  IF q = <<>> THEN {None}
  ELSE LET C == ChunkCands(s, Prefix(KeyedH(q[1], s.key)))
           good == {e \in C : MatchLen(s, e[1], e[2], q, 1) >= 1}
       IN UNION {IF D \cap good = {} THEN {None}
                 ELSE {Answer(s, e[1], e[2], MatchLen(s, e[1], e[2], q, 1)) : e \in D \cap good}
                 : D \in Returned(C)}

(* ---- the property C05: whatever is answered is true of the recorded content ---- *)
Truthful(s, q, ans) ==
  \/ ~ans.found
  \/ /\ ans.found /\ ans.x \in XorbHashes(s)
     /\ ans.n >= 1 /\ ans.n <= Len(q) /\ ans.hi = ans.lo + ans.n /\ ans.hi <= Len(s.xorbs[ans.x])
     /\ \A j \in 1..ans.n : ChunkAt(s, ans.x, ans.lo + j)[1] = KeyedH(q[j], s.key)
     /\ ans.bytes = SumLens(s.xorbs[ans.x], ans.lo + 1, ans.hi)

\* when fewer than Cap chunks share the first query hash's prefix, a stored first chunk is always found
Complete(s, q, ans) ==
  (q # <<>> /\ Cardinality(ChunkCands(s, Prefix(KeyedH(q[1], s.key)))) < Cap
     /\ \E e \in ChunkEntries(s) : ChunkAt(s, e[1], e[2])[1] = KeyedH(q[1], s.key)) => ans.found

(* ---- C09: lookups return exactly the stored record ---- *)
LookupExact(s, h, res) == \/ res.kind = "collision_error" /\ Cardinality(XorbCands(s, Prefix(h))) >= Cap
                          \/ res.kind = "hit" /\ res.h = h /\ h \in XorbHashes(s)
                          \/ res.kind = "none" /\ h \notin XorbHashes(s)
FileLookupExact(s, h, res) == \/ res.kind = "collision_error" /\ Cardinality(FileCands(s, Prefix(h))) >= Cap
                              \/ res.kind = "hit" /\ res.h = h /\ h \in DOMAIN s.files
                              \/ res.kind = "none" /\ h \notin DOMAIN s.files
=============================================================================
