------------------------------- MODULE Xorb -------------------------------
(* The xorb object format of cas_object (C07, C08).                           *)
(*                                                                            *)
(* A xorb is a list of chunks.  A chunk is [cid, len, req, comp]: content id, *)
(* uncompressed length, requested scheme (0 none, 1 lz4, 2 bg4-lz4, 9 = let   *)
(* the code choose) and comp = <<lz4 size, bg4 size>>, the sizes the two      *)
(* compressors produce for this content (compression is uninterpreted: any    *)
(* sizes may occur).  Serialization yields the abstract object                *)
(*   [frames, gap, foot, trail, cut]                                          *)
(* frame = 8-byte header [ver, clen, scheme, ulen] + the payload that is      *)
(* really stored (pcid: content it holds, penc: scheme it was really encoded  *)
(* with, plen: bytes really present, pulen: its real uncompressed length);    *)
(* foot = footer v1 / legacy v0 / none; gap, trail = foreign bytes before /   *)
(* after the footer; cut = the object was truncated inside its last frame /   *)
(* inside the first 8 bytes of the footer / later in the footer.              *)
(* Hashes are uninterpreted: a chunk hash is the cid, the xorb hash is an     *)
(* injective function Root of the cid list.  Footer section sizes are the     *)
(* real byte sizes; chunk lengths are whatever the chunk records say.         *)
(*                                                                            *)
(* The two validators are written as the sequence of checks the code makes.   *)
(* Parsing misaligned bytes is abstracted: a declared count that disagrees    *)
(* with the array really present, a header length that disagrees with the     *)
(* payload really present, or foreign bytes where a frame or footer is        *)
(* expected never parse.  This abstraction is itself checked against the code *)
(* by replaying every mutated object of the model (Trace_Xorb!TrCheck).       *)
EXTENDS Integers, Sequences, FiniteSets, TLC

CONSTANTS
  Chunks,      \* the chunk records the model draws xorbs from
  MaxChunks,   \* longest xorb of the model
  MaxU,        \* largest uncompressed chunk length a header may declare (128 KiB in the code)
  MaxC,        \* largest compressed length a header may declare (256 KiB in the code)
  Skip         \* negative control: a check both validators leave out ("none" = the code as it is)

VARIABLES
  phase,   \* "idle" | "built" | "mutated" | "checked" | "opaque" | "ochecked"
  xorb,    \* the chunk list serialized last
  obj,     \* the abstract object under test (NoObj for a byte string that was not built from the model)
  sum,     \* what an independent strict reading of the object finds: [dec, root, foot, v1foot, nframes]
  kind,    \* "v1" | "v0" | "none": an unmutated serialization in that footer form; "mut": anything else
  own,     \* hash of the xorb the object was derived from
  mut,     \* the mutation applied
  claim,   \* hash claimed in the last validation
  verd     \* [seek, stream]: verdicts of the last validation
vars == <<phase, xorb, obj, sum, kind, own, mut, claim, verd>>

HDR == 8
Junk == 0                    \* content id of bytes that equal no input chunk
Zero == <<>>                 \* hash of the empty chunk list
Other == <<-1>>              \* a hash unrelated to everything else
Root(ids) == ids             \* uninterpreted, injective
NoObj == [form |-> "opaque"]
NoFoot == [form |-> "none"]
NoVerd == [seek |-> "none", stream |-> "none"]
NoMut == [k |-> "none", i |-> 0, d |-> 0]
ValidSchemes == {0, 1, 2}

RECURSIVE SumTo(_, _)
SumTo(f, n) == IF n = 0 THEN 0 ELSE f[n] + SumTo(f, n - 1)
SX == INSTANCE SequencesExt
\* <<f[1], f[1] + f[2], ...>> (a left fold: linear, also for the thousands of chunks of a recorded xorb)
Prefix(f) == SX!FoldLeft(LAMBDA out, v : Append(out, (IF out = <<>> THEN 0 ELSE out[Len(out)]) + v), <<>>, f)
\* the same, as a local recurrence (linear; used on recorded arrays)
IsPrefix(b, f) == Len(b) = Len(f) /\ \A i \in 1..Len(f) : b[i] = (IF i = 1 THEN 0 ELSE b[i - 1]) + f[i]

Remove(s, i) == SubSeq(s, 1, i - 1) \o SubSeq(s, i + 1, Len(s))
InsertAt(s, i, e) == SubSeq(s, 1, i - 1) \o <<e>> \o SubSeq(s, i, Len(s))

-----------------------------------------------------------------------------
(* Serialization                                                              *)
Candidates(req) == IF req = 9 THEN {1, 2} ELSE {req}
DefPick(c) == IF c.req = 9 THEN 1 ELSE c.req
CompLen(c, s) == IF s = 0 THEN c.len ELSE c.comp[s]
\* serialize_chunk: the chunk is stored uncompressed exactly when compression does not make it strictly smaller
Encode(c, s) ==
  LET k == CompLen(c, s)
      fb == IF Skip = "fallback" THEN k > c.len ELSE k >= c.len      \* (negative control: strict comparison)
      st == IF fb THEN c.len ELSE k
      sc == IF fb THEN 0 ELSE s
  IN [ver |-> 0, clen |-> st, scheme |-> sc, ulen |-> c.len, pcid |-> c.cid, penc |-> sc, plen |-> st, pulen |-> c.len]

Ids(x) == [i \in 1..Len(x) |-> x[i].cid]
HSec(n) == 12 + 32 * n                       \* ident 7, version 1, count 4, hashes
BSec(nb, nu) == 40 + 4 * (nb + nu)           \* ident 7, version 1, count 4, arrays, count 4, two offsets 8, buffer 16
FootLenV1(nh, nb, nu) == 40 + HSec(nh) + BSec(nb, nu)      \* = 92 + 40 n for a consistent footer
FootLenV0(nb, nh) == 60 + 4 * nb + 32 * nh

\* the consistent footer of a frame list, header fields taken at face value
FootOf(fr, ids, h, form) ==
  LET n == Len(fr)
      bounds == Prefix([i \in 1..n |-> HDR + fr[i].clen])
      unpacked == Prefix([i \in 1..n |-> fr[i].ulen])
  IN CASE form = "v1" ->
            [form |-> "v1", identOk |-> TRUE, ver |-> 1, hash |-> h, hidentOk |-> TRUE, hver |-> 0, n1 |-> n,
             hashes |-> ids, bidentOk |-> TRUE, bver |-> 1, n2 |-> n, bounds |-> bounds, unpacked |-> unpacked,
             n3 |-> n, hoff |-> HSec(n) + BSec(n, n), boff |-> BSec(n, n), infoLen |-> FootLenV1(n, n, n)]
       [] form = "v0" ->
            [form |-> "v0", identOk |-> TRUE, ver |-> 0, hash |-> h, hidentOk |-> TRUE, hver |-> 0, n1 |-> n,
             hashes |-> ids, bidentOk |-> TRUE, bver |-> 1, n2 |-> n, bounds |-> bounds, unpacked |-> <<>>,
             n3 |-> n, hoff |-> 0, boff |-> 0, infoLen |-> FootLenV0(n, n)]
       [] OTHER -> NoFoot

XSerialize(x, pick, form) ==
  LET fr == [i \in 1..Len(x) |-> Encode(x[i], pick[i])]
  IN [frames |-> fr, gap |-> FALSE, foot |-> FootOf(fr, Ids(x), Root(Ids(x)), form), trail |-> FALSE, cut |-> "no"]

-----------------------------------------------------------------------------
(* Decoding                                                                   *)
\* what deserialize_chunk makes of frame f: header limits, then the payload under the declared scheme
FrameOk(f) ==
  /\ f.ver = 0 /\ f.scheme \in ValidSchemes /\ f.clen <= MaxC /\ f.ulen <= MaxU
  /\ f.clen = f.plen                                          \* else the decoder reads the wrong bytes
  \* an lz4 frame read with / without regrouping decodes, to permuted bytes.  (IF, not a disjunction: inside an
  \* action TLC would branch on every frame for which both disjuncts hold)
  /\ IF f.scheme = f.penc THEN TRUE ELSE f.scheme \in {1, 2} /\ f.penc \in {1, 2}
  /\ f.ulen = f.pulen
DecodeCid(f) == IF f.scheme = f.penc THEN f.pcid ELSE Junk
Decodes(o) == o.cut # "frame" /\ \A i \in 1..Len(o.frames) : FrameOk(o.frames[i])
\* a strict sequential reader finds nothing but decodable frames up to a footer marker or the end of the input
StrictDec(o) == /\ Decodes(o) /\ ~o.gap
                /\ IF o.foot.form = "none" THEN ~o.trail ELSE o.foot.identOk /\ o.cut # "foot8"
DecIds(o) == [i \in 1..Len(o.frames) |-> DecodeCid(o.frames[i])]

PhysEnd(o, i) == SumTo([j \in 1..Len(o.frames) |-> HDR + o.frames[j].plen], i)
\* get_byte_offset: physical byte range of chunks [a, b), 0-based half-open, from the footer
ByteOffset(o, a, b) == <<IF a = 0 THEN 0 ELSE o.foot.bounds[a], o.foot.bounds[b]>>
\* get_range / deserialize_chunks: frames are decoded one after the other from byte s until byte e
RangeIds(o, s, e) ==
  LET n == Len(o.frames)
      P == Prefix([j \in 1..n |-> HDR + o.frames[j].plen])          \* physical end of every frame
      I == {i \in 1..n : (IF i = 1 THEN 0 ELSE P[i - 1]) = s}
      J == {j \in 1..n : P[j] = e}
  IN IF I = {} \/ J = {} THEN <<Junk>>
     ELSE LET i == CHOOSE q \in I : TRUE
              j == CHOOSE q \in J : TRUE
          IN IF \A q \in i..j : FrameOk(o.frames[q]) THEN [q \in 1..(j - i + 1) |-> DecodeCid(o.frames[i + q - 1])]
             ELSE <<Junk>>
GetRange(o, a, b) == LET r == ByteOffset(o, a, b) IN RangeIds(o, r[1], r[2])
UncompressedRangeLen(o, a, b) ==
  IF a = b THEN 0 ELSE o.foot.unpacked[b] - (IF a = 0 THEN 0 ELSE o.foot.unpacked[a])

-----------------------------------------------------------------------------
(* Footer parsing: CasObjectInfoV1::deserialize (+ deserialize_v0), check by check *)
FootLen(f) == IF f.form = "v1" THEN FootLenV1(Len(f.hashes), Len(f.bounds), Len(f.unpacked))
              ELSE FootLenV0(Len(f.bounds), Len(f.hashes))
FootParses(f) ==
  /\ f.form # "none"
  /\ f.identOk
  /\ \/ /\ f.ver = 0 /\ f.form = "v0"
        /\ f.n1 = Len(f.bounds) /\ f.n1 = Len(f.hashes)
     \/ /\ f.ver = 1 /\ f.form = "v1"
        /\ f.hidentOk /\ f.hver = 0
        /\ f.n1 = Len(f.hashes)
        /\ f.bidentOk /\ f.bver = 1
        /\ f.n2 = f.n1
        /\ f.n2 = Len(f.bounds) /\ f.n2 = Len(f.unpacked)
        /\ f.n3 = f.n1
        /\ f.hoff = HSec(Len(f.hashes)) + BSec(Len(f.bounds), Len(f.unpacked))
        /\ f.boff = BSec(Len(f.bounds), Len(f.unpacked))
\* CasObject::deserialize: the info length is read from the last four bytes and the footer is parsed from there
DeserOk(o) == o.cut = "no" /\ ~o.trail /\ FootParses(o.foot) /\ o.foot.infoLen = FootLen(o.foot)
\* CasObjectInfoV1::deserialize_only_boundaries_section: located through the offset field near the end
BoundsOk(o) ==
  /\ o.cut = "no" /\ ~o.trail /\ o.foot.form = "v1"
  /\ o.foot.bidentOk /\ o.foot.bver = 1
  /\ o.foot.n2 = Len(o.foot.bounds) /\ o.foot.n2 = Len(o.foot.unpacked)
  /\ o.foot.n3 = o.foot.n2
  /\ o.foot.boff = BSec(Len(o.foot.bounds), Len(o.foot.unpacked))

-----------------------------------------------------------------------------
(* CasObject::validate_cas_object                                            *)
ValidateSeek(o, h) ==
  IF ~DeserOk(o) THEN "reject"
  ELSE
    LET f == o.foot
        fr == o.frames
        n == f.n1
        ChunkPasses(idx) ==
          /\ idx <= Len(fr)                       \* beyond the frames the reader is inside the footer: no chunk header
          /\ FrameOk(fr[idx])
          /\ Skip = "hashes" \/ f.hashes[idx] = DecodeCid(fr[idx])
          /\ Skip = "bounds" \/ f.bounds[idx] = SumTo([j \in 1..Len(fr) |-> HDR + fr[j].clen], idx)
          /\ f.form = "v0" \/ Skip = "unpacked" \/ f.unpacked[idx] = SumTo([j \in 1..Len(fr) |-> fr[j].ulen], idx)
    IN IF ~\A idx \in 1..n : ChunkPasses(idx) THEN "reject"
       \* the footer must start right after chunk n.  The position compared is the reader's: with no chunk at all it
       \* still stands behind the footer it has just parsed, so an empty xorb is never accepted here
       ELSE IF ~(Skip = "position" \/ (n = Len(fr) /\ ~o.gap /\ n > 0)) THEN "reject"
       ELSE LET r == Root([i \in 1..n |-> DecodeCid(fr[i])])
            IN IF r = h /\ (Skip = "foothash" \/ r = f.hash) THEN "accept" ELSE "reject"

(* validate_cas_object_from_async_read                                       *)
ValidateStream(o, h) ==
  LET f == o.foot
      fr == o.frames
      RootCheck == IF Root(DecIds(o)) = h THEN "accept" ELSE "reject"
  IN
  IF ~Decodes(o) THEN "reject"
  ELSE IF o.gap THEN "reject"                      \* foreign bytes are read as a chunk header
  ELSE IF f.form = "none" THEN (IF o.trail THEN "reject" ELSE RootCheck)   \* end of stream: a footer is built
  ELSE IF o.cut = "foot8" \/ ~f.identOk THEN "reject"
  ELSE IF f.ver > 1 THEN "reject"
  ELSE IF f.ver = 0 THEN RootCheck                 \* legacy marker: the rest of the stream is not read
  ELSE IF o.cut # "no" \/ ~FootParses(f) \/ f.infoLen # FootLen(f) \/ o.trail THEN "reject"
  ELSE IF f.hash # h THEN "reject"
  ELSE IF f.n3 # Len(fr) THEN "reject"
  ELSE IF ~(Skip = "bounds" \/ f.bounds = Prefix([i \in 1..Len(fr) |-> HDR + fr[i].clen])) THEN "reject"
  ELSE IF Len(f.hashes) # Len(fr) THEN "reject"
  ELSE IF ~(Skip = "hashes" \/ f.hashes = DecIds(o)) THEN "reject"
  ELSE IF ~(Skip = "unpacked" \/ f.unpacked = Prefix([i \in 1..Len(fr) |-> fr[i].ulen])) THEN "reject"
  ELSE RootCheck

-----------------------------------------------------------------------------
(* Well-formedness, declaratively                                            *)
V1Consistent(o) ==
  LET f == o.foot  fr == o.frames  n == Len(fr) IN
  /\ f.form = "v1" /\ f.identOk /\ f.ver = 1 /\ f.hidentOk /\ f.hver = 0 /\ f.bidentOk /\ f.bver = 1
  /\ f.hash = Root(DecIds(o)) /\ f.hashes = DecIds(o)
  /\ f.bounds = Prefix([i \in 1..n |-> HDR + fr[i].clen])
  /\ f.unpacked = Prefix([i \in 1..n |-> fr[i].ulen])
  /\ f.n1 = n /\ f.n2 = n /\ f.n3 = n
  /\ f.hoff = HSec(n) + BSec(n, n) /\ f.boff = BSec(n, n) /\ f.infoLen = FootLenV1(n, n, n)
  /\ ~o.trail /\ o.cut = "no"
V0Consistent(o) ==
  LET f == o.foot  fr == o.frames  n == Len(fr) IN
  /\ f.form = "v0" /\ f.identOk /\ f.ver = 0
  /\ f.hash = Root(DecIds(o)) /\ f.hashes = DecIds(o)
  /\ f.bounds = Prefix([i \in 1..n |-> HDR + fr[i].clen])
  /\ f.n1 = n /\ f.infoLen = FootLenV0(n, n)
  /\ ~o.trail /\ o.cut = "no"
\* the strongest statement that holds about what follows the frames
FootClass(o) ==
  LET f == o.foot IN
  IF ~Decodes(o) \/ o.gap THEN "bad"
  ELSE IF f.form = "none" THEN (IF o.trail \/ o.cut # "no" THEN "bad" ELSE "none")
  ELSE IF ~f.identOk \/ o.cut = "foot8" THEN "bad"
  ELSE IF f.ver = 0 THEN (IF V0Consistent(o) THEN "v0ok" ELSE "v0ign")
  ELSE IF f.ver = 1 /\ V1Consistent(o) THEN "ok"
  ELSE "bad"
HasV1Marker(o) == Decodes(o) /\ ~o.gap /\ o.foot.form # "none" /\ o.cut # "foot8" /\ o.foot.identOk /\ o.foot.ver = 1
Summary(o) == [dec |-> StrictDec(o), root |-> IF Decodes(o) THEN Root(DecIds(o)) ELSE Other, foot |-> FootClass(o),
               v1foot |-> HasV1Marker(o), nframes |-> Len(o.frames)]
\* footers a validator relies on: the seekable one reads it first, the streaming one rebuilds a missing or legacy one
Relied(fn) == IF fn = "seek" THEN {"ok", "v0ok"} ELSE {"ok", "none", "v0ok", "v0ign"}
WF(s, fn, h) == s.dec /\ s.root = h /\ s.foot \in Relied(fn)

-----------------------------------------------------------------------------
(* Field-level mutations                                                     *)
ChunkOf(cid) == CHOOSE c \in Chunks : c.cid = cid
HVal(d, o) == CASE d = 1 -> Zero [] d = 2 -> Other
                [] OTHER -> Root(SubSeq(DecIds(o), 1, Len(o.frames) - 1))
ReFoot(o, fr, h) == FootOf(fr, [i \in 1..Len(fr) |-> DecodeCid(fr[i])], h, o.foot.form)
Big == [cid |-> -2, len |-> MaxU + 1, req |-> 0, comp |-> <<MaxU + 1, MaxU + 1>>]

Mutations(o) ==
  LET n == Len(o.frames)
      f == o.foot
      hasFoot == f.form # "none"
      v1 == f.form = "v1"
      M(k, I, D) == {[k |-> k, i |-> i, d |-> d] : i \in I, d \in D}
      pm == {-1, 1}
  IN M("ver", 1..n, {0}) \cup M("clen", 1..n, pm) \cup M("ulen", 1..n, pm) \cup M("payload", 1..n, {0})
     \cup {m \in M("scheme", 1..n, 0..3) : m.d # o.frames[m.i].scheme}
     \cup M("drop", 1..n, {0}) \cup M("dup", 1..n, {0}) \cup M("swap", 1..(n - 1), {0})
     \cup {m \in M("splice", 1..n, {c.cid : c \in Chunks}) : m.d # o.frames[m.i].pcid}
     \cup (IF n < MaxChunks THEN M("insert", 1..(n + 1), {c.cid : c \in Chunks}) ELSE {})
     \cup M("oversize", 1..n, {0})
     \cup M("cut_frame", 1..n, {0}) \cup M("cut_after", 0..(n - 1), {0})
     \cup M("gap", {0}, {0}) \cup M("trail", {0}, {0})
     \cup (IF hasFoot
           THEN M("cut_foot8", {0}, {0}) \cup M("cut_foot", {0}, {0})
                \cup M("f_ident", {0}, {0}) \cup M("f_ver", {0}, {0, 1, 2} \ {f.ver}) \cup M("f_hash", {0}, {1, 2, 3})
                \cup M("f_n1", {0}, pm) \cup M("f_infolen", {0}, pm)
                \cup {m \in M("f_hashes", 1..n, {c.cid : c \in Chunks} \cup {Junk}) : m.d # f.hashes[m.i]}
                \cup M("f_bounds", 1..n, pm)
                \cup M("f_shrink", {0}, {0, 1}) \cup M("f_grow", {0}, {0}) \cup M("empty", {0}, {0})
           ELSE {})
     \cup (IF v1
           THEN M("f_hident", {0}, {0}) \cup M("f_hver", {0}, {0}) \cup M("f_bident", {0}, {0}) \cup M("f_bver", {0}, {0, 2})
                \cup M("f_n2", {0}, pm) \cup M("f_n3", {0}, pm) \cup M("f_counts", {0}, pm)
                \cup M("f_unpacked", 1..n, pm) \cup M("f_hoff", {0}, pm) \cup M("f_boff", {0}, pm)
           ELSE {})

Apply(o, m) ==
  LET fr == o.frames  n == Len(fr)  f == o.foot  i == m.i  d == m.d  k == m.k IN
  CASE k = "ver" -> [o EXCEPT !.frames[i].ver = 1]
    [] k = "clen" -> [o EXCEPT !.frames[i].clen = @ + d]
    [] k = "ulen" -> [o EXCEPT !.frames[i].ulen = @ + d]
    [] k = "scheme" -> [o EXCEPT !.frames[i].scheme = d]
    [] k = "payload" -> [o EXCEPT !.frames[i].pcid = Junk]          \* stored bytes damaged, lengths unchanged
    [] k = "drop" -> [o EXCEPT !.frames = Remove(fr, i)]
    [] k = "dup" -> [o EXCEPT !.frames = InsertAt(fr, i, fr[i])]
    [] k = "swap" -> [o EXCEPT !.frames = [fr EXCEPT ![i] = fr[i + 1], ![i + 1] = fr[i]]]
    [] k = "splice" -> [o EXCEPT !.frames[i] = Encode(ChunkOf(d), DefPick(ChunkOf(d)))]
    [] k = "insert" -> [o EXCEPT !.frames = InsertAt(fr, i, Encode(ChunkOf(d), DefPick(ChunkOf(d))))]
    \* a chunk one byte over the limit, everything else (footer, hash) consistent with it
    [] k = "oversize" -> LET fr2 == [fr EXCEPT ![i] = Encode(Big, 0)] IN
                         [o EXCEPT !.frames = fr2,
                                   !.foot = IF f.form = "none" THEN f
                                            ELSE FootOf(fr2, [j \in 1..n |-> DecodeCid(fr2[j])],
                                                        Root([j \in 1..n |-> DecodeCid(fr2[j])]), f.form)]
    [] k = "cut_frame" -> [o EXCEPT !.frames = SubSeq(fr, 1, i), !.foot = NoFoot, !.cut = "frame"]
    [] k = "cut_after" -> [o EXCEPT !.frames = SubSeq(fr, 1, i), !.foot = NoFoot]
    [] k = "cut_foot8" -> [o EXCEPT !.cut = "foot8"]
    [] k = "cut_foot" -> [o EXCEPT !.cut = "foot"]
    [] k = "gap" -> [o EXCEPT !.gap = TRUE]
    [] k = "trail" -> [o EXCEPT !.trail = TRUE]
    [] k = "f_ident" -> [o EXCEPT !.foot.identOk = FALSE]
    [] k = "f_ver" -> [o EXCEPT !.foot.ver = d]
    [] k = "f_hash" -> [o EXCEPT !.foot.hash = HVal(d, o)]
    [] k = "f_hident" -> [o EXCEPT !.foot.hidentOk = FALSE]
    [] k = "f_hver" -> [o EXCEPT !.foot.hver = 1]
    [] k = "f_bident" -> [o EXCEPT !.foot.bidentOk = FALSE]
    [] k = "f_bver" -> [o EXCEPT !.foot.bver = d]
    [] k = "f_n1" -> [o EXCEPT !.foot.n1 = @ + d]
    [] k = "f_n2" -> [o EXCEPT !.foot.n2 = @ + d]
    [] k = "f_n3" -> [o EXCEPT !.foot.n3 = @ + d]
    [] k = "f_counts" -> [o EXCEPT !.foot.n1 = @ + d, !.foot.n2 = @ + d, !.foot.n3 = @ + d]
    [] k = "f_hashes" -> [o EXCEPT !.foot.hashes[i] = d]
    [] k = "f_bounds" -> [o EXCEPT !.foot.bounds[i] = @ + d]
    [] k = "f_unpacked" -> [o EXCEPT !.foot.unpacked[i] = @ + d]
    [] k = "f_hoff" -> [o EXCEPT !.foot.hoff = @ + d]
    [] k = "f_boff" -> [o EXCEPT !.foot.boff = @ + d]
    [] k = "f_infolen" -> [o EXCEPT !.foot.infoLen = @ + d]
    \* a self-consistent footer for one frame fewer (d = 1: with the hash of that shorter list) / one frame more
    [] k = "f_shrink" -> [o EXCEPT !.foot = ReFoot(o, SubSeq(fr, 1, n - 1),
                                                   IF d = 1 THEN Root(SubSeq(DecIds(o), 1, n - 1)) ELSE f.hash)]
    [] k = "f_grow" -> [o EXCEPT !.foot = ReFoot(o, Append(fr, fr[n]), f.hash)]
    \* the xorb of no chunks at all, consistent in itself
    [] k = "empty" -> [o EXCEPT !.frames = <<>>, !.foot = ReFoot(o, <<>>, Zero)]
    [] OTHER -> o

-----------------------------------------------------------------------------
(* State machine                                                             *)
Init == /\ phase = "idle" /\ xorb = <<>> /\ obj = NoObj
        /\ sum = [dec |-> FALSE, root |-> Other, foot |-> "bad", v1foot |-> FALSE, nframes |-> 0]
        /\ kind = "mut" /\ own = Zero /\ mut = NoMut /\ claim = Zero /\ verd = NoVerd

\* CasObject::serialize (form "v1"); legacy writers / clients that omit the footer (forms "v0", "none")
Build(x, pick, form) ==
  /\ xorb' = x
  /\ obj' = XSerialize(x, pick, form)
  /\ sum' = Summary(obj')
  /\ kind' = form /\ own' = Root(Ids(x))
  /\ mut' = NoMut /\ claim' = Zero /\ verd' = NoVerd
  /\ phase' = "built"

Mutate(m) ==
  /\ phase = "built"
  /\ m \in Mutations(obj)
  /\ obj' = Apply(obj, m)
  /\ sum' = Summary(obj')
  /\ kind' = "mut" /\ mut' = m
  /\ claim' = Zero /\ verd' = NoVerd
  /\ phase' = "mutated"
  /\ UNCHANGED <<xorb, own>>

HKinds == {"own", "dec", "foot", "zero", "other"}
HDefined(hk) == CASE hk = "dec" -> Decodes(obj) [] hk = "foot" -> obj.foot.form # "none" [] OTHER -> TRUE
HOf(hk) == CASE hk = "own" -> own [] hk = "dec" -> Root(DecIds(obj)) [] hk = "foot" -> obj.foot.hash
             [] hk = "zero" -> Zero [] OTHER -> Other

Check(hk) ==
  /\ phase \in {"built", "mutated", "checked"}
  /\ HDefined(hk)
  /\ claim' = HOf(hk)
  /\ verd' = [seek |-> ValidateSeek(obj, claim'), stream |-> ValidateStream(obj, claim')]
  /\ phase' = "checked"
  /\ UNCHANGED <<xorb, obj, sum, kind, own, mut>>

\* reading back a serialized xorb (C07): the calls change nothing, their results are determined by the object
Reopen(f, infoLen) ==
  /\ phase = "built" /\ kind = "v1"
  /\ f = obj.foot /\ infoLen = obj.foot.infoLen
  /\ UNCHANGED vars
\* get_bytes_by_chunk_range / get_all_bytes, get_byte_offset, uncompressed_range_length for chunks [a, b)
ReadRange(a, b, boff, ids, ulen) ==
  /\ phase = "built" /\ kind = "v1"
  /\ 0 <= a /\ a < b /\ b <= Len(xorb)
  /\ boff = ByteOffset(obj, a, b)
  /\ ids = SubSeq(Ids(xorb), a + 1, b)          \* = GetRange(obj, a, b) on every built object: invariant RoundTrip
  /\ ulen = UncompressedRangeLen(obj, a, b)
  /\ UNCHANGED vars
\* deserialize_chunks (sync / async reader / stream) on the physical bytes of chunks [a, b):
\* the decoded contents and the uncompressed offsets 0, len(a+1), len(a+1) + len(a+2), ...
DecodeRange(a, b, ids, offs) ==
  /\ phase = "built"
  /\ 0 <= a /\ a < b /\ b <= Len(xorb)
  /\ ids = SubSeq(Ids(xorb), a + 1, b)
  /\ \A q \in (a + 1)..b : FrameOk(obj.frames[q])
  /\ ids = [q \in 1..(b - a) |-> DecodeCid(obj.frames[a + q])]
  /\ Len(offs) = (b - a) + 1 /\ offs[1] = 0
  /\ \A j \in 1..(b - a) : offs[j + 1] = offs[j] + xorb[a + j].len
  /\ UNCHANGED vars
\* deserialize_chunk on chunk i (1-based): contents, physical size, uncompressed size
DecodeOne(i, id, csize, usize) ==
  /\ phase = "built"
  /\ i \in 1..Len(xorb)
  /\ FrameOk(obj.frames[i])
  /\ id = xorb[i].cid /\ id = DecodeCid(obj.frames[i])
  /\ csize = HDR + obj.frames[i].clen
  /\ usize = xorb[i].len
  /\ UNCHANGED vars

\* a byte string that was not derived from the model: only its independent reading is known
Opaque(s, k, o) ==
  /\ xorb' = <<>> /\ obj' = NoObj /\ sum' = s /\ kind' = k /\ own' = o
  /\ mut' = NoMut /\ claim' = o /\ verd' = NoVerd
  /\ phase' = "opaque"
\* ... and the verdicts are the code's
Observe(h, vseek, vstream) ==
  /\ phase \in {"opaque", "ochecked"}
  /\ claim' = h /\ verd' = [seek |-> vseek, stream |-> vstream]
  /\ phase' = "ochecked"
  /\ UNCHANGED <<xorb, obj, sum, kind, own, mut>>

Forms == {"v1", "v0", "none"}
RECURSIVE SeqsUpTo(_, _)
SeqsUpTo(S, n) == IF n = 0 THEN {<<>>} ELSE LET P == SeqsUpTo(S, n - 1) IN P \cup {Append(s, e) : s \in {p \in P : Len(p) = n - 1}, e \in S}
Xorbs == SeqsUpTo(Chunks, MaxChunks) \ {<<>>}
Picks(x) == {p \in [1..Len(x) -> ValidSchemes] : \A i \in 1..Len(x) : p[i] \in Candidates(x[i].req)}

DoBuild == phase = "idle" /\ \E x \in Xorbs : \E p \in Picks(x) : \E form \in Forms : Build(x, p, form)
DoMutate == phase = "built" /\ \E m \in Mutations(obj) : Mutate(m)
DoCheck == phase \in {"built", "mutated"} /\ \E hk \in HKinds : Check(hk)
Next == DoBuild \/ DoMutate \/ DoCheck
Spec == Init /\ [][Next]_vars

-----------------------------------------------------------------------------
(* Properties                                                                *)
Checked == phase \in {"checked", "ochecked"}
\* C08: acceptance implies well-formedness for the claimed hash
AcceptSound ==
  Checked => /\ verd.seek = "accept" => WF(sum, "seek", claim)
             /\ verd.stream = "accept" => WF(sum, "stream", claim)
\* C08: a valid serialization is accepted for its own hash and for no other
ValidComplete ==
  Checked => /\ kind \in {"v1", "v0"} => ((verd.seek = "accept") <=> (claim = own))
             /\ kind \in {"v1", "v0", "none"} => ((verd.stream = "accept") <=> (claim = own))
\* the two validators agree on every non-empty object that carries a v1 footer marker
Agree ==
  Checked /\ sum.v1foot /\ sum.nframes > 0 => ((verd.seek = "accept") <=> (verd.stream = "accept"))
\* C07: every chunk range reads back as the corresponding slice; offset arrays are prefix sums of what was stored
RoundTrip ==
  phase = "built" /\ kind = "v1" =>
    LET n == Len(xorb) IN
    /\ obj.foot.bounds = Prefix([i \in 1..n |-> HDR + obj.frames[i].plen])
    /\ obj.foot.unpacked = Prefix([i \in 1..n |-> xorb[i].len])
    /\ \A i \in 1..n : /\ obj.frames[i].scheme \in {0} \cup Candidates(xorb[i].req)
                       /\ obj.frames[i].scheme = 0 <=> obj.frames[i].clen = xorb[i].len
                       /\ obj.frames[i].scheme # 0 => obj.frames[i].clen < xorb[i].len
    /\ \A a \in 0..(n - 1) : \A b \in (a + 1)..n :
         /\ GetRange(obj, a, b) = SubSeq(Ids(xorb), a + 1, b)
         /\ UncompressedRangeLen(obj, a, b) = SumTo([i \in 1..n |-> xorb[i].len], b) - SumTo([i \in 1..n |-> xorb[i].len], a)
    /\ DeserOk(obj) /\ BoundsOk(obj)
Invs == AcceptSound /\ ValidComplete /\ Agree /\ RoundTrip
=============================================================================
