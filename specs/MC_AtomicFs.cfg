SPECIFICATION Spec
CONSTANTS
  Protos = {"shard_flush", "consolidate", "local_put", "cache_put"}
  AllInputs = {"i1", "i2", "i3"}
  Variant = "ok"
INVARIANT Invs
CHECK_DEADLOCK FALSE
