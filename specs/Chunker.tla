------------------------------ MODULE Chunker ------------------------------
(* Call-level state machine of deduplication::Chunker (chunking.rs).         *)
(*                                                                           *)
(* The input stream is abstract.  `ref` is the list of chunk lengths the     *)
(* REFERENCE gear-hash rule produces on it:                                  *)
(*   a chunk ends after its j-th byte iff j = MaxChunk, or the rolling hash  *)
(*   fed with every byte of the chunk from offset RefSkip on (and reset at   *)
(*   every boundary) matches the mask; the stream's tail is the last chunk.  *)
(* `closed` says whether the last reference chunk ends on such a boundary    *)
(* (TRUE) or is an open tail that only the end of the stream terminates.     *)
(* Next(n, final) transcribes one call Chunker::next(&data[..n], final) on   *)
(* the bytes following `pos`; NextBlock is next_block; finish() is           *)
(* Next(0, TRUE).  What the gear hash sees is derived from `ref`: the open   *)
(* chunk's first match is at chunk offset ref[Len(out)+1] when that chunk is *)
(* closed and shorter than MaxChunk, and nowhere otherwise.                  *)
EXTENDS Integers, Sequences

CONSTANTS W,            \* hash window (HASH_WINDOW_SIZE = 64)
          MinChunk,     \* target / MINIMUM_CHUNK_DIVISOR
          MaxChunk,     \* target * MAXIMUM_CHUNK_MULTIPLIER
          SkipExtra,    \* 0 in the code; 1 = "skip distance off by one" (negative control)
          ResetCur      \* TRUE in the code; FALSE = cur_chunk_len not reset at a cut (negative control)

VARIABLES ref,          \* reference chunk lengths of the stream
          closed,       \* the last reference chunk ends at a boundary
          pos,          \* bytes of the stream consumed so far
          cur,          \* cur_chunk_len
          buffered,     \* chunkbuf.len()
          out           \* lengths of the chunks returned so far
vars == <<ref, closed, pos, cur, buffered, out>>

Min2(a, b) == IF a <= b THEN a ELSE b
RECURSIVE SumSeq(_)
SumSeq(s) == IF s = <<>> THEN 0 ELSE Head(s) + SumSeq(Tail(s))
RECURSIVE SumTo(_, _)
SumTo(s, k) == IF k = 0 THEN 0 ELSE s[k] + SumTo(s, k - 1)
Total == SumSeq(ref)

\* offset from which the reference rule (and the code) hashes the bytes of a chunk
RefSkip == IF MinChunk > W THEN MinChunk - W - 1 ELSE 0
\* shortest chunk a boundary can close
MinCut == RefSkip + 1

\* what the reference rule can produce at all: closed chunks in MinCut..MaxChunk, an open tail below MaxChunk
RefOK(r, c) ==
  /\ \A i \in 1..Len(r) : r[i] \in 1..MaxChunk
  /\ \A i \in 1..Len(r) : (i < Len(r) \/ c) => r[i] >= MinCut
  /\ (Len(r) > 0 /\ ~c) => r[Len(r)] < MaxChunk
  /\ (Len(r) = 0) => c

State == [pos |-> pos, cur |-> cur, buffered |-> buffered, out |-> out]

(* One call of Chunker::next with n bytes of input, transcribed branch by branch. *)
Step(s, n, final) ==
  LET open == Len(s.out) < Len(ref)
      L == IF open THEN ref[Len(s.out) + 1] ELSE 0
      isClosed == open /\ (Len(s.out) + 1 < Len(ref) \/ closed)
      \* chunk offset (1-based byte count) at which next_match reports the boundary; 0 = no match before the forced cut
      M == IF isClosed /\ L < MaxChunk THEN L ELSE 0
      \* if self.cur_chunk_len + HASH_WINDOW_SIZE < self.minimum_chunk { max_advance = min(minimum - cur - 64 - 1, n) }
      adv == IF n # 0 /\ s.cur + W < MinChunk
             THEN Min2((MinChunk - s.cur - W - 1) + SkipExtra, n) ELSE 0
      cur1 == s.cur + adv
      \* let read_end = n_bytes.min(consume_len + self.maximum_chunk - self.cur_chunk_len);
      readEnd == Min2(n, adv + (MaxChunk - cur1))
      win == readEnd - adv
      \* self.hash.next_match(&data[consume_len..read_end], self.mask)
      match == M # 0 /\ cur1 < M /\ M <= cur1 + win
      b0 == IF match THEN M - cur1 ELSE win
      \* if bytes_to_next_boundary + self.cur_chunk_len >= self.maximum_chunk
      forced == b0 + cur1 >= MaxChunk
      b == IF forced THEN MaxChunk - cur1 ELSE b0
      create == n # 0 /\ (match \/ forced)
      consumed == IF n = 0 THEN 0 ELSE adv + b
      cur2 == IF n = 0 THEN s.cur ELSE cur1 + b
      buf2 == s.buffered + consumed
      \* if create_chunk || (is_final && !self.chunkbuf.is_empty())
      emit == create \/ (final /\ buf2 # 0)
  IN [consumed |-> consumed, some |-> emit, emitted |-> IF emit THEN buf2 ELSE 0,
      branch |-> [skip |-> adv > 0, skiponly |-> (n # 0 /\ adv = n), clamp |-> (n # 0 /\ readEnd < n),
                  match |-> (n # 0 /\ match), forced |-> (n # 0 /\ forced), flush |-> (emit /\ ~create)],
      st |-> [pos |-> s.pos + consumed,
              cur |-> IF emit /\ ResetCur THEN 0 ELSE cur2,
              buffered |-> IF emit THEN 0 ELSE buf2,
              out |-> IF emit THEN Append(s.out, buf2) ELSE s.out]]

\* the caller's contract: bytes exist, and `final` is only said with the last bytes of the stream
CallOK(s, n, final) == s.pos + n <= Total /\ (final => s.pos + n = Total)

Set(s) == /\ pos' = s.pos /\ cur' = s.cur /\ buffered' = s.buffered /\ out' = s.out
          /\ UNCHANGED <<ref, closed>>

Next(n, final) == CallOK(State, n, final) /\ Set(Step(State, n, final).st)

(* next_block: `loop { if pos == data.len() { return }; next(&data[pos..], is_final) }` - note that an empty   *)
(* block returns at once, so next_block(&[], true) does NOT flush (finish() does).                             *)
RECURSIVE Block(_, _, _)
Block(s, n, final) ==
  IF n = 0 THEN [st |-> s, emitted |-> <<>>]
  ELSE LET r == Step(s, n, final)
           rest == Block(r.st, n - r.consumed, final)
       IN IF r.consumed = 0 THEN [st |-> s, emitted |-> <<-1>>]                  \* would loop forever
          ELSE [st |-> rest.st, emitted |-> (IF r.some THEN <<r.emitted>> ELSE <<>>) \o rest.emitted]

NextBlock(n, final) == CallOK(State, n, final) /\ Set(Block(State, n, final).st)

Init == /\ pos = 0 /\ cur = 0 /\ buffered = 0 /\ out = <<>>
        /\ ref \in Seq(Nat) /\ closed \in BOOLEAN /\ RefOK(ref, closed)

--------------------------------------------------------------------------------
(* C04 *)
IsPrefix(a, b) == Len(a) <= Len(b) /\ \A i \in 1..Len(a) : a[i] = b[i]

TypeOK == pos \in 0..Total /\ cur \in 0..MaxChunk /\ buffered \in 0..MaxChunk
\* boundaries equal the reference rule's (hence independent of the call partition and of the position in the stream)
OutIsRefPrefix == IsPrefix(out, ref)
\* nothing lost, nothing duplicated: the chunks so far plus the buffer are exactly the consumed bytes
Conservation == buffered + SumSeq(out) = pos /\ cur = buffered
\* the open chunk never grows past its reference boundary
OpenWithinRef == Len(out) < Len(ref) => cur <= ref[Len(out) + 1] /\ (cur = ref[Len(out) + 1] => Len(out) + 1 = Len(ref) /\ ~closed)
AllInEnd == Len(out) = Len(ref) => pos = Total /\ buffered = 0
\* sizes: no chunk above the maximum; every chunk but the stream's last at least MinChunk - W
Bounds == /\ \A i \in 1..Len(out) : out[i] >= 1 /\ out[i] <= MaxChunk
          /\ \A i \in 1..Len(out) : (i < Len(out) \/ pos < Total) => out[i] + W >= MinChunk
\* about every call that can be made next: a call that returns no chunk has consumed all its input; a final call
\* that consumed all its input leaves nothing buffered; no call consumes more than it is given
CallPropsOn(S) ==
  \A n \in S : \A final \in BOOLEAN :
     CallOK(State, n, final) =>
        LET r == Step(State, n, final) IN
        /\ r.consumed <= n
        /\ ~r.some => r.consumed = n
        /\ (final /\ r.consumed = n) => (r.st.buffered = 0 /\ r.st.out = ref)
        /\ (r.some /\ r.st.pos < Total) => r.emitted + W >= MinChunk
        /\ r.some => r.emitted \in 1..MaxChunk
CallProps == CallPropsOn(0..(Total - pos))
Done == pos = Total /\ buffered = 0
DoneRight == Done => out = ref

Invs == TypeOK /\ OutIsRefPrefix /\ Conservation /\ OpenWithinRef /\ AllInEnd /\ Bounds /\ DoneRight
=============================================================================
