SPECIFICATION Spec
CONSTANTS
  W = 2
  D = 2
  Cap = 3
  Variant = "ok"
  Arrays <- MCArrays
  Keys <- KeySet
INVARIANT Sound
INVARIANT Correct
INVARIANT InBounds
PROPERTY Terminates
CHECK_DEADLOCK FALSE
