--------------------------- MODULE Gen_Reconstruct ---------------------------
(* Scenario generation for the reconstruction replay: every (xorb shapes,     *)
(* file, byte range or whole-file call, plan = ordered fetch-range lists) of  *)
(* the bounded model is printed once.  The driver builds real xorbs with      *)
(* these chunk lengths, serves this plan from its reconstruction endpoint and *)
(* runs the request through RemoteClient::get_file in every writer / cache /  *)
(* URL mode; what the code does is recorded and validated by                  *)
(* Trace_Reconstruct (which also re-checks the served plan with PlanOK).      *)
EXTENDS MC_Reconstruct, Json
GNext == MCSetup \/ MCCall \/ MCServePlan
GSpec == Init /\ [][GNext]_vars
Emit == phase = "run" =>
          PrintT(<<"SCN", ToJson([xorbs |-> [x \in 1..NX |-> [i \in 1..NCh(x) |-> xorbs[x][i].len]],
                                  file |-> file, s |-> req.s, e |-> req.e, whole |-> req.whole,
                                  fetch |-> plan.fetch])>>)
=============================================================================
