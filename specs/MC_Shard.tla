------------------------------ MODULE MC_Shard ------------------------------
(* Exhaustive check of the lookup / dedup-query definitions of Shard over a    *)
(* small universe: 2 prefixes x 2 rests, two xorbs of up to 3 chunks with       *)
(* colliding prefixes and repeated chunks, plain and keyed, Cap = 2 so that     *)
(* the result buffer overflows with two entries.                                *)
EXTENDS Shard
VARIABLES s, q
Hashes == {<<1, 1>>, <<1, 2>>, <<2, 1>>}
MCKeyedH(h, k) == IF k = 0 THEN h ELSE <<3 - h[1], h[2]>>     \* an injective re-keying that changes the prefix
StoredHashes(k) == {MCKeyedH(h, k) : h \in Hashes}
Lens == {1, 2}
ChunkSeqs(k) == UNION {[1..n -> StoredHashes(k) \X Lens] : n \in 1..2}
Queries == UNION {[1..n -> Hashes] : n \in 0..3}
XorbNames == {<<1, 1>>, <<1, 2>>}                            \* the two xorbs share a prefix
Shards == UNION {{[xorbs |-> xs, key |-> k] : xs \in UNION {[D -> ChunkSeqs(k)] : D \in (SUBSET XorbNames) \ {{}}}} : k \in {0, 1}}
Init == s \in Shards /\ q \in Queries
Next == UNCHANGED <<s, q>>
Spec == Init /\ [][Next]_<<s, q>>
DedupOK == \A ans \in DedupResults(s, q) : Truthful(s, q, ans) /\ Complete(s, q, ans)
LookupOK == \A h \in XorbNames \cup {<<2, 1>>} : \A res \in LookupXorbResults(s, h) : LookupExact(s, h, res)
\* negative control: an answer that trusts the truncated prefix only would not be truthful
PrefixOnlyAnswers == IF q = <<>> THEN {} ELSE
   {Answer(s, e[1], e[2], 1) : e \in ChunkCands(s, Prefix(MCKeyedH(q[1], s.key)))}
PrefixOnlyTruthful == \A ans \in PrefixOnlyAnswers : Truthful(s, q, ans)
=============================================================================
