---------------------------- MODULE ShardSetOps ----------------------------
(***************************************************************************)
(* mdb_shard/src/set_operations.rs : set_operation over the file-info      *)
(* sections of two shards (the CAS sections use the same table without the *)
(* flag cases).  A record is [h, v, m]: file hash, has-verification,        *)
(* has-metadata.  Both inputs are sorted by hash.  One step = one           *)
(* iteration of the `while let Some(action)` loop: the action table         *)
(* (get_next_actions / get_next_actions_for_file_info) is applied to the    *)
(* two cursor heads.  Variant = "swap_superb" is a negative control: the    *)
(* SuperB case copies the first record instead of the second.               *)
(***************************************************************************)
EXTENDS Naturals, Sequences, FiniteSets, TLC
CONSTANTS Hashes, Op, Variant

Recs == [h : Hashes, v : BOOLEAN, m : BOOLEAN]
Sorted(s) == \A i \in 1..(Len(s) - 1) : s[i].h < s[i + 1].h
Inputs == {s \in UNION {[1..n -> Recs] : n \in 0..Cardinality(Hashes)} : Sorted(s)}

VARIABLES A, B, i, j, out, done
vars == <<A, B, i, j, out, done>>

Init == A \in Inputs /\ B \in Inputs /\ i = 1 /\ j = 1 /\ out = <<>> /\ done = FALSE

HasA == i <= Len(A)
HasB == j <= Len(B)
Superset(a, b) == (b.v => a.v) /\ (b.m => a.m)

Step ==
  /\ ~done
  /\ IF ~HasA /\ ~HasB THEN done' = TRUE /\ UNCHANGED <<i, j, out>>
     ELSE IF HasA /\ ~HasB THEN       \* (Some, None): union copies the first, difference skips it
            /\ i' = i + 1 /\ UNCHANGED <<j, done>>
            /\ out' = IF Op = "union" THEN Append(out, A[i]) ELSE out
     ELSE IF ~HasA /\ HasB THEN       \* (None, Some): copy the second
            /\ j' = j + 1 /\ out' = Append(out, B[j]) /\ UNCHANGED <<i, done>>
     ELSE LET a == A[i] b == B[j] IN
          IF a.h = b.h /\ Op = "union" THEN
             \* flag cases
             IF Superset(a, b) THEN /\ out' = Append(out, a) /\ i' = i + 1 /\ j' = j + 1 /\ UNCHANGED done   \* Equal / SuperA
             ELSE IF Superset(b, a) THEN
                    /\ out' = Append(out, IF Variant = "swap_superb" THEN a ELSE b)
                    /\ i' = i + 1 /\ j' = j + 1 /\ UNCHANGED done                                           \* SuperB
             ELSE /\ out' = Append(out, [h |-> a.h, v |-> a.v \/ b.v, m |-> a.m \/ b.m])                      \* Neither: merge
                  /\ i' = i + 1 /\ j' = j + 1 /\ UNCHANGED done
          ELSE IF a.h < b.h THEN
                 /\ i' = i + 1 /\ UNCHANGED <<j, done>>
                 /\ out' = IF Op = "union" THEN Append(out, a) ELSE out
          ELSE IF a.h = b.h THEN       \* difference, equal: skip both
                 /\ i' = i + 1 /\ j' = j + 1 /\ UNCHANGED <<out, done>>
          ELSE /\ j' = j + 1 /\ out' = Append(out, b) /\ UNCHANGED <<i, done>>
  /\ UNCHANGED <<A, B>>

Spec == Init /\ [][Step]_vars /\ WF_vars(Step)

HashesOf(s) == {s[k].h : k \in 1..Len(s)}
RecOf(s, h) == s[CHOOSE k \in 1..Len(s) : s[k].h = h]
\* set-theoretic meaning
UnionOK == /\ HashesOf(out) = HashesOf(A) \cup HashesOf(B)
           /\ \A h \in HashesOf(out) :
                LET r == RecOf(out, h) IN
                IF h \in HashesOf(A) /\ h \in HashesOf(B)
                  THEN r.v = (RecOf(A, h).v \/ RecOf(B, h).v) /\ r.m = (RecOf(A, h).m \/ RecOf(B, h).m)   \* the richer variant
                  ELSE IF h \in HashesOf(A) THEN r = RecOf(A, h) ELSE r = RecOf(B, h)
DiffOK == /\ HashesOf(out) = HashesOf(B) \ HashesOf(A)
          /\ \A h \in HashesOf(out) : RecOf(out, h) = RecOf(B, h)
Correct == done => /\ Sorted(out) /\ Cardinality(HashesOf(out)) = Len(out)      \* lookup tables stay sorted, no duplicates
                   /\ IF Op = "union" THEN UnionOK ELSE DiffOK
Terminates == <>done
=============================================================================
