SPECIFICATION Spec
CONSTANTS
  Hashes = {1, 2, 3}
  Op = "union"
  Variant = "swap_superb"
INVARIANT Correct
PROPERTY Terminates
CHECK_DEADLOCK FALSE
