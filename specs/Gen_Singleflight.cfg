SPECIFICATION GSpec
CONSTANTS
  Callers = {"c1", "c2"}
  Keys = {"k1", "k2"}
  Outcomes = {"ok", "err", "panic"}
  Vals = {1}
  LazyNotified = FALSE
  MaxCalls = 4
  MaxPerCaller = 1
INVARIANT Emit
INVARIANT Safety
CHECK_DEADLOCK FALSE
