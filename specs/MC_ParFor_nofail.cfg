SPECIFICATION Spec
CONSTANTS
  N = 5
  K = 3
  Fails = {}
  Variant = "ok"
INVARIANT Invs
PROPERTY Terminates
PROPERTY Implements
CHECK_DEADLOCK FALSE
