--------------------------- MODULE Gen_ChunkCache ---------------------------
(* Schedule generation for the DiskCache replay: behaviours of ChunkCache     *)
(* (two threads, one key, ranges over two chunks) recorded as the sequence    *)
(* of gate releases that realises them.  An entry with an operation starts    *)
(* it on that thread, an entry without lets the thread take its next step.    *)
(* Which item random eviction or find_match picks is the code's choice: the   *)
(* recorded trace, not the schedule, is what gets validated.                  *)
EXTENDS MC_ChunkCache, Json, TLCExt
CONSTANT MaxLen
VARIABLE ghist
gvars == <<vars, ghist>>
GInit == Init /\ ghist = <<>>
StepOf(t) == [t |-> t]
GNext ==
  /\ Len(ghist) < MaxLen
  /\ \E t \in Threads :
       \/ \E kind \in {"get", "put"}, k \in Keys, r \in Ranges :
            /\ Start(t, kind, k, r)
            /\ ghist' = Append(ghist, [t |-> t, kind |-> kind, k |-> k, s |-> r[1], e |-> r[2]])
       \/ /\ \/ DoFind(t) \/ Open(t) \/ RmState(t) \/ RmFile(t) \/ PWrite(t)
             \/ DoCommit(t) \/ DoDel(t) \/ PDone(t)
          /\ ghist' = Append(ghist, StepOf(t))
GSpec == GInit /\ [][GNext]_gvars
Emit == Len(ghist) = MaxLen => PrintT(<<"SCN", ToJson([steps |-> ghist])>>)
=============================================================================
