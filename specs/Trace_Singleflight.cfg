SPECIFICATION TraceSpec
CONSTANTS
  Callers <- TCallers
  Keys <- TKeys
  Outcomes = {"ok", "err", "panic"}
  Vals = {}
  LazyNotified = FALSE
  MaxCalls = 1000000
INVARIANT Safety
POSTCONDITION TraceAccepted
CHECK_DEADLOCK FALSE
