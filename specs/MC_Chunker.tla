----------------------------- MODULE MC_Chunker -----------------------------
(* Exhaustive instances of Chunker: every reference stream made of closed    *)
(* chunks with lengths in Lens (at most MaxChunks of them) followed by an    *)
(* open tail in Tails (0 = none), driven by every sequence of calls whose    *)
(* sizes are in CallSizes or "all the rest", final or not, through next and  *)
(* next_block.  One sub-action per outcome class of Chunker::next so that    *)
(* TLC's coverage shows each branch was taken.                               *)
EXTENDS Chunker, TLC

CONSTANTS Lens, Tails, MaxChunks, CallSizes,
          FullProbe     \* TRUE: CallProps over every call size; FALSE: over the call sizes of the instance

Bodies == UNION {[1..k -> Lens] : k \in 0..MaxChunks}

MCInit == /\ pos = 0 /\ cur = 0 /\ buffered = 0 /\ out = <<>>
          /\ \E r \in Bodies : \E t \in Tails :
                /\ ref = IF t = 0 THEN r ELSE Append(r, t)
                /\ closed = (t = 0)
          /\ RefOK(ref, closed)

Sizes == {n \in CallSizes \cup {Total - pos} : pos + n <= Total}
Br(n, f) == Step(State, n, f).branch
R(n, f) == Step(State, n, f)

CallEmpty == \E n \in Sizes : \E f \in BOOLEAN : n = 0 /\ ~R(n, f).some /\ Next(n, f)
CallFlush == \E n \in Sizes : \E f \in BOOLEAN : Br(n, f).flush /\ Next(n, f)                                  \* final flush of the tail
CallSkipOnly == \E n \in Sizes : \E f \in BOOLEAN : Br(n, f).skiponly /\ ~R(n, f).some /\ Next(n, f)           \* whole input inside the skipped prefix
CallNoMatch == \E n \in Sizes : \E f \in BOOLEAN : n # 0 /\ ~Br(n, f).skiponly /\ ~R(n, f).some /\ Next(n, f)  \* hashed, no boundary, all consumed
CallMatchSkip == \E n \in Sizes : \E f \in BOOLEAN : Br(n, f).match /\ ~Br(n, f).forced /\ Br(n, f).skip /\ Next(n, f)
CallMatch == \E n \in Sizes : \E f \in BOOLEAN : Br(n, f).match /\ ~Br(n, f).forced /\ ~Br(n, f).skip /\ Next(n, f)
CallForcedClamp == \E n \in Sizes : \E f \in BOOLEAN : Br(n, f).forced /\ Br(n, f).clamp /\ Next(n, f)       \* read_end clamped to the maximum
CallForced == \E n \in Sizes : \E f \in BOOLEAN : Br(n, f).forced /\ ~Br(n, f).clamp /\ Next(n, f)
CallBlock == \E n \in Sizes : \E f \in BOOLEAN : NextBlock(n, f)

MCNext == \/ CallEmpty \/ CallFlush \/ CallSkipOnly \/ CallNoMatch \/ CallMatchSkip \/ CallMatch
          \/ CallForcedClamp \/ CallForced \/ CallBlock
MCSpec == MCInit /\ [][MCNext]_vars

\* next_block is the iteration of next: same chunks, all input consumed, never stuck
BlockProps ==
  \A n \in Sizes : \A f \in BOOLEAN :
     CallOK(State, n, f) =>
        LET b == Block(State, n, f) IN
        /\ b.st.pos = pos + n
        /\ \A i \in 1..Len(b.emitted) : b.emitted[i] >= 1
        /\ b.st.out = out \o b.emitted

MCInvs == Invs /\ (IF FullProbe THEN CallProps ELSE CallPropsOn(Sizes)) /\ BlockProps
=============================================================================
