-------------------------- MODULE Trace_Reconstruct --------------------------
(* Trace validation for C17.  One run = one scenario variant recorded by the  *)
(* reconstruct driver from a real RemoteClient talking to the harness's HTTP  *)
(* server: RcScenario, then per get_file call RcCall (driver), RcPlan (the    *)
(* server's answer to GET /reconstruction, with the Range header it saw),     *)
(* RcServe (one per blob request, with the Range header it saw), the hook     *)
(* events of remote_client.rs and RcEnd (returned length, output file as      *)
(* pieces).  RcFail (error / panic / timeout) is matched by no action.        *)
(* Events of concurrent term tasks are anonymous: they are bound by term      *)
(* value (bags in the base spec).  RcFetched is emitted before the cache put  *)
(* and RcHit after the cache get, so a hit always follows the fill it reads.  *)
EXTENDS Reconstruct, Json, IOUtils, TLCExt

Rec == ndJsonDeserialize(IOEnv.TRACE)

VARIABLE l
tvars == <<vars, l>>
TraceInit == Init /\ l = 2          \* record 1 is the setup record

IsEvent(e) == l <= Len(Rec) /\ Rec[l].ev = e /\ l' = l + 1
R == Rec[l]

TrReset == /\ IsEvent("reset")
           /\ xorbs' = <<>> /\ file' = <<>> /\ cacheOn' = FALSE /\ cache' = {}
           /\ phase' = "boot" /\ nreq' = 0
           /\ writer' = "seq" /\ shared' = FALSE /\ req' = [s |-> 0, e |-> 0, whole |-> FALSE] /\ plan' = NoPlan
           /\ started' = EmptyBag /\ raws' = EmptyBag /\ gots' = EmptyBag /\ flights' = {}
           /\ k' = 0 /\ remaining' = 0 /\ pos' = 0 /\ tplan' = <<>> /\ wrote' = {} /\ total' = 0 /\ wlog' = <<>>
           /\ reported' = -1 /\ served' = 0

\* chunk ids are positive and pairwise distinct within a scenario (the byte -> chunk projection relies on it)
DistinctIds(xs) == \A x1, x2 \in 1..Len(xs) : \A i1 \in 1..Len(xs[x1]), i2 \in 1..Len(xs[x2]) :
                     /\ xs[x1][i1].id > 0 /\ xs[x1][i1].len > 0
                     /\ (xs[x1][i1].id = xs[x2][i2].id => x1 = x2 /\ i1 = i2)
TrScenario == /\ IsEvent("RcScenario")
              /\ DistinctIds(R.xorbs)
              /\ \A j \in 1..Len(R.file) : /\ R.file[j][1] \in 1..Len(R.xorbs)
                                           /\ 0 <= R.file[j][2] /\ R.file[j][2] < R.file[j][3]
                                           /\ R.file[j][3] <= Len(R.xorbs[R.file[j][1]])
              /\ Setup(R.xorbs, R.file, R.cache, {})

TrCall == IsEvent("RcCall") /\ Call(R.s, R.e, R.whole, R.writer)

\* the request the server saw is the one that was made (exclusive end -> inclusive end), the plan it answers with
\* is a plan the CAS server may derive, and every url_range is the serialized extent of its chunk range
TrPlan == /\ IsEvent("RcPlan")
          /\ phase = "called"
          /\ IF req.whole THEN ~R.hasrange ELSE R.hasrange /\ R.hs = req.s /\ R.he = req.e - 1
          /\ \A x \in 1..Len(R.fetch) : \A i \in 1..Len(R.fetch[x]) :
               UrlRange(x, <<R.fetch[x][i][1], R.fetch[x][i][2]>>) = <<R.fetch[x][i][3], R.fetch[x][i][4]>>
          /\ ServePlan([first |-> R.first, n |-> R.n, off |-> R.off,
                        fetch |-> [x \in 1..Len(R.fetch) |-> [i \in 1..Len(R.fetch[x]) |-> <<R.fetch[x][i][1], R.fetch[x][i][2]>>]]],
                       R.shared)

\* a per-range URL is only ever asked for its own range
TrServe == /\ IsEvent("RcServe")
           /\ R.plo >= 0 => UrlRange(R.x, <<R.plo, R.phi>>) = <<R.a, R.b>>
           /\ Serve(R.x, R.a, R.b)

TrHit == /\ IsEvent("RcHit")
         /\ LET v == <<R.x, R.lo, R.hi>>
            IN \E c \in cache : /\ c.x = v[1] /\ c.lo <= v[2] /\ v[3] <= c.hi
                                /\ DLen(HitData(v, c)) = R.len
                                /\ Hit(v, c)

TrFetched == /\ IsEvent("RcFetched")
             /\ LET v == <<R.x, R.lo, R.hi>>
                IN /\ phase = "run" /\ v \in Values
                   /\ FindFetch(v) = <<R.flo, R.fhi>>
                   /\ UrlRange(R.x, FindFetch(v)) = <<R.ulo, R.uhi>>
                   /\ \E r \in {FindFetch(v)} \cup {fl.r : fl \in flights} :
                        /\ DLen(<<R.x, r[1], r[2]>>) = R.len
                        /\ (r[2] - r[1]) + 1 = R.noffs
                        /\ Fetched(v, r)

TrTerm == /\ IsEvent("RcTerm")
          /\ LET v == <<R.x, R.lo, R.hi>>
             IN \E rw \in BagToSet(raws) : /\ rw[1] = v
                                           /\ ~FillFails(rw)
                                           /\ DLen(Trimmed(rw)) = R.len
                                           /\ Fill(rw)

TrSeqWrite == /\ IsEvent("RcSeqWrite")
              /\ R.idx = k
              /\ \E g \in BagToSet(gots) : /\ g[1] = PTerm(k + 1)
                                           /\ DLen(g[2]) = R.tlen
                                           /\ SeqStart = R.start /\ SeqEnd(g[2]) = R.end
                                           /\ SeqWrite(g[2])

TrParPlan == /\ IsEvent("RcParPlan")
             /\ R.idx = k
             /\ ParStart = R.start /\ ParEnd = R.end /\ ParOff = R.off
             /\ ParPlan

TrParWrite == /\ IsEvent("RcParWrite")
              /\ \E t \in 1..k : /\ t \notin wrote
                                 /\ tplan[t][3] = R.off /\ tplan[t][2] - tplan[t][1] = R.len
                                 /\ \E g \in BagToSet(gots) : g[1] = PTerm(t) /\ ParWrite(t, g[2])

\* C17: the output file is exactly the requested slice and the returned length is its length
TrEnd == /\ IsEvent("RcEnd")
         /\ Norm(R.out) = Norm(ExpectedPieces)
         /\ R.n = req.e - req.s
         /\ Finish
         /\ reported' = R.n

TraceNext == \/ TrReset \/ TrScenario \/ TrCall \/ TrPlan \/ TrServe \/ TrHit \/ TrFetched \/ TrTerm
             \/ TrSeqWrite \/ TrParPlan \/ TrParWrite \/ TrEnd
TraceSpec == TraceInit /\ [][TraceNext]_tvars

TraceAccepted ==
  LET d == TLCGet("stats").diameter IN
  IF d = Len(Rec) THEN TRUE
  ELSE Print(<<"TRACE_REJECTED at line", d + 1, "of", Len(Rec), Rec[d + 1]>>, FALSE)

StopAt == l # atoi(IOEnv.STOPAT)
TraceInvs == NoFailure /\ CorrectPieces /\ CacheTruthful
=============================================================================
