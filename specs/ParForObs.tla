---------------------------- MODULE ParForObs ----------------------------
(***************************************************************************)
(* What a caller of parutils::tokio_par_for_each / run_tokio_parallel can   *)
(* observe: closure invocations start and end, then the call returns.       *)
(* Every item is handed to the closure at most once; the call returns only  *)
(* when no invocation is running; it returns Ok exactly when no invocation  *)
(* failed, and then every item has been processed and out[i] is the value   *)
(* the closure produced for item i (input order).  After a failure the      *)
(* remaining items may or may not be processed (the other workers go on).   *)
(* ParFor.tla (the worker-pool algorithm) is checked to implement this.     *)
(***************************************************************************)
EXTENDS Naturals, FiniteSets
VARIABLES n,        \* items 1..n            (fixed during a call; variables so that one trace can hold many calls)
          fails,    \* items whose closure returns an error
          started, running, done, failed, ret
ovars == <<n, fails, started, running, done, failed, ret>>
Items == 1..n

OInit == n \in Nat /\ fails \subseteq 1..n /\ started = {} /\ running = {} /\ done = {} /\ failed = {} /\ ret = "none"
OStart(i) == /\ ret = "none" /\ i \in Items \ started
             /\ started' = started \cup {i} /\ running' = running \cup {i}
             /\ UNCHANGED <<n, fails, done, failed, ret>>
OEnd(i) == /\ i \in running
           /\ running' = running \ {i}
           /\ IF i \in fails THEN failed' = failed \cup {i} /\ UNCHANGED done
                             ELSE done' = done \cup {i} /\ UNCHANGED failed
           /\ UNCHANGED <<n, fails, started, ret>>
OReturn == /\ ret = "none" /\ running = {}
           /\ \/ failed # {} /\ ret' = "err"
              \/ failed = {} /\ done = Items /\ ret' = "ok"
           /\ UNCHANGED <<n, fails, started, running, done, failed>>
ONext == (\E i \in Items : OStart(i) \/ OEnd(i)) \/ OReturn
OSpec == OInit /\ [][ONext]_ovars
=============================================================================
