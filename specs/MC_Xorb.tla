------------------------------ MODULE MC_Xorb ------------------------------
(* Bounded instances of Xorb: chunk universes whose lengths are {1,2,3}.     *)
(* c1: too short to compress (fallback to scheme none); c2: lz4 to 1;        *)
(* c3: bg4 to 2; c4: stored as is, same length as c2; c5: the code chooses,  *)
(* lz4 would not shrink it, bg4 does; c6: a second 1-byte chunk.             *)
EXTENDS Xorb
C1 == [cid |-> 1, len |-> 1, req |-> 1, comp |-> <<2, 2>>]
C2 == [cid |-> 2, len |-> 2, req |-> 1, comp |-> <<1, 2>>]
C3 == [cid |-> 3, len |-> 3, req |-> 2, comp |-> <<3, 2>>]
C4 == [cid |-> 4, len |-> 2, req |-> 0, comp |-> <<1, 1>>]
C5 == [cid |-> 5, len |-> 3, req |-> 9, comp |-> <<3, 1>>]
C6 == [cid |-> 6, len |-> 1, req |-> 0, comp |-> <<1, 1>>]
MCChunks4 == {C1, C2, C3, C4}
MCChunks5 == {C1, C2, C3, C4, C5}
MCChunks6 == {C1, C2, C3, C4, C5, C6}
NoChunks == {}
=============================================================================
