-------------------------- MODULE Gen_ShardManager --------------------------
(* Schedule generation for the ShardFileManager replay: behaviours of         *)
(* ShardManager (two threads, three xorbs, four shards from elsewhere)         *)
(* recorded as the list of steps that realises them:                          *)
(*   [t, op: "add", x]      thread t passes the gate of add_cas_block(x)       *)
(*   [t, op: "fwrite"]      t's flush runs its first critical section          *)
(*   [t, op: "freg"]        ... and its second                                 *)
(*   [op: "reg", ids]       register_shards on the listed foreign shards       *)
EXTENDS MC_ShardManager, Json, TLCExt
CONSTANT MaxLen
VARIABLE ghist
gvars == <<vars, ghist>>
GInit == Init /\ ghist = <<>>
GNext ==
  /\ Len(ghist) < MaxLen
  /\ \/ \E t \in Threads :
          \/ \E x \in Xorbs : AddCas(t, x) /\ ghist' = Append(ghist, [t |-> t, op |-> "add", x |-> x])
          \/ FlushWrite(t) /\ ghist' = Append(ghist, [t |-> t, op |-> "fwrite"])
          \/ FlushRegister(t) /\ ghist' = Append(ghist, [t |-> t, op |-> "freg"])
     \/ \E S \in SUBSET Ext : \E sq \in SeqsOf(S) :
          /\ RegisterExt(S, sq)
          /\ ghist' = Append(ghist, [t |-> "env", op |-> "reg", ids |-> [i \in 1..Len(sq) |-> sq[i].id]])
GSpec == GInit /\ [][GNext]_gvars
\* a schedule is complete when nothing is half done
Emit == (Len(ghist) = MaxLen /\ Quiescent) => PrintT(<<"SCN", ToJson([steps |-> ghist])>>)
=============================================================================
