SPECIFICATION GSpec
CONSTANTS
  Chunks <- MCChunks5
  MaxChunks = 2
  MaxU = 3
  MaxC = 6
  Skip = "none"
INVARIANT Emit
CHECK_DEADLOCK FALSE
