--------------------------- MODULE MC_ShardSearch ---------------------------
EXTENDS ShardSearch
KeySet == {0, 1, 2, 3, 9}
SortedSeqs(n) == {a \in [1..n -> KeySet] : \A i \in 1..(n - 1) : a[i] <= a[i + 1]}
MCArrays == UNION {SortedSeqs(n) : n \in 0..6}
=============================================================================
