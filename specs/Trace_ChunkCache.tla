-------------------------- MODULE Trace_ChunkCache --------------------------
(* Trace validation for chunk_cache::DiskCache.  Events come from hooks in    *)
(* disk.rs (emitted under the state lock, or right after a file-system call   *)
(* while the schedule controller lets only one thread run) and from the       *)
(* harness (operation start / return, directory damage, re-open, quiescent    *)
(* directory listings).  The first record describes the content table.        *)
EXTENDS ChunkCache, Json, IOUtils, TLCExt

Rec == ndJsonDeserialize(IOEnv.TRACE)
SetupRec == Rec[1]
NCh == SetupRec.nch
TRanges == {<<a, b>> : a \in 0..NCh, b \in 0..NCh} \cap {r \in (0..NCh) \X (0..NCh) : r[1] < r[2]}
CLen(k) == SetupRec.clen[k]
RECURSIVE SumFromTo(_, _, _)
SumFromTo(f, a, b) == IF a > b THEN 0 ELSE f[a] + SumFromTo(f, a + 1, b)
\* file length of an item: header (count + one offset per chunk boundary) + data
TILen(i) == 4 * ((i[2][2] - i[2][1]) + 2) + SumFromTo(CLen(i[1]), i[2][1] + 1, i[2][2])

VARIABLE l
tvars == <<vars, l>>
TraceInit == Init /\ l = 2      \* record 1 is the setup record

IsEvent(e) == l <= Len(Rec) /\ Rec[l].ev = e /\ l' = l + 1
R == Rec[l]
It(x) == <<x[1], <<x[2], x[3]>>>>
RIt == <<R.k, <<R.s, R.e>>>>
ItemSet(xs) == {It(xs[j]) : j \in 1..Len(xs)}

TrReset == /\ IsEvent("reset")
           /\ tracked' = {} /\ verified' = {} /\ numItems' = 0 /\ totalBytes' = 0
           /\ disk' = [i \in Item |-> "none"] /\ mode' = "open"
           /\ pc' = [t \in Threads |-> "idle"] /\ op' = [t \in Threads |-> NoOp]
           /\ cur' = [t \in Threads |-> NoItem] /\ todel' = [t \in Threads |-> {}]
           /\ res' = [t \in Threads |-> "none"] /\ planted' = FALSE /\ overfull' = FALSE

TrStart == IsEvent("CcStart") /\ Start(R.actor, R.kind, R.k, <<R.s, R.e>>)

TrFind == /\ IsEvent("CcFind")
          /\ IF R.found THEN R.canon /\ Find(R.actor, RIt) ELSE Find(R.actor, NoItem)

TrOpen == /\ IsEvent("CcOpen")
          /\ FsExact => R.outcome = OpenOutcome(R.actor)
          /\ OpenWith(R.actor, R.outcome)

TrRmState == /\ IsEvent("CcRmState")
             /\ cur[R.actor] = RIt
             /\ R.present = (RIt \in tracked)
             /\ R.present \/ (R.keyfound = KeyHasItems(R.k))
             /\ RmState(R.actor)
             /\ numItems' = R.n /\ totalBytes' = R.tb

TrRmFile == IsEvent("CcRmFile") /\ RmFile(R.actor)

TrWrite == IsEvent("CcWrite") /\ R.canon /\ NewItem(R.actor) = RIt /\ PWrite(R.actor)

TrCommit == /\ IsEvent("CcCommit")
            /\ NewItem(R.actor) = RIt
            /\ PCommit(R.actor, ItemSet(R.evicted))
            /\ numItems' = R.n /\ totalBytes' = R.tb

TrDel == IsEvent("CcDel") /\ PDel(R.actor, RIt)

ExpectedIds(k, r) == [j \in 1..(r[2] - r[1]) |-> <<k, r[1] + j - 1>>]
ExpectedOffs(k, r) == [j \in 1..((r[2] - r[1]) + 1) |-> SumFromTo(CLen(k), r[1] + 1, r[1] + j - 1)]

TrRet ==
  /\ IsEvent("CcRet")
  /\ LET t == R.actor IN
     CASE R.res = "hit" ->
            /\ pc[t] = "idle" /\ res[t] \in {"hit_good", "hit_bad"}
            /\ R.ids = ExpectedIds(op[t].k, op[t].r)          \* C12: exactly the bytes that were put
            /\ R.offs = ExpectedOffs(op[t].k, op[t].r)
            /\ UNCHANGED vars
       [] R.res = "miss" -> pc[t] = "idle" /\ res[t] = "miss" /\ UNCHANGED vars
       [] R.res = "ok" -> IF pc[t] = "del" THEN PDone(t) ELSE pc[t] = "idle" /\ res[t] = "ok" /\ UNCHANGED vars
       [] R.res = "err" -> Fail(t)
       [] OTHER -> FALSE

TrClose == IsEvent("CcClose") /\ Close
TrDamage == IsEvent("CcDamage") /\ Damage(RIt, R.kind)
TrPlant == IsEvent("CcPlant") /\ Plant(RIt, R.kind)
TrDelOpen == IsEvent("CcDelOpen") /\ DeleteWhileOpen(RIt)
\* junk files / directories under names that are not items: the environment only; the scan must survive them
TrPlantJunk == /\ IsEvent("CcPlantJunk") /\ mode = "closed" /\ planted' = TRUE
               /\ UNCHANGED <<state, disk, mode, pc, op, cur, todel, res, overfull>>
TrReopen == /\ IsEvent("CcReopen")
            /\ Reopen(ItemSet(R.loaded))
            /\ numItems' = R.n /\ totalBytes' = R.tb
            /\ \A i \in Item : disk'[i] # "none" <=> i \in ItemSet(R.files)   \* what the scan left on disk

\* a quiescent observation by the harness: the real directory listing and the cache's own counters
TrQuiesce ==
  /\ IsEvent("CcQuiesce")
  /\ Quiescent
  /\ ItemSet(R.tracked) = tracked
  /\ R.n = numItems /\ R.tb = totalBytes
  /\ R.n = Cardinality(tracked) /\ R.tb = SumLen(tracked)                 \* C13 accounting
  /\ planted \/ ItemSet(R.files) \subseteq tracked                          \* C13 no orphan files
  /\ R.junk = 0 \/ planted
  \* C13 read-back clause: a get opens the FIRST tracked entry covering the range, so an entry whose file a racing
  \* deletion removed is dropped by the read-back unless another tracked entry with a file covers it (it is then
  \* never opened until that one is evicted); such shadowed phantoms are the only permitted difference
  /\ R.readback => (planted \/ LET F == ItemSet(R.files) IN
                                 /\ \A i \in tracked \ F : \E j \in F : j # i /\ j[1] = i[1]
                                                                  /\ j[2][1] <= i[2][1] /\ i[2][2] <= j[2][2]
                                 /\ R.disk_bytes = SumLen(F))
  /\ UNCHANGED vars

\* C12, item files renamed to another *valid* item name (same length and checksum, another chunk range or key).  This
\* is outside the damage classes the property quantifies over, and outside the item universe of the model: the range is
\* recorded nowhere but in the name, so the format cannot tell such a file from a genuine one and the bytes it serves are
\* not judged.  What is judged is the "never a panic" clause: the re-open and every read return (hit, miss or error).
TrRenamed ==
  /\ IsEvent("CcRenamed")
  /\ R.reopen \in {"ok", "err"}
  /\ \A i \in 1..Len(R.gets) : R.gets[i].res \in {"hit", "miss", "err"}
  /\ UNCHANGED vars

TraceNext == \/ TrReset \/ TrRenamed \/ TrStart \/ TrFind \/ TrOpen \/ TrRmState \/ TrRmFile \/ TrWrite \/ TrCommit
             \/ TrDel \/ TrRet \/ TrPlantJunk \/ TrClose \/ TrDamage \/ TrPlant \/ TrDelOpen \/ TrReopen \/ TrQuiesce
TraceSpec == TraceInit /\ [][TraceNext]_tvars

TraceAccepted ==
  LET d == TLCGet("stats").diameter IN
  IF d = Len(Rec) THEN TRUE
  ELSE Print(<<"TRACE_REJECTED at line", d + 1, "of", Len(Rec), Rec[d + 1]>>, FALSE)

StopAt == l # atoi(IOEnv.STOPAT)
InvsExact == TypeOK /\ AccountingExact /\ NoOrphanFiles /\ CapacityBound /\ HitsGood
InvsFree == TypeOK /\ AccountingExact /\ CapacityBound
=============================================================================
