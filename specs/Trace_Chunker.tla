--------------------------- MODULE Trace_Chunker ---------------------------
(* Trace validation for deduplication::Chunker.  Record 1 is the setup       *)
(* header (min, max, window of the process).  Every run starts with a        *)
(* ChStream event carrying the reference chunking of the stream computed by  *)
(* the harness's independent gear-hash reference, followed by one event per  *)
(* call of the REAL Chunker::next / next_block / finish; each event must be  *)
(* exactly what Chunker!Step yields on the current state.                    *)
EXTENDS Chunker, Json, IOUtils, TLC, TLCExt

Rec == ndJsonDeserialize(IOEnv.TRACE)
SetupRec == Rec[1]

VARIABLE l
tvars == <<vars, l>>
Fresh == pos = 0 /\ cur = 0 /\ buffered = 0 /\ out = <<>> /\ ref = <<>> /\ closed = TRUE
TraceInit == Fresh /\ l = 2          \* record 1 is the setup record

IsEvent(e) == l <= Len(Rec) /\ Rec[l].ev = e /\ l' = l + 1
R == Rec[l]

TrReset == /\ IsEvent("reset")
           /\ pos' = 0 /\ cur' = 0 /\ buffered' = 0 /\ out' = <<>> /\ ref' = <<>> /\ closed' = TRUE

\* a new chunker and a new stream; the header must describe the constants this validation runs with
TrStream == /\ IsEvent("ChStream")
            /\ Fresh
            /\ SetupRec.min = MinChunk /\ SetupRec.max = MaxChunk /\ SetupRec.w = W
            /\ RefOK(R.ref, R.closed)
            /\ SumSeq(R.ref) = R.total
            /\ ref' = R.ref /\ closed' = R.closed
            /\ UNCHANGED <<pos, cur, buffered, out>>

\* Chunker::next (api = "next") or Chunker::finish (api = "finish", n = 0, final)
TrCall == /\ IsEvent("ChCall")
          /\ CallOK(State, R.n, R.final)
          /\ R.api = "finish" => (R.n = 0 /\ R.final)
          /\ LET r == Step(State, R.n, R.final) IN
             /\ R.consumed = r.consumed
             /\ R.some = r.some
             /\ R.emitted = r.emitted
             /\ R.consumed <= R.n                             \* C04, on the observed values
             /\ ~R.some => R.consumed = R.n
             /\ R.some => R.emitted \in 1..MaxChunk
             /\ Set(r.st)

\* Chunker::next_block
TrBlock == /\ IsEvent("ChBlock")
           /\ CallOK(State, R.n, R.final)
           /\ LET b == Block(State, R.n, R.final) IN
              /\ R.emitted = b.emitted
              /\ Set(b.st)

\* end of the stream: everything was returned, the chunks are the reference chunks, their bytes concatenate to the
\* input and their hashes are the chunk hashes of their bytes
TrEnd == /\ IsEvent("ChEnd")
         /\ Done /\ out = ref
         /\ R.lens = ref
         /\ R.bytes_ok /\ R.hash_ok
         /\ UNCHANGED vars
\* a panic or a stuck call of the code under test is an event no action matches

TraceNext == TrReset \/ TrStream \/ TrCall \/ TrBlock \/ TrEnd
TraceSpec == TraceInit /\ [][TraceNext]_tvars

TraceAccepted ==
  LET d == TLCGet("stats").diameter IN
  IF d = Len(Rec) THEN TRUE
  ELSE Print(<<"TRACE_REJECTED at line", d + 1, "of", Len(Rec), Rec[d + 1]>>, FALSE)

StopAt == l # atoi(IOEnv.STOPAT)
=============================================================================
