---------------------------- MODULE ShardManager ----------------------------
(***************************************************************************)
(* ShardFileManager (mdb_shard/src/shard_file_manager.rs) at lock           *)
(* granularity:                                                              *)
(*   current_state   the in-memory shard (RwLock): add_cas_block, flush      *)
(*   shard_bookkeeper (RwLock): shard_collections (one per HMAC key, the     *)
(*                   unkeyed one first), collection_by_key, the per-         *)
(*                   collection table truncated-hash -> location             *)
(* flush = two critical sections: (1) under the state lock write the memory  *)
(* shard to a file and reset the memory shard, (2) under the bookkeeper lock *)
(* register that file.  Between them the records are on disk but not yet     *)
(* queryable.  register_shards(S) is one critical section that registers the *)
(* shards of S one after the other.                                          *)
(* chunk_hash_dedup_query: memory shard first, then every collection in      *)
(* order with the query hash keyed by the collection's key; a table entry    *)
(* that does not verify (another chunk with the same 64-bit prefix) does not *)
(* end the search.                                                           *)
(* Variants (negative controls, each a seeded change that was tried):        *)
(*   "reset_late"    the memory shard is reset in step (2) instead of (1)    *)
(*   "hoisted_index" the index of a new collection is computed once per call *)
(*   "first_verdict" the first collection with a table entry decides         *)
(*   "quadratic_count" the indexed-entry counter adds the whole table size   *)
(*                   at every registration                                   *)
(***************************************************************************)
EXTENDS Naturals, FiniteSets, Sequences, TLC

CONSTANTS Threads, Xorbs, XC,     \* XC[x]: the chunk list of xorb x (content addressing: fixed)
          Ext,                    \* shards that exist elsewhere and may be registered: records [id, key, xorbs]
          P0,                     \* P0[c]: 64-bit prefix of the plain hash of chunk c (collisions allowed)
          IndexCap,               \* CHUNK_INDEX_TABLE_MAX_SIZE: once that many table entries exist, shards are registered unindexed
          Variant

VARIABLES mem,        \* xorbs in the in-memory shard
          added,      \* every xorb ever added (history)
          disk,       \* shard files written by flushes: records [id, key, xorbs]
          pend,       \* per thread: the shard it wrote and still has to register, or None
          cols,       \* sequence of collections [key, shards (seq of shard records), table (set of <<pfx, shard id, x, off>>)]
          byKey,      \* collection_by_key: key -> index into cols
          indexed,    \* total_indexed_chunks: number of table entries, compared with IndexCap before a shard is indexed
          nextId
vars == <<mem, added, disk, pend, cols, byKey, indexed, nextId>>

None == [id |-> 0, key |-> 0, xorbs |-> {}]
ChunksOfX(x) == {XC[x][i] : i \in 1..Len(XC[x])}
Pfx(c, k) == IF k = 0 THEN <<0, P0[c]>> ELSE <<k, c>>         \* keyed hashes of distinct chunks never share a prefix
Locs(s) == {l \in {<<x, i>> : x \in s.xorbs, i \in 1..3} : l[2] <= Len(XC[l[1]])}      \* (xorb, chunk index) pairs of a shard

Init == /\ mem = {} /\ added = {} /\ disk = {} /\ pend = [t \in Threads |-> None]
        /\ cols = <<[key |-> 0, shards |-> <<>>, table |-> {}]>> /\ byKey = (0 :> 1) /\ indexed = 0 /\ nextId = 1

(* ---- registration: one shard, given the bookkeeping state b = [cols, byKey] and the collection count n0 that the
        "hoisted_index" variant computed once at the start of the call ---- *)
Book == [cols |-> cols, byKey |-> byKey, indexed |-> indexed]
Registered(b) == UNION {{b.cols[i].shards[j].id : j \in 1..Len(b.cols[i].shards)} : i \in 1..Len(b.cols)}
TableAfter(tbl, s) ==
  LET ps == {Pfx(XC[l[1]][l[2]], s.key) : l \in Locs(s)}
      pick(p) == CHOOSE l \in Locs(s) : Pfx(XC[l[1]][l[2]], s.key) = p      \* one location per prefix survives
  IN {e \in tbl : e[1] \notin ps} \cup {<<p, s.id, pick(p)[1], pick(p)[2]>> : p \in ps}
RegOne(b, s, n0) ==
  IF s.id \in Registered(b) THEN b
  ELSE LET n == IF Variant = "hoisted_index" THEN n0 ELSE Len(b.cols)
           idx == IF s.key \in DOMAIN b.byKey THEN b.byKey[s.key] ELSE n + 1
           bk == IF s.key \in DOMAIN b.byKey THEN b.byKey ELSE (s.key :> idx) @@ b.byKey
           cs == IF idx = n + 1 /\ idx > Len(b.cols) THEN Append(b.cols, [key |-> s.key, shards |-> <<>>, table |-> {}])
                 ELSE b.cols
           upd == b.indexed < IndexCap                       \* the cap is looked at once per shard, before indexing it
           tbl == IF upd THEN TableAfter(cs[idx].table, s) ELSE cs[idx].table
           grown == Cardinality(tbl) - Cardinality(cs[idx].table)
       IN [cols |-> [cs EXCEPT ![idx].shards = Append(@, s), ![idx].table = tbl], byKey |-> bk,
           indexed |-> b.indexed + (IF Variant = "quadratic_count" THEN Cardinality(tbl) ELSE grown)]
RECURSIVE RegSeq(_, _, _)
RegSeq(b, sq, n0) == IF sq = <<>> THEN b ELSE RegSeq(RegOne(b, Head(sq), n0), Tail(sq), n0)

(* ---- actions ---- *)
AddCas(t, x) ==
  /\ pend[t] = None /\ x \notin added
  /\ mem' = mem \cup {x} /\ added' = added \cup {x}
  /\ UNCHANGED <<disk, pend, cols, byKey, indexed, nextId>>

FlushWrite(t) ==
  /\ pend[t] = None /\ mem # {}
  /\ LET s == [id |-> nextId, key |-> 0, xorbs |-> mem] IN
     /\ disk' = disk \cup {s} /\ pend' = [pend EXCEPT ![t] = s] /\ nextId' = nextId + 1
  /\ mem' = IF Variant = "reset_late" THEN mem ELSE {}
  /\ UNCHANGED <<added, cols, byKey, indexed>>

FlushRegister(t) ==
  /\ pend[t] # None
  /\ LET b == RegSeq(Book, <<pend[t]>>, Len(cols)) IN cols' = b.cols /\ byKey' = b.byKey /\ indexed' = b.indexed
  /\ pend' = [pend EXCEPT ![t] = None]
  /\ mem' = IF Variant = "reset_late" THEN {} ELSE mem
  /\ UNCHANGED <<added, disk, nextId>>

(* register_shards on shards found elsewhere (keyed exports, the shard cache): any non-empty set, in any order *)
SeqsOf(S) == {sq \in [1..Cardinality(S) -> S] : \A i, j \in 1..Cardinality(S) : i # j => sq[i] # sq[j]}
RegisterExt(S, sq) ==
  /\ S # {} /\ S \subseteq Ext /\ sq \in SeqsOf(S)
  /\ \A s \in S : s.id \notin Registered(Book)
  /\ LET b == RegSeq(Book, sq, Len(cols)) IN cols' = b.cols /\ byKey' = b.byKey /\ indexed' = b.indexed
  /\ UNCHANGED <<mem, added, disk, pend, nextId>>

Next == \/ \E t \in Threads : (\E x \in Xorbs : AddCas(t, x)) \/ FlushWrite(t) \/ FlushRegister(t)
        \/ \E S \in SUBSET Ext : \E sq \in SeqsOf(S) : RegisterExt(S, sq)
Spec == Init /\ [][Next]_vars

(* ---- the dedup query for one chunk, as a function of the state ---- *)
NotFound == [found |-> FALSE, x |-> 0, off |-> 0, col |-> 0]
MemAns(c) == IF \E x \in mem : c \in ChunksOfX(x)
             THEN LET x == CHOOSE x \in mem : c \in ChunksOfX(x)
                      i == CHOOSE i \in 1..Len(XC[x]) : XC[x][i] = c
                  IN [found |-> TRUE, x |-> x, off |-> i, col |-> 0]
             ELSE NotFound
RECURSIVE ColAns(_, _)
ColAns(c, i) ==
  IF i > Len(cols) THEN NotFound
  ELSE LET es == {e \in cols[i].table : e[1] = Pfx(c, cols[i].key)} IN
       IF es = {} THEN ColAns(c, i + 1)
       ELSE LET e == CHOOSE e \in es : TRUE IN
            IF XC[e[3]][e[4]] = c THEN [found |-> TRUE, x |-> e[3], off |-> e[4], col |-> i]
            ELSE IF Variant = "first_verdict" THEN NotFound ELSE ColAns(c, i + 1)
Query(c) == IF MemAns(c).found THEN MemAns(c) ELSE ColAns(c, 1)

\* held by the memory shard or by a keyed collection (whose table cannot have been overwritten by a colliding prefix)
MustFind(c) == \/ MemAns(c).found
               \/ \E i \in 1..Len(cols) : /\ cols[i].key # 0
                                          /\ \E e \in cols[i].table : e[1] = Pfx(c, cols[i].key) /\ XC[e[3]][e[4]] = c

\* some place a query looks at holds the chunk: the memory shard or a registered shard
Held(c) == \/ \E x \in mem : c \in ChunksOfX(x)
           \/ \E i \in 1..Len(cols) : \E j \in 1..Len(cols[i].shards) : \E x \in cols[i].shards[j].xorbs : c \in ChunksOfX(x)

(* ---- properties ---- *)
AllShards == disk \cup Ext
ShardById(id) == CHOOSE s \in AllShards : s.id = id
ColsKeyed == /\ \A i \in 1..Len(cols) : \A j \in 1..Len(cols[i].shards) : cols[i].shards[j].key = cols[i].key
             /\ \A i, j \in 1..Len(cols) : cols[i].key = cols[j].key => i = j
             /\ \A k \in DOMAIN byKey : byKey[k] \in 1..Len(cols) /\ cols[byKey[k]].key = k
TableSound == \A i \in 1..Len(cols) : \A e \in cols[i].table :
                /\ \E j \in 1..Len(cols[i].shards) : cols[i].shards[j].id = e[2] /\ e[3] \in cols[i].shards[j].xorbs
                /\ e[4] \in 1..Len(XC[e[3]]) /\ Pfx(XC[e[3]][e[4]], cols[i].key) = e[1]
(* C05: whatever is answered is true *)
Truthful == \A x \in Xorbs : \A c \in ChunksOfX(x) : Query(c).found => XC[Query(c).x][Query(c).off] = c
(* C11: a record that was added is never lost: it is in the memory shard or in a shard file *)
NoLoss == added \subseteq (mem \cup UNION {s.xorbs : s \in disk})
(* ... and once no flush is half done it is found again (unless plain prefixes collide: one location per prefix) *)
Quiescent == \A t \in Threads : pend[t] = None
UniqueP0(c) == \A x \in Xorbs : \A d \in ChunksOfX(x) : P0[d] = P0[c] => d = c
FoundAgain == Quiescent => \A x \in added : \A c \in ChunksOfX(x) : UniqueP0(c) => Query(c).found
(* C18: every chunk of a registered keyed shard is found with its unkeyed hash, whatever else is registered *)
KeyedFound == \A i \in 1..Len(cols) : cols[i].key # 0 =>
                 \A j \in 1..Len(cols[i].shards) : \A x \in cols[i].shards[j].xorbs : \A c \in ChunksOfX(x) : Query(c).found
(* the counter compared with the cap is the number of table entries *)
RECURSIVE TableSize(_)
TableSize(i) == IF i = 0 THEN 0 ELSE Cardinality(cols[i].table) + TableSize(i - 1)
IndexedExact == indexed = TableSize(Len(cols))
\* (FoundAgain and KeyedFound speak about shards that were indexed: they are checked with a cap that is never reached)
Invs == ColsKeyed /\ TableSound /\ Truthful /\ NoLoss /\ IndexedExact /\ (indexed < IndexCap => FoundAgain /\ KeyedFound)
=============================================================================
