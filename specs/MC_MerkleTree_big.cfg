SPECIFICATION MCSpec
CONSTANTS
  MinK = 2
  MaxK = 8
  SliceOff = 0
  MaxLeaves = 12
INVARIANT MCInvs
CHECK_DEADLOCK FALSE
