SPECIFICATION MCSpec
CONSTANTS
  MinK = 2
  MaxK = 8
  SliceOff = 0
  MaxLeaves = 13
INVARIANT MCInvs
CHECK_DEADLOCK FALSE
