---------------------------- MODULE Trace_ParFor ----------------------------
(* Recorded calls of parutils::tokio_par_for_each / run_tokio_parallel (harness driver `parfor`: the closure logs its   *)
(* start and end under one mutex, the caller logs the result) against ParForObs.  One PfCall event opens a call         *)
(* (items, failing items, worker count - the latter is not judged here: the concurrency bound is an invariant of the    *)
(* algorithm model ParFor.tla, not something C01 / C16 depend on).                                                      *)
EXTENDS ParForObs, Json, IOUtils, TLC, Sequences
Rec == ndJsonDeserialize(IOEnv.TRACE)
VARIABLE l
tvars == <<ovars, l>>
R == Rec[l]
IsEvent(e) == l <= Len(Rec) /\ R.ev = e /\ l' = l + 1
ToSet(sq) == {sq[i] : i \in 1..Len(sq)}

TraceInit == l = 2 /\ n = 0 /\ fails = {} /\ started = {} /\ running = {} /\ done = {} /\ failed = {} /\ ret = "ok"
TrReset == IsEvent("reset") /\ UNCHANGED ovars
TrCall == /\ IsEvent("PfCall") /\ ret # "none"
          /\ n' = R.n /\ fails' = ToSet(R.fails)
          /\ started' = {} /\ running' = {} /\ done' = {} /\ failed' = {} /\ ret' = "none"
TrStart == IsEvent("PfStart") /\ OStart(R.i)
TrEnd == IsEvent("PfEnd") /\ OEnd(R.i) /\ R.ok = (R.i \notin fails)
\* C16: a failed invocation is reported; C01: on success every item was processed and out[i] is item i's value
TrReturn == /\ IsEvent("PfReturn") /\ OReturn /\ ret' = R.res
            /\ R.res = "ok" => R.out = R.expect
TraceNext == TrReset \/ TrCall \/ TrStart \/ TrEnd \/ TrReturn
TraceSpec == TraceInit /\ [][TraceNext]_tvars
TraceAccepted ==
  LET d == TLCGet("stats").diameter IN
  IF d = Len(Rec) THEN TRUE
  ELSE Print(<<"TRACE_REJECTED at line", d + 1, "of", Len(Rec), Rec[d + 1]>>, FALSE)
StopAt == l # atoi(IOEnv.STOPAT)
=============================================================================
