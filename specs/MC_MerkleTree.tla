---------------------------- MODULE MC_MerkleTree ----------------------------
(* Exhaustive instance: every leaf list of 1..MaxLeaves leaves over two leaf  *)
(* kinds (hash 1: length 0, cut bit set; hash 2: length 5, cut bit clear), so *)
(* every cut-bit pattern occurs, with heavily repeated hashes and a zero      *)
(* length; every choice of the parents' cut bits.                             *)
EXTENDS MerkleTree, TLC

CONSTANTS MaxLeaves

K1 == [h |-> 1, n |-> 0, b |-> TRUE]
K2 == [h |-> 2, n |-> 5, b |-> FALSE]
LeafLists == UNION {[1..k -> {K1, K2}] : k \in 1..MaxLeaves}

MCInit == /\ leaves \in LeafLists
          /\ level = [i \in 1..Len(leaves) |-> LeafNode(leaves[i])]
          /\ depth = 0
MCSpec == MCInit /\ [][Merge]_vars

\* a single node is reached (a single leaf is its own root), after at most Len(leaves) - 1 levels
Terminates == depth <= Len(leaves) - 1 \/ Len(leaves) = 1
MCInvs == Invs /\ Terminates
=============================================================================
