---------------------------- MODULE Reconstruct ----------------------------
(* C17  File reconstruction (cas_client::RemoteClient::get_file and the two   *)
(* writers reconstruct_file_to_writer / reconstruct_file_to_writer_parallel,  *)
(* get_one_term, download_range, the download singleflight, chunk cache fill).*)
(*                                                                            *)
(* Data.  A xorb is a sequence of chunks [id, len, ser]: `id` is the interned *)
(* content id of the chunk (chunk contents are pairwise distinct, so a byte   *)
(* of the output is identified by <<id, offset>>), `len` its unpacked length, *)
(* `ser` its length in the serialized xorb (only used for url_range).  A term *)
(* is <<x, lo, hi>> (chunks lo..hi-1, 0-based, of xorb x); a file is a        *)
(* sequence of terms.  Byte strings are never represented: data is a sequence *)
(* of PIECES <<id, off, n>> (n bytes of chunk id starting at off; id 0 = a    *)
(* hole or bytes that match no chunk).  The byte-level reading of pieces      *)
(* (Bytes) is used by the model checker to state the property in its plain    *)
(* form: output bytes = SubSeq(file bytes, s+1, e).                           *)
(*                                                                            *)
(* Steps.  One action per observable step of the code: Call (get_file), the   *)
(* CAS server deriving the plan (ServePlan, checked by PlanOK), per term      *)
(* either a cache hit (Hit) or download (Fetched: singleflight join/create,   *)
(* cache fill) followed by trim + length check (Fill); the sequential writer  *)
(* (SeqWrite per term in order) or the parallel writer (ParPlan per term in   *)
(* order, ParWrite per term in any order); Finish (the returned length).      *)
(* Results of get_one_term are kept as a bag per term VALUE: two equal terms  *)
(* of a plan are interchangeable, which is also what lets events of           *)
(* concurrent, anonymous term tasks be bound during trace validation.         *)
EXTENDS Integers, Sequences, FiniteSets, Bags, SequencesExt, TLC

CONSTANTS Bug,       \* "none", or the name of a re-introduced defect (negative controls)
          MaxReqs    \* number of get_file calls per scenario (1 when model checking)

VARIABLES
  xorbs, file,        \* scenario: xorbs[x] = sequence of chunks, file = sequence of terms
  cacheOn, cache,     \* chunk cache: set of [x, lo, hi, src]; src = first chunk whose bytes are really stored
  phase, nreq,        \* "boot" | "idle" | "called" | "run" | "done" | "failed"
  writer, shared,     \* "seq" | "par";  shared = one URL per xorb (fetch ranges differ only in url_range)
  req, plan,          \* [s, e, whole];  [first, n, off, fetch]
  started, raws, gots,\* bags: term values whose fetch began; <<v, f, r, putok>> downloaded, not yet trimmed; <<v, d>> results
  flights,            \* downloads in flight: [key, r]
  k, remaining, pos,  \* main loop: terms consumed (seq) / planned (par); remaining_len; bytes_written
  tplan, wrote, total,\* parallel writer: per planned term <<start, end, file_offset>>; written terms; total_written
  wlog,               \* writes in the order they happened: <<file offset, pieces>>
  reported, served

scen == <<xorbs, file, cacheOn>>
rvars == <<writer, shared, req, plan, started, raws, gots, flights, k, remaining, pos, tplan, wrote, total, wlog,
           reported, served>>
vars == <<scen, cache, phase, nreq, rvars>>

Min2(a, b) == IF a < b THEN a ELSE b
Max2(a, b) == IF a > b THEN a ELSE b

-----------------------------------------------------------------------------
(* xorbs, terms, data *)
NX == Len(xorbs)
NCh(x) == Len(xorbs[x])
RECURSIVE SumLen(_, _, _), SumSer(_, _, _)
SumLen(x, a, b) == IF a >= b THEN 0 ELSE xorbs[x][a + 1].len + SumLen(x, a + 1, b)   \* unpacked bytes of chunks a..b-1
SumSer(x, a, b) == IF a >= b THEN 0 ELSE xorbs[x][a + 1].ser + SumSer(x, a + 1, b)   \* serialized bytes
Ranges(x) == {r \in (0..NCh(x)) \X (0..NCh(x)) : r[1] < r[2]}
UrlRange(x, f) == <<SumSer(x, 0, f[1]), SumSer(x, 0, f[2]) - 1>>     \* inclusive, as in the HTTP Range header
TLenOf(v) == SumLen(v[1], v[2], v[3])                               \* unpacked_length of a term
\* data = a chunk range d = <<x, a, b>> of some xorb (what a download / cache read / trim yields)
DLen(d) == SumLen(d[1], d[2], d[3])
DPieces(d) == [j \in 1..(d[3] - d[2]) |-> <<xorbs[d[1]][d[2] + j].id, 0, xorbs[d[1]][d[2] + j].len>>]

(* pieces *)
RECURSIVE PLenFrom(_, _)
PLenFrom(ps, i) == IF i > Len(ps) THEN 0 ELSE ps[i][3] + PLenFrom(ps, i + 1)
PLen(ps) == PLenFrom(ps, 1)
\* the bytes [a, b) of ps (positions relative to the start of ps[i])
RECURSIVE PSliceFrom(_, _, _, _)
PSliceFrom(ps, i, a, b) ==
  IF i > Len(ps) \/ b <= 0 THEN <<>>
  ELSE LET p == ps[i]
           n == p[3]
       IN IF a >= n THEN PSliceFrom(ps, i + 1, a - n, b - n)
          ELSE LET lo == Max2(a, 0)
                   hi == Min2(b, n)
               IN <<<<p[1], p[2] + lo, hi - lo>>>> \o PSliceFrom(ps, i + 1, a - n, b - n)
PSlice(ps, a, b) == PSliceFrom(ps, 1, a, b)
\* canonical form: maximal runs (equal canonical forms <=> equal byte strings)
RECURSIVE NormFrom(_, _, _)
NormFrom(ps, i, acc) ==
  IF i > Len(ps) THEN acc
  ELSE LET p == ps[i]
           m == Len(acc)
       IN IF p[3] = 0 THEN NormFrom(ps, i + 1, acc)
          ELSE IF m > 0 /\ p[1] # 0 /\ acc[m][1] = p[1] /\ acc[m][2] + acc[m][3] = p[2]
               THEN NormFrom(ps, i + 1, [acc EXCEPT ![m] = <<p[1], @[2], @[3] + p[3]>>])
               ELSE NormFrom(ps, i + 1, Append(acc, p))
Norm(ps) == NormFrom(ps, 1, <<>>)
\* byte-level reading (model checking only)
RECURSIVE BytesFrom(_, _)
BytesFrom(ps, i) == IF i > Len(ps) THEN <<>>
                    ELSE [j \in 1..ps[i][3] |-> <<ps[i][1], ps[i][2] + j - 1>>] \o BytesFrom(ps, i + 1)
Bytes(ps) == BytesFrom(ps, 1)

(* file layout *)
RECURSIVE TStart(_)
TStart(j) == IF j = 1 THEN 0 ELSE TStart(j - 1) + TLenOf(file[j - 1])     \* byte offset of term j in the file
FileLen == TStart(Len(file) + 1)
RECURSIVE FilePiecesFrom(_)
FilePiecesFrom(j) == IF j > Len(file) THEN <<>> ELSE DPieces(file[j]) \o FilePiecesFrom(j + 1)
FilePieces == FilePiecesFrom(1)

(* THE PROPERTY: what a request for [s, e) must produce *)
ExpectedPieces == PSlice(FilePieces, req.s, req.e)
ExpectedBytes == SubSeq(Bytes(FilePieces), req.s + 1, req.e)

-----------------------------------------------------------------------------
(* the plan, as the CAS server derives it *)
NoPlan == [first |-> 0, n |-> 0, off |-> 0, fetch |-> <<>>]
PTerm(j) == file[plan.first + j - 1]                      \* j-th term of the plan
FCovers(f, v) == f[1] <= v[2] /\ v[3] <= f[2]
PlanOK(p, s, e) ==
  /\ p.first \in 1..Len(file) /\ p.n >= 1 /\ p.first + p.n - 1 <= Len(file)
  /\ \A j \in 1..Len(file) :
       (TStart(j) < e /\ TStart(j) + TLenOf(file[j]) > s) <=> (j >= p.first /\ j < p.first + p.n)
  /\ p.off = s - TStart(p.first)
  /\ Len(p.fetch) = NX
  /\ \A x \in 1..NX : \A i \in 1..Len(p.fetch[x]) :
       LET f == p.fetch[x][i]
       IN /\ f \in Ranges(x)
          /\ \E j \in 1..p.n : file[p.first + j - 1][1] = x /\ FCovers(f, file[p.first + j - 1])
  /\ \A j \in 1..p.n : LET v == file[p.first + j - 1]
                       IN \E i \in 1..Len(p.fetch[v[1]]) : FCovers(p.fetch[v[1]][i], v)

\* get_one_term: linear scan for the first fetch info containing the term's range
FindFetch(v) == LET fl == plan.fetch[v[1]]
                    i == CHOOSE i \in 1..Len(fl) : FCovers(fl[i], v) /\ \A j \in 1..(i - 1) : ~FCovers(fl[j], v)
                IN fl[i]
\* F7: the flight was keyed by the URL alone; with one URL per xorb that is the xorb
FlightKey(x, f) == IF Bug = "flight_url_only" /\ shared THEN <<x>> ELSE <<x, f>>
TrackFlights == Bug = "flight_url_only"   \* with the range in the key a joined flight carries the same range

TotalLen == IF req.whole THEN FoldLeft(LAMBDA acc, j : acc + TLenOf(PTerm(j)), 0, [j \in 1..plan.n |-> j])
            ELSE req.e - req.s

One(e) == SetToBag({e})
Eligible(v) == Cardinality({j \in 1..(IF writer = "seq" THEN plan.n ELSE k) : PTerm(j) = v})
CanStart(v) == CopiesIn(v, started) < Eligible(v)
Values == {PTerm(j) : j \in 1..plan.n}

-----------------------------------------------------------------------------
(* actions *)
Init ==
  /\ xorbs = <<>> /\ file = <<>> /\ cacheOn = FALSE /\ cache = {}
  /\ phase = "boot" /\ nreq = 0
  /\ writer = "seq" /\ shared = FALSE /\ req = [s |-> 0, e |-> 0, whole |-> FALSE] /\ plan = NoPlan
  /\ started = EmptyBag /\ raws = EmptyBag /\ gots = EmptyBag /\ flights = {}
  /\ k = 0 /\ remaining = 0 /\ pos = 0 /\ tplan = <<>> /\ wrote = {} /\ total = 0 /\ wlog = <<>>
  /\ reported = -1 /\ served = 0

Setup(xs, f, con, c0) ==
  /\ phase = "boot"
  /\ xorbs' = xs /\ file' = f /\ cacheOn' = con /\ cache' = c0
  /\ phase' = "idle"
  /\ UNCHANGED <<nreq, rvars>>

Call(s, e, whole, w) ==
  /\ phase \in {"idle", "done"} /\ nreq < MaxReqs
  /\ 0 <= s /\ s < e /\ e <= FileLen /\ (whole => s = 0 /\ e = FileLen)
  /\ w \in {"seq", "par"}
  /\ req' = [s |-> s, e |-> e, whole |-> whole] /\ writer' = w
  /\ phase' = "called" /\ nreq' = nreq + 1
  /\ plan' = NoPlan /\ shared' = FALSE
  /\ started' = EmptyBag /\ raws' = EmptyBag /\ gots' = EmptyBag /\ flights' = {}
  /\ k' = 0 /\ remaining' = 0 /\ pos' = 0 /\ tplan' = <<>> /\ wrote' = {} /\ total' = 0 /\ wlog' = <<>>
  /\ reported' = -1 /\ served' = 0
  /\ UNCHANGED <<scen, cache>>

\* GET /reconstruction/<file> (Range: s-(e-1) unless the whole file is asked for)
ServePlan(p, sh) ==
  /\ phase = "called"
  /\ PlanOK(p, req.s, req.e) = TRUE     \* "= TRUE": evaluated as a value (TLC would branch on every \E witness otherwise)
  /\ plan' = p /\ shared' = sh /\ phase' = "run"
  /\ remaining' = (IF req.whole THEN FoldLeft(LAMBDA acc, j : acc + TLenOf(file[p.first + j - 1]), 0, [j \in 1..p.n |-> j])
                   ELSE req.e - req.s)
  /\ UNCHANGED <<scen, cache, nreq, writer, req, started, raws, gots, flights, k, pos, tplan, wrote, total, wlog,
                 reported, served>>

Fail == /\ phase' = "failed"
        /\ UNCHANGED <<scen, cache, nreq, writer, shared, req, plan, flights, k, remaining, pos, tplan, wrote, total,
                       wlog, reported, served>>

\* get_one_term, cache branch: the cache answers with the requested sub-range of a covering item (C12), no length check
HitData(v, c) == <<v[1], c.src + (v[2] - c.lo), c.src + (v[3] - c.lo)>>
Hit(v, c) ==
  /\ phase = "run" /\ cacheOn /\ v \in Values /\ CanStart(v)
  /\ c \in cache /\ c.x = v[1] /\ c.lo <= v[2] /\ v[3] <= c.hi
  /\ started' = started (+) One(v)
  /\ gots' = gots (+) One(<<v, HitData(v, c)>>)
  /\ UNCHANGED <<scen, cache, phase, nreq, writer, shared, req, plan, raws, flights, k, remaining, pos, tplan, wrote,
                 total, wlog, reported, served>>

\* DiskCache::put accepts (range, offsets, data) iff the chunk count fits and an already cached covering item agrees
PutValid(x, f, r) ==
  /\ r[2] - r[1] = f[2] - f[1]
  /\ \A c \in cache : (c.x = x /\ c.lo <= f[1] /\ f[2] <= c.hi) => c.src + (f[1] - c.lo) = r[1]

\* get_one_term, download branch: the flight for the fetch info's key is joined or created; r = the chunk range whose
\* bytes come back; then the whole fetched range is put into the cache under the fetch info's range
Fetched(v, r) ==
  /\ phase = "run" /\ v \in Values /\ CanStart(v)
  /\ LET x == v[1]
         f == FindFetch(v)
         key == FlightKey(x, f)
         putok == ~cacheOn \/ PutValid(x, f, r)
     IN /\ IF TrackFlights
           THEN \/ \E fl \in flights : fl.key = key /\ r = fl.r /\ flights' = flights
                \/ (\A fl \in flights : fl.key # key) /\ r = f /\ flights' = flights \cup {[key |-> key, r |-> f]}
           ELSE r = f /\ flights' = flights
        /\ raws' = raws (+) One(<<v, f, r, putok>>)
        /\ cache' = IF cacheOn /\ putok THEN cache \cup {[x |-> x, lo |-> f[1], hi |-> f[2], src |-> r[1]]} ELSE cache
  /\ started' = started (+) One(v)
  /\ UNCHANGED <<scen, phase, nreq, writer, shared, req, plan, gots, k, remaining, pos, tplan, wrote, total, wlog,
                 reported, served>>

FlightEnd(fl) ==
  /\ phase = "run" /\ fl \in flights /\ flights' = flights \ {fl}
  /\ UNCHANGED <<scen, cache, phase, nreq, writer, shared, req, plan, started, raws, gots, k, remaining, pos, tplan,
                 wrote, total, wlog, reported, served>>

\* trim to the term by the chunk offsets of what was downloaded, then the unpacked_length check
Trimmed(rw) ==
  LET v == rw[1]
      f == rw[2]
      r == rw[3]
      si == IF Bug = "trim_rel_term" THEN 0 ELSE v[2] - f[1]
      ei == IF Bug = "trim_rel_term" THEN v[3] - v[2] ELSE v[3] - f[1]
  IN IF <<v[2], v[3]>> = f THEN <<v[1], r[1], r[2]>> ELSE <<v[1], r[1] + si, r[1] + ei>>
FillFails(rw) ==
  LET v == rw[1]
      f == rw[2]
      r == rw[3]
      d == Trimmed(rw)
  IN \/ ~rw[4]                                                 \* cache.put returned InvalidArguments
     \/ (<<v[2], v[3]>> # f /\ d[3] > r[2])                    \* index past chunk_byte_indices: panic
     \/ DLen(d) # TLenOf(v)                                    \* "result term data length .. did not match"
Fill(rw) ==
  /\ phase = "run" /\ BagIn(rw, raws)
  /\ raws' = raws (-) One(rw)
  /\ IF FillFails(rw)
     THEN Fail /\ UNCHANGED <<started, gots>>
     ELSE /\ gots' = gots (+) One(<<rw[1], Trimmed(rw)>>)
          /\ UNCHANGED <<scen, cache, phase, nreq, writer, shared, req, plan, started, flights, k, remaining, pos,
                         tplan, wrote, total, wlog, reported, served>>

(* sequential writer: results are consumed in term order *)
SeqStart == IF k = 0 \/ Bug = "offset_every_term" THEN plan.off ELSE 0
SeqEnd(d) == Min2(remaining + SeqStart, DLen(d))
SeqWrite(d) ==
  /\ phase = "run" /\ writer = "seq" /\ k < plan.n
  /\ BagIn(<<PTerm(k + 1), d>>, gots)
  /\ gots' = gots (-) One(<<PTerm(k + 1), d>>)
  /\ LET st == SeqStart
         en == SeqEnd(d)
     IN IF st > en
        THEN Fail /\ UNCHANGED <<started, raws>>        \* slice index panic
        ELSE /\ wlog' = Append(wlog, <<pos, PSlice(DPieces(d), st, en)>>)
             /\ pos' = pos + (en - st)
             /\ remaining' = IF Bug = "remaining_kept" THEN remaining ELSE remaining - (en - st)
             /\ k' = k + 1
             /\ UNCHANGED <<scen, cache, phase, nreq, writer, shared, req, plan, started, raws, flights, tplan, wrote,
                            total, reported, served>>

(* parallel writer: the main task plans every term in order and spawns it; spawned terms write in any order *)
ParStart == IF k = 0 \/ Bug = "offset_every_term" THEN plan.off ELSE 0
ParEnd == Min2(ParStart + remaining, TLenOf(PTerm(k + 1)))
ParOff == IF Bug = "fileoff_first" THEN pos + plan.off ELSE pos
ParPlan ==
  /\ phase = "run" /\ writer = "par" /\ k < plan.n
  /\ IF ParStart > ParEnd
     THEN Fail /\ UNCHANGED <<started, raws, gots>>      \* usize underflow
     ELSE /\ tplan' = Append(tplan, <<ParStart, ParEnd, ParOff>>)
          /\ pos' = pos + (ParEnd - ParStart)
          /\ remaining' = IF Bug = "remaining_kept" THEN remaining ELSE remaining - (ParEnd - ParStart)
          /\ k' = k + 1
          /\ UNCHANGED <<scen, cache, phase, nreq, writer, shared, req, plan, started, raws, gots, flights, wrote,
                         total, wlog, reported, served>>

ParWrite(t, d) ==
  /\ phase = "run" /\ writer = "par" /\ t \in 1..k /\ t \notin wrote
  /\ BagIn(<<PTerm(t), d>>, gots)
  /\ gots' = gots (-) One(<<PTerm(t), d>>)
  /\ IF tplan[t][2] > DLen(d)
     THEN Fail /\ UNCHANGED <<started, raws>>            \* "term range received invalid"
     ELSE /\ wlog' = Append(wlog, <<tplan[t][3], PSlice(DPieces(d), tplan[t][1], tplan[t][2])>>)
          /\ wrote' = wrote \cup {t}
          /\ total' = total + (tplan[t][2] - tplan[t][1])
          /\ UNCHANGED <<scen, cache, phase, nreq, writer, shared, req, plan, started, raws, flights, k, remaining,
                         pos, tplan, reported, served>>

\* the value get_file returns
Finish ==
  /\ phase = "run" /\ k = plan.n /\ (writer = "par" => wrote = 1..plan.n)
  /\ reported' = IF writer = "seq" THEN TotalLen ELSE total
  /\ phase' = "done"
  /\ UNCHANGED <<scen, cache, nreq, writer, shared, req, plan, started, raws, gots, flights, k, remaining, pos, tplan,
                 wrote, total, wlog, served>>

\* the blob store answers GET url, Range: bytes=a-b  (trace validation only: one line per request served)
Serve(x, a, b) ==
  /\ phase = "run" /\ x \in 1..NX
  /\ (\E i \in 1..Len(plan.fetch[x]) : UrlRange(x, plan.fetch[x][i]) = <<a, b>>) = TRUE
  /\ served' = served + 1
  /\ UNCHANGED <<scen, cache, phase, nreq, writer, shared, req, plan, started, raws, gots, flights, k, remaining, pos,
                 tplan, wrote, total, wlog, reported>>

Idle == (phase = "failed" \/ (phase = "done" /\ nreq = MaxReqs)) /\ UNCHANGED vars

-----------------------------------------------------------------------------
(* the output file *)
\* pieces: writes ordered by offset must tile [0, length) exactly
RECURSIVE CatFrom(_, _, _, _)
CatFrom(ws, i, at, acc) ==
  IF i > Len(ws) THEN acc
  ELSE IF ws[i][1] # at THEN <<<<0, 0, 1>>>>
  ELSE CatFrom(ws, i + 1, at + PLen(ws[i][2]), acc \o ws[i][2])
OutPieces == CatFrom(SortSeq(wlog, LAMBDA a, b : a[1] < b[1]), 1, 0, <<>>)
\* bytes: the writes applied in order to an initially empty file (gaps read as holes)
ApplyWrite(arr, off, bs) ==
  [p \in 1..Max2(Len(arr), off + Len(bs)) |->
     IF p > off /\ p <= off + Len(bs) THEN bs[p - off] ELSE IF p <= Len(arr) THEN arr[p] ELSE <<0, 0>>]
OutBytes == FoldLeft(LAMBDA arr, w : ApplyWrite(arr, w[1], Bytes(w[2])), <<>>, wlog)

(* invariants *)
NoFailure == phase # "failed"
CorrectPieces == phase = "done" => /\ Norm(OutPieces) = Norm(ExpectedPieces)
                                   /\ reported = req.e - req.s
CorrectBytes == phase = "done" => /\ OutBytes = ExpectedBytes
                                  /\ reported = Len(ExpectedBytes)
\* the two readings of "expected" agree (ties the piece arithmetic used on large traces to the plain statement)
PiecesSound == phase = "called" => Bytes(ExpectedPieces) = ExpectedBytes
CacheTruthful == \A c \in cache : c.src = c.lo       \* every cached range holds its own bytes
=============================================================================
