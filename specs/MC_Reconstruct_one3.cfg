SPECIFICATION MCSpec
CONSTANTS
  Bug = "none"
  MaxReqs = 1
  MaxTerms = 3
  MaxFetch = 2
  Writers = {"seq", "par"}
  CacheModes = {"cold"}
  SharedOpts = {FALSE}
  ShapeSet <- ShapesOne3
INVARIANT Invs
CHECK_DEADLOCK TRUE
