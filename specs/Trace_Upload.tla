---------------------------- MODULE Trace_Upload ----------------------------
(* Trace validation for the upload pipeline: events from the observing       *)
(* client (puts, shard uploads), the harness (session API calls and their     *)
(* results, downloads, store and cache inspections, reference hashes) and the *)
(* decision hooks of the deduper must be a behaviour of UploadObs.            *)
EXTENDS UploadObs, Json, IOUtils, TLCExt

Rec == ndJsonDeserialize(IOEnv.TRACE)

VARIABLE l
tvars == <<vars, l>>
TraceInit == Init /\ l = 2          \* record 1 is the setup record

IsEvent(e) == l <= Len(Rec) /\ Rec[l].ev = e /\ l' = l + 1
R == Rec[l]

TrReset == IsEvent("reset") /\
           /\ clen' = <<>> /\ content' = <<>> /\ fsess' = <<>> /\ salt' = <<>> /\ status' = <<>> /\ failed' = <<>>
           /\ xorbs' = <<>> /\ stored' = {} /\ sessPut' = <<>> /\ shardOpen' = <<>> /\ recs' = <<>>
           /\ finished' = <<>> /\ dec' = <<>> /\ up' = <<>> /\ cache' = {}
           /\ ptrs' = ptrs        \* C03: pointers are compared across all runs of a file (ids are process-wide)

TrSessionStart == IsEvent("UpSessionStart") /\ SessionStart(R.sess, R.salt)
TrFileStart == IsEvent("UpFileStart") /\ FileStart(R.sess, R.f, R.content)
TrDecision == IsEvent("DdDecision") /\
              Decision(R.actor, R.kind, R.idx, R.n, R.bytes,
                       IF R.kind = "new" THEN [local |-> FALSE, x |-> 0, lo |-> 0, hi |-> 0]
                       ELSE [local |-> R.local, x |-> R.x, lo |-> R.lo, hi |-> R.hi])
TrCut == IsEvent("DdCut") /\ Cut(R.actor)
TrCompletion == IsEvent("UpCompletion") /\ UNCHANGED vars
TrPutStart == IsEvent("UpPutStart") /\ PutStart(R.sess, R.x, R.xref, R.chunks, R.ok)
TrPutEnd == IsEvent("UpPutEnd") /\ PutEnd(R.sess, R.x, R.res, R.ret)
TrShardStart == IsEvent("UpShardStart") /\ ShardStart(R.sess, R.sh, R.files, R.cas, R.nbytes)
TrShardEnd == IsEvent("UpShardEnd") /\ ShardEnd(R.sess, R.sh, R.res)
TrFinish == IsEvent("UpFinish") /\ Finish(R.sess, R.f, R.ptr_hash, R.ref_hash, R.size, R.nbytes, R.m)
TrFinalize == IsEvent("UpFinalize") /\ Finalize(R.sess, R.m)
TrDryFinalize == IsEvent("UpDryFinalize") /\ DryFinalize(R.sess, R.m)
TrFileInfos == IsEvent("UpFileInfos") /\ FileInfos(R.sess, R.files)
TrPointer == IsEvent("UpPointer") /\ Pointer(R.sess, R.f, R.ptr_hash, R.ref_hash, R.size, R.nbytes)
TrApiDone == IsEvent("UpApiDone") /\ ApiDone(R.sess)
TrErr == IsEvent("UpErr") /\ Err(R.sess)
TrAbort == IsEvent("UpSessionAbort") /\ Abort(R.sess)
TrCacheIndex == IsEvent("UpCacheIndex") /\ CacheIndex(R.sess, R.xs)
TrStoreCheck == IsEvent("UpStoreCheck") /\ StoreCheck(R.x, R.recomputed, R.seek_ok, R.stream_ok, R.decodes, R.chunks)
TrGlobalQuery == IsEvent("UpGlobalQuery") /\ GlobalQuery(R.sess, R.chunk, R.res)
TrDownload == IsEvent("UpDownload") /\ Download(R.f, R.a, R.b, R.out, R.exp, R.n, R.ok)
\* a panic inside the code under test is an event no action matches

TraceNext == \/ TrReset \/ TrSessionStart \/ TrFileStart \/ TrDecision \/ TrCut \/ TrCompletion \/ TrPutStart
             \/ TrPutEnd \/ TrShardStart \/ TrShardEnd \/ TrFinish \/ TrFinalize \/ TrErr \/ TrAbort
             \/ TrCacheIndex \/ TrStoreCheck \/ TrDownload \/ TrGlobalQuery \/ TrPointer \/ TrApiDone \/ TrDryFinalize \/ TrFileInfos
TraceSpec == TraceInit /\ [][TraceNext]_tvars

TraceAccepted ==
  LET d == TLCGet("stats").diameter IN
  IF d = Len(Rec) THEN TRUE
  ELSE Print(<<"TRACE_REJECTED at line", d + 1, "of", Len(Rec), Rec[d + 1]>>, FALSE)

StopAt == l # atoi(IOEnv.STOPAT)
=============================================================================
