-------------------------- MODULE Gen_Singleflight --------------------------
(* Scenario generation: behaviours of Singleflight with a history of the     *)
(* harness operations that realise them (gate releases), printed as JSON.    *)
(*   call c k v   spawn caller c (parks at gate sf_start)                    *)
(*   step a       let actor a pass the gate it is parked at                  *)
(*   end  a o     let the supplied task of caller a finish with outcome o    *)
(* Poll(c) is the caller passing the gate between get_future and the first   *)
(* poll of its results future - a stuttering step of the base spec that      *)
(* decides whether Complete happens before or after the first poll.          *)
EXTENDS Singleflight, Json, TLCExt

CONSTANTS MaxPerCaller

VARIABLES hist, polled, ncalls, fin
gvars == <<vars, hist, polled, ncalls, fin>>

Step(a) == [op |-> "step", a |-> a, task |-> FALSE]
TStep(a) == [op |-> "step", a |-> a, task |-> TRUE]

GInit == Init /\ hist = <<>> /\ polled = {} /\ ncalls = [c \in Callers |-> 0] /\ fin = FALSE

GGetCall(c, k) == /\ ~fin /\ ncalls[c] < MaxPerCaller
                  /\ GetCall(c, k)
                  /\ hist' = hist \o <<[op |-> "call", c |-> c, k |-> k, v |-> Len(hist) + 1], Step(c)>>
                  /\ polled' = polled \ {c}
                  /\ ncalls' = [ncalls EXCEPT ![c] = @ + 1]
                  /\ UNCHANGED fin
GGetFuture(c) == GetFuture(c) /\ hist' = Append(hist, Step(c)) /\ UNCHANGED <<polled, ncalls, fin>>
GPoll(c) == /\ pc[c] \in {"wait", "join", "woken", "joinwoken", "gotres"} /\ c \notin polled
            /\ polled' = polled \cup {c}
            /\ hist' = Append(hist, Step(c))
            /\ UNCHANGED <<vars, ncalls, fin>>
GTaskRun(id) == /\ id \in 1..Len(calls) /\ calls[id].owner \in polled
                /\ \E v \in Vals : TaskRun(id, calls[id].owner, v)
                /\ hist' = Append(hist, TStep(calls[id].owner))
                /\ UNCHANGED <<polled, ncalls, fin>>
GComplete(id, o) == /\ Complete(id, o)
                    /\ hist' = Append(hist, [op |-> "end", a |-> calls[id].owner, task |-> TRUE, o |-> o])
                    /\ UNCHANGED <<polled, ncalls, fin>>
GRemove(c) == c \in polled /\ Remove(c) /\ hist' = Append(hist, Step(c)) /\ UNCHANGED <<polled, ncalls, fin>>
GReturn(c) == c \in polled /\ Return(c) /\ UNCHANGED <<hist, polled, ncalls, fin>>
GFinish == /\ ~fin /\ \A c \in Callers : pc[c] \in {"idle", "done"}
           /\ hist # <<>>
           /\ fin' = TRUE /\ UNCHANGED <<vars, hist, polled, ncalls>>

GNext == \/ \E c \in Callers : \/ \E k \in Keys : GGetCall(c, k)
                               \/ GGetFuture(c) \/ GPoll(c) \/ GRemove(c) \/ GReturn(c)
         \/ \E id \in 1..Len(calls) : GTaskRun(id) \/ \E o \in Outcomes : GComplete(id, o)
         \/ GFinish
GSpec == GInit /\ [][GNext]_gvars

Emit == fin => PrintT(<<"SCN", ToJson([steps |-> hist])>>)
=============================================================================
