---------------------------- MODULE Trace_Xorb ----------------------------
(* Trace validation for cas_object (C07, C08).  All events are emitted by    *)
(* the harness around public calls of cas_object.                            *)
(*  XbSer ...        a chunk list serialized by CasObject::serialize; the    *)
(*                   frames / footer in the event are what an independent    *)
(*                   parser found in the bytes written; comp = sizes the     *)
(*                   independent compressors produce for each chunk          *)
(*  XbOpen, XbAll, XbRange, XbDec, XbDec1   what the readers / decoders      *)
(*                   returned, as content ids cut at the offsets they report *)
(*  XvBuild, XvMutate, XvCheck   an object of the model concretised by the   *)
(*                   independent encoder, the code's verdicts on it          *)
(*  XfCase, XfCheck  a byte string from the fault enumeration: its           *)
(*                   independent reading and the code's verdicts             *)
(* Record 1 is the setup record (chunk pool of the scenario mode).           *)
EXTENDS Xorb, Json, IOUtils, TLCExt

Rec == ndJsonDeserialize(IOEnv.TRACE)
TChunks == {Rec[1].pool[i] : i \in 1..Len(Rec[1].pool)}

VARIABLE l
tvars == <<vars, l>>
TraceInit == Init /\ l = 2

IsEvent(e) == l <= Len(Rec) /\ Rec[l].ev = e /\ l' = l + 1
R == Rec[l]
OkV == {"accept", "reject", "error"}       \* a panic, an abort (allocation failure under RLIMIT_AS) or a hang matches nothing

TrReset == /\ IsEvent("reset")
           /\ phase' = "idle" /\ xorb' = <<>> /\ obj' = NoObj
           /\ sum' = [dec |-> FALSE, root |-> Other, foot |-> "bad", v1foot |-> FALSE, nframes |-> 0]
           /\ kind' = "mut" /\ own' = Zero /\ mut' = NoMut /\ claim' = Zero /\ verd' = NoVerd

-----------------------------------------------------------------------------
(* C07                                                                       *)
HdrEq(f, o) == f.ver = o.ver /\ f.clen = o.clen /\ f.scheme = o.scheme /\ f.ulen = o.ulen
PickFor(c, o) == {s \in Candidates(c.req) : HdrEq(Encode(c, s), o)}
\* the footer fields as logged; the hash is compared through interned ids
ObsFoot(F, ownId, x) ==
  [form |-> "v1", identOk |-> F.identok, ver |-> F.ver, hash |-> IF F.hid = ownId THEN Root(Ids(x)) ELSE Other,
   hidentOk |-> F.hidentok, hver |-> F.hver, n1 |-> F.n1, hashes |-> F.hashes, bidentOk |-> F.bidentok, bver |-> F.bver,
   n2 |-> F.n2, bounds |-> F.bounds, unpacked |-> F.unpacked, n3 |-> F.n3, hoff |-> F.hoff, boff |-> F.boff,
   infoLen |-> F.infolen]

VARIABLE ownId      \* interned id of the reference hash of the xorb serialized last
TrSer ==
  /\ IsEvent("XbSer")
  /\ Len(R.frames) = Len(R.x)
  /\ \A i \in 1..Len(R.x) : PickFor(R.x[i], R.frames[i]) # {}         \* scheme in {requested, none}, fallback rule
  /\ Build(R.x, [i \in 1..Len(R.x) |-> CHOOSE s \in PickFor(R.x[i], R.frames[i]) : TRUE], "v1")
  /\ R.pids = Ids(R.x)                                                \* every stored payload decodes to its chunk
  /\ R.class = "ok"
  /\ ObsFoot(R.foot, R.own, R.x) = obj'.foot                          \* the footer written
  /\ ObsFoot(R.info, R.own, R.x) = obj'.foot                          \* the footer returned
  /\ IsPrefix(R.foot.bounds, [i \in 1..Len(R.x) |-> HDR + R.frames[i].clen])
  /\ IsPrefix(R.foot.unpacked, [i \in 1..Len(R.x) |-> R.x[i].len])
  /\ R.ret = R.size
  /\ R.size = R.foot.bounds[Len(R.x)] + obj'.foot.infoLen + 4
  /\ ownId' = R.own

TrOpen == IsEvent("XbOpen") /\ Reopen(ObsFoot(R.foot, ownId, xorb), R.foot.infolen) /\ UNCHANGED ownId
TrAll == IsEvent("XbAll") /\ ReadRange(0, Len(xorb), <<0, obj.foot.bounds[Len(xorb)]>>, R.ids, R.nbytes) /\ UNCHANGED ownId
TrRange == IsEvent("XbRange") /\ R.nbytes = R.ulen /\ ReadRange(R.a, R.b, R.boff, R.ids, R.ulen) /\ UNCHANGED ownId
TrDec == IsEvent("XbDec") /\ R.dec \in {"sync", "async", "stream"} /\ DecodeRange(R.a, R.b, R.ids, R.offs) /\ UNCHANGED ownId
TrDec1 == IsEvent("XbDec1") /\ R.dec \in {"sync", "async"} /\ DecodeOne(R.i, R.id, R.clen, R.ulen) /\ UNCHANGED ownId

-----------------------------------------------------------------------------
(* C08, objects of the model                                                 *)
\* the independent reading of the concrete bytes must be the model's summary of the abstract object
RefIs(r, s) == /\ r.dec = s.dec /\ r.foot = s.foot /\ r.v1foot = s.v1foot
               /\ s.dec => r.nframes = s.nframes
Acc(v) == v = "accept"

TrVBuild ==
  /\ IsEvent("XvBuild")
  /\ Build(R.x, R.pick, R.form)
  /\ RefIs(R.ref, sum')
  /\ R.deser = "-" \/ (/\ R.deser \in OkV /\ R.bounds \in OkV
                       /\ Acc(R.deser) = DeserOk(obj') /\ Acc(R.bounds) = BoundsOk(obj'))
  /\ UNCHANGED ownId
TrVMutate ==
  /\ IsEvent("XvMutate")
  /\ Mutate(R.m)
  /\ RefIs(R.ref, sum')
  /\ R.deser \in OkV /\ R.bounds \in OkV
  /\ Acc(R.deser) = DeserOk(obj') /\ Acc(R.bounds) = BoundsOk(obj')
  /\ UNCHANGED ownId
TrVCheck ==
  /\ IsEvent("XvCheck")
  /\ Check(R.hk)
  /\ R.seek \in OkV /\ R.stream \in OkV
  /\ Acc(R.seek) = Acc(verd'.seek)                   \* the code decides as the model does
  /\ Acc(R.stream) = Acc(verd'.stream)
  /\ sum.dec => ((R.rootid = R.hid) <=> (sum.root = claim'))     \* the claimed hash is the one the model means
  /\ UNCHANGED ownId

(* C08, byte strings of the fault enumeration                                *)
TrFCase ==
  /\ IsEvent("XfCase")
  /\ Opaque([dec |-> R.ref.dec, root |-> R.ref.root, foot |-> R.ref.foot, v1foot |-> R.ref.v1foot, nframes |-> R.ref.nframes],
            R.kind, R.own)
  /\ R.deser \in OkV /\ R.bounds \in OkV
  /\ R.kind \in {"v1", "v0"} => Acc(R.deser)
  /\ R.kind = "v1" => Acc(R.bounds)
  /\ UNCHANGED ownId
TrFCheck ==
  /\ IsEvent("XfCheck")
  /\ R.seek \in OkV /\ R.stream \in OkV
  /\ Observe(R.h, R.seek, R.stream)
  /\ UNCHANGED ownId

TraceNext == \/ TrReset /\ UNCHANGED ownId
             \/ TrSer \/ TrOpen \/ TrAll \/ TrRange \/ TrDec \/ TrDec1
             \/ TrVBuild \/ TrVMutate \/ TrVCheck \/ TrFCase \/ TrFCheck
TraceSpec == TraceInit /\ ownId = 0 /\ [][TraceNext]_<<tvars, ownId>>

TraceInvs == AcceptSound /\ ValidComplete /\ Agree

TraceAccepted ==
  LET d == TLCGet("stats").diameter IN
  IF d = Len(Rec) THEN TRUE
  ELSE Print(<<"TRACE_REJECTED at line", d + 1, "of", Len(Rec), Rec[d + 1]>>, FALSE)

StopAt == l # atoi(IOEnv.STOPAT)
=============================================================================
