SPECIFICATION Spec
CONSTANTS
  Chunks = {1, 2}
  Keys = {0, 1, 2}
  MaxTime = 4
  Grace = 1
  MaxShards = 2
  Variant = "strict_expiry"
INVARIANT NoRawHashUnderKey
INVARIANT DedupKeepsWorking
INVARIANT NeverDeletedEarly
PROPERTY LoadRespectsExpiry
PROPERTY LoadsUnexpired
CHECK_DEADLOCK FALSE
