SPECIFICATION Spec
CONSTANTS
  Threads = {t1, t2}
  Keys = {k1}
  Ranges <- MCRanges1
  Capacity = 4
  FixDrift = TRUE
  WithEnv = TRUE
  FsExact = TRUE
  EarlyVerify = TRUE
  ILen <- MCILen
INVARIANT Invs
CHECK_DEADLOCK FALSE
