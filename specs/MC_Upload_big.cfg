SPECIFICATION Spec
CONSTANTS
  ChunkIds = {"a", "b", "c"}
  Files = {"f1", "f2"}
  MaxC = 2
  MaxFileLen = 4
  PreXorbs <- MCPre
  MaxFaults = 1
  FixF1 = TRUE
INVARIANT Invs
CHECK_DEADLOCK FALSE
