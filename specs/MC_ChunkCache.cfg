SPECIFICATION Spec
CONSTANTS
  Threads = {t1, t2}
  Keys = {k1}
  Ranges <- MCRanges
  Capacity = 4
  FixDrift = TRUE
  WithEnv = FALSE
  FsExact = TRUE
  EarlyVerify = FALSE
  ILen <- MCILen
INVARIANT Invs
CHECK_DEADLOCK FALSE
