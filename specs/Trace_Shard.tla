----------------------------- MODULE Trace_Shard -----------------------------
(***************************************************************************)
(* Trace validation for the mdb_shard crate (C05, C09, C10, C18).          *)
(* The harness declares the content of the shards it builds (ShBuild: the  *)
(* ground truth), runs the real readers / queries / set operations /       *)
(* exports on the serialized shards and reports what they returned.  This  *)
(* module keeps the declared content, computes what derived shards must    *)
(* hold, and accepts an observation only if it is what the content         *)
(* implies.  A hash is <<prefix id, full id>>; a stored chunk is           *)
(* <<stored hash, len, plain hash>> (plain = stored in an unkeyed shard).  *)
(***************************************************************************)
EXTENDS Integers, Sequences, FiniteSets, TLC, Json, IOUtils, TLCExt

Rec == ndJsonDeserialize(IOEnv.TRACE)
Cap == 8

VARIABLES sh,     \* [sid -> [files : [hash -> record], xorbs : [hash -> Seq(chunk)], key]]
          l
vars == <<sh, l>>

Put(f, k, v) == (k :> v) @@ f
IsEvent(e) == l <= Len(Rec) /\ Rec[l].ev = e /\ l' = l + 1
R == Rec[l]
Range(s) == {s[i] : i \in 1..Len(s)}

FileRecOf(j) == [segs |-> j.segs, verif |-> j.verif, meta |-> j.meta, vids |-> j.vids, sha |-> j.sha]
Files(js) == [h \in {js[i].h : i \in 1..Len(js)} |-> FileRecOf(js[CHOOSE i \in 1..Len(js) : js[i].h = h])]
ChunksOf(j, withPlain) == [c \in 1..Len(j.chunks) |-> <<j.chunks[c][1], j.chunks[c][2], IF withPlain THEN j.plain[c] ELSE j.chunks[c][1]>>]
Xorbs(js, withPlain) == [h \in {js[i].h : i \in 1..Len(js)} |-> ChunksOf(js[CHOOSE i \in 1..Len(js) : js[i].h = h], withPlain)]
NoDupHashes(js) == \A i, k \in 1..Len(js) : js[i].h = js[k].h => i = k

RECURSIVE SumLen(_, _, _)
SumLen(cs, a, b) == IF a > b THEN 0 ELSE cs[a][2] + SumLen(cs, a + 1, b)
\* byte counts of file segments are 32-bit and their totals 64-bit: TLC integers are 32-bit, so a segment carries its
\* size as two 16-bit limbs (segs[i][4] low, segs[i][5] high) and totals are <<low limb, rest>> after carrying
RECURSIVE SumSegs(_, _, _)
SumSegs(segs, i, k) == IF i > Len(segs) THEN 0 ELSE segs[i][k] + SumSegs(segs, i + 1, k)
RECURSIVE MatOver(_, _, _)
MatOver(s, S, k) == IF S = {} THEN 0 ELSE LET h == CHOOSE h \in S : TRUE IN SumSegs(s.files[h].segs, 1, k) + MatOver(s, S \ {h}, k)
RECURSIVE StoOver(_, _)
StoOver(s, S) == IF S = {} THEN 0 ELSE LET h == CHOOSE h \in S : TRUE IN SumLen(s.xorbs[h], 1, Len(s.xorbs[h])) + StoOver(s, S \ {h})
RECURSIVE CntOver(_, _)
CntOver(s, S) == IF S = {} THEN 0 ELSE LET h == CHOOSE h \in S : TRUE IN Len(s.xorbs[h]) + CntOver(s, S \ {h})
Materialized(s) == LET lo == MatOver(s, DOMAIN s.files, 4) hi == MatOver(s, DOMAIN s.files, 5) IN <<lo % 65536, hi + (lo \div 65536)>>
Stored(s) == StoOver(s, DOMAIN s.xorbs)

TraceInit == sh = <<>> /\ l = 2
TrReset == IsEvent("reset") /\ sh' = <<>>

TrBuild == /\ IsEvent("ShBuild")
           /\ NoDupHashes(R.files) /\ NoDupHashes(R.xorbs)
           /\ sh' = Put(sh, R.sid, [files |-> Files(R.files), xorbs |-> Xorbs(R.xorbs, TRUE), key |-> R.key])

(* ---- C09: lookups, scans, sizes ---- *)
SamePrefixCount(D, h) == Cardinality({x \in D : x[1] = h[1]})
RecEq(rec, j, skipSha) == /\ rec.segs = j.segs /\ rec.verif = j.verif /\ rec.vids = j.vids /\ j.nseg_hdr = Len(rec.segs)
                          /\ IF skipSha THEN TRUE ELSE rec.meta = j.meta /\ rec.sha = j.sha
XorbEq(cs, j) == /\ Len(j.chunks) = Len(cs) /\ j.n_hdr = Len(cs)
                 /\ \A c \in 1..Len(cs) : j.chunks[c][1] = cs[c][1] /\ j.chunks[c][2] = cs[c][2]
                 /\ j.nbytes = SumLen(cs, 1, Len(cs))

TrLookup ==
  /\ IsEvent("ShLookup") /\ R.sid \in DOMAIN sh
  /\ LET s == sh[R.sid]
         D == IF R.kind = "file" THEN DOMAIN s.files ELSE DOMAIN s.xorbs IN
     CASE R.res = "hit" -> /\ R.h \in D /\ R.rec.h = R.h
                           /\ IF R.kind = "file" THEN RecEq(s.files[R.h], R.rec, FALSE) ELSE XorbEq(s.xorbs[R.h], R.rec)
       [] R.res = "none" -> R.h \notin D
       [] R.res = "collision_error" -> SamePrefixCount(D, R.h) >= Cap
       [] OTHER -> FALSE
  /\ UNCHANGED sh

TrScan ==
  /\ IsEvent("ShScan") /\ R.sid \in DOMAIN sh
  /\ LET s == sh[R.sid] skip == R.reader \notin {"seek", "minimal_reser"} IN
     /\ NoDupHashes(R.files) /\ NoDupHashes(R.xorbs)
     /\ {R.files[i].h : i \in 1..Len(R.files)} = DOMAIN s.files
     /\ {R.xorbs[i].h : i \in 1..Len(R.xorbs)} = DOMAIN s.xorbs
     /\ \A i \in 1..Len(R.files) : RecEq(s.files[R.files[i].h], R.files[i], skip)
     /\ \A i \in 1..Len(R.xorbs) : XorbEq(s.xorbs[R.xorbs[i].h], R.xorbs[i])
     \* totals of the footer: as read, and as re-computed when the minimal reader writes the shard out again
     /\ R.reader \in {"seek", "minimal_reser"} => R.materialized = Materialized(s) /\ R.stored = Stored(s)
  /\ UNCHANGED sh

\* the streaming reader asked for one section only lists exactly that section
TrScanPart ==
  /\ IsEvent("ShScanPart") /\ R.sid \in DOMAIN sh
  /\ LET s == sh[R.sid] IN
     IF R.part = "xorbs"
       THEN /\ NoDupHashes(R.xorbs) /\ {R.xorbs[i].h : i \in 1..Len(R.xorbs)} = DOMAIN s.xorbs
            /\ \A i \in 1..Len(R.xorbs) : XorbEq(s.xorbs[R.xorbs[i].h], R.xorbs[i])
       ELSE /\ NoDupHashes(R.files) /\ {R.files[i].h : i \in 1..Len(R.files)} = DOMAIN s.files
            /\ \A i \in 1..Len(R.files) : RecEq(s.files[R.files[i].h], R.files[i], TRUE)
  /\ UNCHANGED sh

\* the (truncated chunk hash -> location) list names every chunk location of the shard exactly once and each entry's
\* hash is the one stored at its location; the file-record ranges list every file exactly once
TrIndexScan ==
  /\ IsEvent("ShIndexScan") /\ R.sid \in DOMAIN sh
  /\ LET s == sh[R.sid]
         L == {<<R.locs[i][1], R.locs[i][2]>> : i \in 1..Len(R.locs)}
         All == UNION {{<<x, c - 1>> : c \in 1..Len(s.xorbs[x])} : x \in DOMAIN s.xorbs} IN
     /\ R.consistent
     /\ L = All /\ Len(R.locs) = Cardinality(All)
     /\ {R.file_hashes[i] : i \in 1..Len(R.file_hashes)} = DOMAIN s.files
     /\ Len(R.file_hashes) = Cardinality(DOMAIN s.files)
  /\ UNCHANGED sh

TrSizes ==
  /\ IsEvent("ShSizes") /\ R.sid \in DOMAIN sh
  /\ R.mem_size = R.file_size
  /\ R.mem_materialized = Materialized(sh[R.sid]) /\ R.mem_stored = Stored(sh[R.sid])
  /\ UNCHANGED sh

TrSearch ==
  /\ IsEvent("SsSearch")
  /\ R.res = "ok"
  /\ LET M == {i \in 1..Len(R.arr) : R.arr[i] = R.key}
         F == Range(R.found) IN
     /\ Cardinality(F) = Len(R.found)                     \* nothing reported twice
     /\ F \subseteq M                                     \* only entries holding the key
     /\ IF Cardinality(M) <= R.cap THEN F = M ELSE Len(R.found) = R.cap
  /\ UNCHANGED sh

(* ---- C05: dedup answers are truthful ---- *)
Truthful(s, q, a) ==
  /\ a.x \in DOMAIN s.xorbs
  /\ a.n >= 1 /\ a.n <= Len(q) /\ a.hi = a.lo + a.n /\ a.hi <= Len(s.xorbs[a.x])
  /\ \A j \in 1..a.n : s.xorbs[a.x][a.lo + j][3] = q[j]       \* the recorded hash is the queried one (plain or under the key)
  /\ a.bytes = SumLen(s.xorbs[a.x], a.lo + 1, a.hi)

DedupOK(r) ==
  /\ \A i \in 1..Len(r.sids) : r.sids[i] \in DOMAIN sh
  /\ IF r.ans.found THEN \E i \in 1..Len(r.sids) : Truthful(sh[r.sids[i]], r.q, r.ans)
     ELSE IF ~r.must_find THEN TRUE
     \* a stored run must be found unless Cap or more chunk entries share the truncated prefix (documented limit)
     ELSE \E i \in 1..Len(r.sids) :
               LET s == sh[r.sids[i]] IN
               Cardinality({e \in UNION {{<<x, c>> : c \in 1..Len(s.xorbs[x])} : x \in DOMAIN s.xorbs} :
                               s.xorbs[e[1]][e[2]][1][1] = r.q[1][1]}) >= Cap

\* (guards with quantifiers are evaluated as plain expressions - `= TRUE` - so that TLC does not branch on witnesses)
TrDedup == IsEvent("ShDedup") /\ DedupOK(R) = TRUE /\ UNCHANGED sh

(* ---- C10: union / difference / consolidation ---- *)
MergeRec(a, b) == [segs |-> a.segs,
                   verif |-> a.verif \/ b.verif, vids |-> IF a.verif THEN a.vids ELSE b.vids,
                   meta |-> a.meta \/ b.meta, sha |-> IF a.meta THEN a.sha ELSE b.sha]
UnionOf(a, b) ==
  [files |-> [h \in (DOMAIN a.files) \cup (DOMAIN b.files) |->
                 IF h \in DOMAIN a.files /\ h \in DOMAIN b.files THEN MergeRec(a.files[h], b.files[h])
                 ELSE IF h \in DOMAIN a.files THEN a.files[h] ELSE b.files[h]],
   xorbs |-> [h \in (DOMAIN a.xorbs) \cup (DOMAIN b.xorbs) |-> IF h \in DOMAIN a.xorbs THEN a.xorbs[h] ELSE b.xorbs[h]],
   key |-> 0]
DiffOf(a, b) ==    \* the records of the second that are not in the first
  [files |-> [h \in (DOMAIN b.files) \ (DOMAIN a.files) |-> b.files[h]],
   xorbs |-> [h \in (DOMAIN b.xorbs) \ (DOMAIN a.xorbs) |-> b.xorbs[h]],
   key |-> 0]

ListingIs(s, files, xorbs) ==
  /\ NoDupHashes(files) /\ NoDupHashes(xorbs)
  /\ {files[i].h : i \in 1..Len(files)} = DOMAIN s.files
  /\ {xorbs[i].h : i \in 1..Len(xorbs)} = DOMAIN s.xorbs
  /\ \A i \in 1..Len(files) : RecEq(s.files[files[i].h], files[i], FALSE)
  /\ \A i \in 1..Len(xorbs) : XorbEq(s.xorbs[xorbs[i].h], xorbs[i])

TrSetOp ==
  /\ IsEvent("ShSetOp") /\ R.a \in DOMAIN sh /\ R.b \in DOMAIN sh
  /\ LET exp == IF R.op = "union" THEN UnionOf(sh[R.a], sh[R.b]) ELSE DiffOf(sh[R.a], sh[R.b]) IN
     /\ ListingIs(exp, R.files, R.xorbs)
     /\ R.materialized = Materialized(exp) /\ R.stored = Stored(exp)
     /\ sh' = Put(sh, R.out, exp)

\* record r of a source shard is present in listing entry j (files may have been enriched by a merge)
FileIn(h, r, files) == \E i \in 1..Len(files) : files[i].h = h /\ files[i].segs = r.segs
                          /\ (r.verif => files[i].verif /\ files[i].vids = r.vids)
                          /\ (r.meta => files[i].meta /\ files[i].sha = r.sha)
XorbIn(h, cs, xorbs) == \E i \in 1..Len(xorbs) : xorbs[i].h = h /\ XorbEq(cs, xorbs[i])
Covered(s, ret) == /\ \A h \in DOMAIN s.files : FileIn(h, s.files[h], ret.files)
                   /\ \A h \in DOMAIN s.xorbs : XorbIn(h, s.xorbs[h], ret.xorbs)

ConsolidateOK(r) ==
  LET before == Range(r.before)
      remaining == Range(r.remaining)
      rets == Range(r.returned) IN
  /\ before \subseteq DOMAIN sh /\ remaining \subseteq before
  \* returned shards exist and are named by their content hash
  /\ \A x \in rets : x.exists /\ x.name_ok
  \* ... and their records are found through their own lookup tables
  /\ \A x \in rets : x.lookup_ok
  \* every record retrievable before is retrievable from a returned shard
  /\ \A sid \in before : /\ \A h \in DOMAIN sh[sid].files : \E x \in rets : FileIn(h, sh[sid].files[h], x.files)
                         /\ \A h \in DOMAIN sh[sid].xorbs : \E x \in rets : XorbIn(h, sh[sid].xorbs[h], x.xorbs)
  \* nothing is invented
  /\ \A x \in rets : /\ \A i \in 1..Len(x.files) : \E sid \in before : x.files[i].h \in DOMAIN sh[sid].files
                     /\ \A i \in 1..Len(x.xorbs) : \E sid \in before : /\ x.xorbs[i].h \in DOMAIN sh[sid].xorbs
                                                                       /\ XorbEq(sh[sid].xorbs[x.xorbs[i].h], x.xorbs[i])
  \* a deleted shard is entirely contained in one returned shard
  /\ \A sid \in before \ remaining : \E x \in rets : Covered(sh[sid], x)

TrConsolidate == IsEvent("ShConsolidate") /\ ConsolidateOK(R) = TRUE /\ UNCHANGED sh

(* ---- C18: keyed export, dedup through the manager, expiry ---- *)
ExportOK ==
  /\ R.src \in DOMAIN sh
  /\ LET s == sh[R.src]
         nchunks == CntOver(s, DOMAIN s.xorbs) IN
     /\ R.out_key = R.key
     \* the expectation computed by the harness's own HMAC covers exactly the source's xorbs, lengths unchanged ...
     /\ {R.expect_xorbs[i].h : i \in 1..Len(R.expect_xorbs)} = DOMAIN s.xorbs
     /\ \A i \in 1..Len(R.expect_xorbs) :
          LET cs == s.xorbs[R.expect_xorbs[i].h] e == R.expect_xorbs[i].chunks IN
          /\ Len(e) = Len(cs)
          /\ \A c \in 1..Len(cs) : /\ e[c][2] = cs[c][2]
                                   /\ IF R.key = 0 THEN e[c][1] = cs[c][1] ELSE e[c][1] # cs[c][1]  \* no raw hash remains
     \* ... and the exported shard holds exactly that: xorb hashes kept, every chunk hash in its keyed form
     /\ NoDupHashes(R.xorbs)
     /\ {R.xorbs[i].h : i \in 1..Len(R.xorbs)} = DOMAIN s.xorbs
     /\ \A i \in 1..Len(R.xorbs) : \E k \in 1..Len(R.expect_xorbs) :
          /\ R.expect_xorbs[k].h = R.xorbs[i].h /\ R.expect_xorbs[k].chunks = R.xorbs[i].chunks
     \* file records kept (unchanged) or dropped as requested
     /\ IF R.incl_file THEN /\ NoDupHashes(R.files) /\ {R.files[i].h : i \in 1..Len(R.files)} = DOMAIN s.files
                            /\ \A i \in 1..Len(R.files) : RecEq(s.files[R.files[i].h], R.files[i], FALSE)
        ELSE R.files = <<>>
     \* optional tables present exactly when asked for
     /\ R.n_file_lookup = IF R.incl_file THEN Cardinality(DOMAIN s.files) ELSE 0
     /\ R.n_cas_lookup = IF R.incl_cas THEN Cardinality(DOMAIN s.xorbs) ELSE 0
     /\ R.n_chunk_lookup = IF R.incl_chunk THEN nchunks ELSE 0

TrExport == IsEvent("ShExport") /\ ExportOK = TRUE /\ UNCHANGED sh

\* C09 on an exported shard: its lookup tables answer for exactly the records of the source
TrExportLookup ==
  /\ IsEvent("ShExportLookup") /\ R.src \in DOMAIN sh
  /\ LET s == sh[R.src]
         D == IF R.kind = "file" THEN DOMAIN s.files ELSE DOMAIN s.xorbs IN
     CASE R.res = "hit" -> /\ R.h \in D
                           /\ R.kind = "file" => (R.rec.h = R.h /\ RecEq(s.files[R.h], R.rec, FALSE))
       [] R.res = "none" -> R.h \notin D
       [] OTHER -> FALSE
  /\ UNCHANGED sh

TrDedupPair ==
  /\ IsEvent("ShDedupPair") /\ R.orig \in DOMAIN sh
  /\ R.ans_orig.found = R.ans_keyed.found
  /\ R.ans_orig.found => Truthful(sh[R.orig], R.q, R.ans_orig) /\ Truthful(sh[R.orig], R.q, R.ans_keyed)
  /\ (R.ans_orig.found /\ R.ans_orig.x = R.ans_keyed.x /\ R.ans_orig.lo = R.ans_keyed.lo) => R.ans_orig = R.ans_keyed
  /\ UNCHANGED sh

\* a file record added to a manager (in memory, flushed, or in a registered shard) is found through it, with the
\* segments it was added with
TrMgrLookup ==
  /\ IsEvent("ShMgrLookup")
  /\ R.res = "hit" /\ R.rec.h = R.h
  /\ \E i \in 1..Len(R.sids) : /\ R.sids[i] \in DOMAIN sh /\ R.h \in DOMAIN sh[R.sids[i]].files
                                /\ sh[R.sids[i]].files[R.h].segs = R.rec.segs
  /\ UNCHANGED sh
TrMgrEnd == IsEvent("ShMgrEnd") /\ R.all_file_info >= R.distinct_files /\ UNCHANGED sh

\* a chunk of a keyed shard is found through the manager although the unkeyed collection, which is asked first, holds
\* another chunk with the same 64-bit prefix (its table entry does not verify and the search goes on)
TrDedupMust ==
  /\ IsEvent("ShDedupMust") /\ R.owner \in DOMAIN sh
  /\ R.ans.found /\ Truthful(sh[R.owner], R.q, R.ans)
  /\ UNCHANGED sh

TrKeyedFile == IsEvent("ShKeyedFile") /\ R.found = R.incl_file /\ UNCHANGED sh

ExpiryOK ==
  /\ R.expiry = R.creation + R.valid
  /\ R.loaded = (R.now <= R.expiry)                      \* a shard past its expiry is not loaded
  /\ R.deleted = (R.expiry + R.grace <= R.now)           \* and deleted only after the grace period
  \* the same through a manager, whether the shard is named by file path or found in a directory
  /\ \A i \in 1..Len(R.via) : /\ R.via[i].registered = (IF R.now <= R.expiry THEN 1 ELSE 0)
                               /\ (R.via[i].has_chunks => R.via[i].answers = (R.now <= R.expiry))

TrExpiry == IsEvent("ShExpiry") /\ ExpiryOK = TRUE /\ UNCHANGED sh

TrKeyedTimes == IsEvent("ShKeyedTimes") /\ R.creation = R.creation_set /\ R.expiry = R.creation + R.valid /\ UNCHANGED sh

TraceNext == \/ TrIndexScan \/ TrReset \/ TrBuild \/ TrLookup \/ TrScan \/ TrSizes \/ TrSearch \/ TrDedup \/ TrSetOp \/ TrConsolidate
             \/ TrExport \/ TrDedupPair \/ TrKeyedFile \/ TrExpiry \/ TrKeyedTimes \/ TrMgrLookup \/ TrMgrEnd \/ TrExportLookup \/ TrDedupMust \/ TrScanPart
TraceSpec == TraceInit /\ [][TraceNext]_vars

TraceAccepted ==
  LET d == TLCGet("stats").diameter IN
  IF d = Len(Rec) THEN TRUE
  ELSE Print(<<"TRACE_REJECTED at line", d + 1, "of", Len(Rec), Rec[d + 1]>>, FALSE)
StopAt == l # atoi(IOEnv.STOPAT)
=============================================================================
