SPECIFICATION Spec
CONSTANTS
  Hashes = {1, 2, 3}
  Op = "difference"
  Variant = "ok"
INVARIANT Correct
PROPERTY Terminates
CHECK_DEADLOCK FALSE
