SPECIFICATION Spec
CONSTANTS
  Threads = {t1}
  Keys = {k1}
  Ranges <- MCRanges
  Capacity = 4
  FixDrift = TRUE
  WithEnv = TRUE
  FsExact = TRUE
  EarlyVerify = FALSE
  ILen <- MCILen
INVARIANT Invs
CHECK_DEADLOCK FALSE
