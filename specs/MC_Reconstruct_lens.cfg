SPECIFICATION MCSpec
CONSTANTS
  Bug = "none"
  MaxReqs = 1
  MaxTerms = 2
  MaxFetch = 1
  Writers = {"seq", "par"}
  CacheModes = {"cold"}
  SharedOpts = {FALSE}
  ShapeSet <- ShapesLens
INVARIANT Invs
CHECK_DEADLOCK TRUE
