SPECIFICATION Spec
CONSTANTS
  Cap = 2
  KeyedH <- MCKeyedH
INVARIANT DedupOK
INVARIANT LookupOK
CHECK_DEADLOCK FALSE
