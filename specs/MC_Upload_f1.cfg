SPECIFICATION Spec
CONSTANTS
  ChunkIds = {"a", "b", "c"}
  Files = {"f1", "f2"}
  MaxC = 2
  MaxFileLen = 3
  PreXorbs <- MCPre
  MaxFaults = 0
  FixF1 = FALSE
INVARIANT Invs
CHECK_DEADLOCK FALSE
