--------------------------- MODULE Trace_AtomicFs ---------------------------
(* Trace validation for C19.  Each AfSnapshot is the directory as a crash at   *)
(* that point would leave it, re-opened by the real component.  The snapshot   *)
(* names the crash point; the trace spec advances the AtomicFs protocol to     *)
(* that point, requires the observed directory to be the model's file system,  *)
(* and then evaluates the crash + recovery invariants on what the real          *)
(* re-open reported.                                                            *)
EXTENDS AtomicFs, Json, IOUtils, TLCExt

Rec == ndJsonDeserialize(IOEnv.TRACE)
VARIABLE l
tvars == <<vars, l>>

IsEvent(e) == l <= Len(Rec) /\ Rec[l].ev = e /\ l' = l + 1
R == Rec[l]
Range(s) == {s[i] : i \in 1..Len(s)}

TraceInit == /\ Proto = "shard_flush" /\ Inputs = {} /\ Victims = {}
             /\ fs = [n \in Names |-> "absent"] /\ pc = "idle" /\ todo = {} /\ crashed = FALSE /\ recovered = FALSE
             /\ l = 2

TrReset == IsEvent("reset") /\ pc' = "idle" /\ UNCHANGED <<Proto, Inputs, Victims, fs, todo, crashed, recovered>>

TrStart == /\ IsEvent("AfStart")
           /\ Proto' = R.proto /\ Inputs' = Range(R.inputs) /\ Victims' = Range(R.victims)
           /\ Range(R.inputs) \subseteq AllInputs /\ Range(R.victims) \subseteq Range(R.inputs)
           /\ fs' = [n \in Names |-> IF n \in Range(R.inputs) THEN "complete" ELSE "absent"]
           /\ pc' = "start" /\ todo' = Range(R.victims) /\ crashed' = FALSE /\ recovered' = FALSE

\* the directory the snapshot shows
ObsState(n) ==
  LET hits == {i \in 1..Len(R.files) : R.files[i].name = n /\ R.files[i].kind # "other"} IN
  IF hits = {} THEN "absent"
  ELSE IF n = Tmp THEN (IF R.point = "partial_write" THEN "partial" ELSE "complete")
  ELSE IF \A i \in hits : R.files[i].ok THEN "complete" ELSE "partial"

\* Create followed by Write in one observed step (no snapshot lies between them when the file is tiny)
CreateWrite == /\ ~crashed /\ pc = "start" /\ fs' = [fs EXCEPT ![Tmp] = "complete"] /\ pc' = "rename"
               /\ UNCHANGED <<todo, crashed, recovered, conf>>

\* the base steps that lead to the named crash point
Advance ==
  CASE R.point = "start" -> pc = "start" /\ UNCHANGED vars
    [] R.point = "partial_write" -> IF pc = "start" THEN Create ELSE (pc = "write" /\ UNCHANGED vars)
    [] R.point \in {"shard_before_rename", "sfc_before_rename"} ->
          IF pc = "start" THEN CreateWrite ELSE Write
    [] R.point \in {"shard_after_rename", "sfc_after_rename"} -> Rename
    [] R.point \in {"consolidate_before_remove", "cc_before_del"} -> pc = "unlink" /\ todo # {} /\ UNCHANGED vars
    [] R.point \in {"consolidate_after_remove", "cc_after_del"} -> pc = "unlink" /\ todo # {} /\ Unlink
    [] R.point = "end" -> IF pc = "unlink" THEN (todo = {} \/ Proto \in {"shard_flush", "local_put"}) /\ Unlink
                          ELSE pc \in {"start", "done"} /\ UNCHANGED vars     \* nothing had to be written (no-op)
    [] OTHER -> FALSE

SnapshotOK ==
  /\ \A n \in Names : ObsState(n) = fs'[n]                      \* the protocol is where the model says it is
  /\ \A i \in 1..Len(R.files) : R.files[i].kind = "final" => R.files[i].ok     \* C19: no partial file under a final name
  /\ R.loader_ok                                                 \* the re-open itself succeeds
  /\ (IF Proto = "cache_put" THEN Inputs \ Victims ELSE Inputs) \subseteq Range(R.retrievable)   \* nothing retrievable is lost
  /\ (Proto = "cache_put" => R.wrong_data = 0 /\ R.temps_after_recover = 0)    \* never wrong bytes; temp files are cleaned up

TrSnapshot == IsEvent("AfSnapshot") /\ Advance /\ (SnapshotOK = TRUE)

(* ---- system-call level (bin/checks/sysfs.py): every file-system-modifying system call of the operation inside the *)
(* watched directory is one AfSys event; AfSysCrash is the directory a SIGKILL just before the next call leaves,     *)
(* re-opened by the real component.  A call that is not a step of the protocol (a final name opened for writing or   *)
(* truncated, a write to a final name, an input unlinked before the rename, a rename onto an input ...) has no       *)
(* enabled action and the trace is rejected.                                                                         *)
SysStep ==
  CASE R.op = "openw" ->
         /\ R.kind = "temp"                                   \* C19: nothing is ever written in place under a final name
         /\ IF pc = "start" THEN R.creat /\ Create
            ELSE pc = "write" /\ fs[Tmp] = "partial" /\ UNCHANGED vars        \* SafeFileCreator re-opens its temp file
    [] R.op = "write" ->
         /\ R.kind = "temp" /\ pc = "write" /\ fs[Tmp] = "partial"
         /\ IF R.last THEN Write ELSE UNCHANGED vars
    [] R.op = "rename" ->
         /\ R.kind = "temp" /\ R.to_kind = "final"
         /\ IF R.to = New THEN Rename ELSE RenameOnto(R.to)      \* onto an input only if the content is that input's
    [] R.op = "unlink" ->
         IF R.kind = "final"
         THEN pc = "unlink" /\ R.name \in todo /\ Unlink /\ fs'[R.name] = "absent"
         ELSE /\ R.kind = "temp" /\ pc \in {"write", "rename"}           \* giving up: the temp file is removed again
              /\ fs' = [fs EXCEPT ![Tmp] = "absent"] /\ pc' = "done" /\ UNCHANGED <<todo, crashed, recovered, conf>>
    [] R.op = "sync" -> UNCHANGED vars
    [] R.op = "meta" -> (R.kind = "temp" \/ fs[R.name] = "complete") /\ UNCHANGED vars   \* permissions of a complete file
    [] R.op = "dir" -> UNCHANGED vars
    [] OTHER -> FALSE                                         \* truncate, link, ...: not part of any protocol
TrSys == IsEvent("AfSys") /\ SysStep

ObsFinal(n) ==
  LET hits == {i \in 1..Len(R.files) : R.files[i].name = n /\ R.files[i].kind = "final"} IN
  IF hits = {} THEN "absent" ELSE IF \A i \in hits : R.files[i].ok THEN "complete" ELSE "partial"
ObsTmp == \E i \in 1..Len(R.files) : R.files[i].kind = "temp"
SysCrashOK ==
  /\ \A n \in Names \ {Tmp} : ObsFinal(n) = fs[n]            \* the killed run left exactly the model's file system
  /\ ObsTmp <=> fs[Tmp] # "absent"
  /\ \A i \in 1..Len(R.files) : R.files[i].kind = "final" => R.files[i].ok
  /\ R.loader_ok
  /\ (IF Proto = "cache_put" THEN Inputs \ Victims ELSE Inputs) \subseteq Range(R.retrievable)
  /\ (Proto = "cache_put" => R.wrong_data = 0 /\ R.temps_after_recover = 0)
TrSysCrash == IsEvent("AfSysCrash") /\ (SysCrashOK = TRUE) /\ UNCHANGED vars
(* the next process worked in the directory the killed one left (leftover temporary file included): whatever is under a
   final name afterwards - old or written just now - is complete, and what was retrievable still is (the chunk cache
   may have evicted to make room) *)
SysRetryOK ==
  /\ \A i \in 1..Len(R.files) : R.files[i].kind = "final" => R.files[i].ok
  /\ R.loader_ok
  /\ (Proto # "cache_put" => Inputs \subseteq Range(R.retrievable))
  /\ (Proto = "cache_put" => R.wrong_data = 0)
TrSysRetry == IsEvent("AfSysRetry") /\ (SysRetryOK = TRUE) /\ UNCHANGED vars
TrEnd == IsEvent("AfEnd") /\ R.ok /\ UNCHANGED vars

TraceNext == TrReset \/ TrStart \/ TrSnapshot \/ TrEnd \/ TrSys \/ TrSysCrash \/ TrSysRetry
TraceSpec == TraceInit /\ [][TraceNext]_tvars
TraceAccepted ==
  LET d == TLCGet("stats").diameter IN
  IF d = Len(Rec) THEN TRUE
  ELSE Print(<<"TRACE_REJECTED at line", d + 1, "of", Len(Rec), Rec[d + 1]>>, FALSE)
StopAt == l # atoi(IOEnv.STOPAT)
=============================================================================
