SPECIFICATION MCSpec
CONSTANTS
  W = 2
  MinChunk = 5
  MaxChunk = 8
  SkipExtra = 1
  ResetCur = TRUE
  Lens = {3, 4, 5, 7, 8}
  Tails = {0, 1, 2, 3, 7}
  MaxChunks = 3
  CallSizes = {0, 1, 2, 3, 9}
  FullProbe = TRUE
INVARIANT MCInvs
CHECK_DEADLOCK FALSE
