SPECIFICATION MCSpec
CONSTANTS
  MinK = 0
  MaxK = 8
  SliceOff = 0
  MaxLeaves = 10
INVARIANT MCInvs
CHECK_DEADLOCK FALSE
