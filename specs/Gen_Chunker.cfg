SPECIFICATION GSpec
CONSTANTS
  W = 64
  MinChunk = 128
  MaxChunk = 256
  SkipExtra = 0
  ResetCur = TRUE
  Lens = {64, 65, 128, 130, 255, 256}
  Tails = {0, 1, 63, 64, 255}
  MaxChunks = 4
  CallSizes = {0, 1, 63, 64, 65, 191, 256, 300}
  FullProbe = FALSE
  MaxCalls = 8
INVARIANT Emit
INVARIANT Invs
CHECK_DEADLOCK FALSE
