SPECIFICATION Spec
CONSTANTS
  Chunks <- MCChunks6
  MaxChunks = 3
  MaxU = 3
  MaxC = 6
  Skip = "none"
INVARIANT Invs
CHECK_DEADLOCK FALSE
