--------------------------- MODULE MC_ShardManager ---------------------------
EXTENDS ShardManager
\* three xorbs over four chunks; the plain hashes of chunks 1 and 2 share their 64-bit prefix
MC_XC == (1 :> <<1, 3>>) @@ (2 :> <<2>>) @@ (3 :> <<4, 1>>)
MC_P0 == (1 :> 1) @@ (2 :> 1) @@ (3 :> 2) @@ (4 :> 3)
\* shards from elsewhere: two keys, a repeated key, and an unkeyed one
MC_Ext == {[id |-> 101, key |-> 1, xorbs |-> {2}], [id |-> 102, key |-> 2, xorbs |-> {1}],
           [id |-> 103, key |-> 1, xorbs |-> {3}], [id |-> 104, key |-> 0, xorbs |-> {1}]}
=============================================================================
