SPECIFICATION Spec
CONSTANTS
  W = 2
  MinChunk = 5
  MaxChunk = 8
  MaxLen = 9
  ShortMatch = FALSE
  ResetHash = TRUE
INVARIANT Invs
CHECK_DEADLOCK FALSE
