---------------------------- MODULE ShardSearch ----------------------------
(***************************************************************************)
(* mdb_shard/src/interpolation_search.rs : search_on_sorted_u64s.           *)
(* A is the sorted key array (entries 1..N; the code pretends entry 0 has   *)
(* key 0 and entry N+1 the maximal key).  The interpolated probe position   *)
(* is floor(fraction * (hi - lo)) with a floating-point fraction in [0,1];  *)
(* the model takes ANY t in 0..(hi-lo), so the result holds whatever the    *)
(* rounding does.  W = READ_WINDOW_SIZE, D = EXPECTED_MAX_NUM_DUPLICATES.   *)
(* found = sequence of entry indices whose value was written to the result  *)
(* buffer (at most Cap).                                                    *)
(***************************************************************************)
EXTENDS Naturals, Sequences, FiniteSets, TLC
CONSTANTS W, D, Cap, Arrays, Keys, Variant

VARIABLES A, key, lo, hi, probe, found, pc, scan
vars == <<A, key, lo, hi, probe, found, pc, scan>>

N == Len(A)
Min(a, b) == IF a < b THEN a ELSE b
Max(a, b) == IF a > b THEN a ELSE b
Clamp(l, h, t) == Min(Max(l + t, l + 1), h - 1)            \* compute_probe_location
Write(f, i) == IF Len(f) < Cap THEN Append(f, i) ELSE f

Init == /\ A \in Arrays /\ key \in Keys
        /\ lo = 0 /\ hi = Len(A) + 1
        /\ \E t \in 0..(Len(A) + 1) : probe = Clamp(0, Len(A) + 1, t)
        /\ found = <<>> /\ pc = "loop" /\ scan = 0

\* indices probe+1 .. hi-1 that hold the key, read ahead until the first different key
RECURSIVE Ahead(_, _)
Ahead(i, h) == IF i >= h \/ A[i] # key THEN <<>> ELSE <<i>> \o Ahead(i + 1, h)
RECURSIVE WriteAll(_, _)
WriteAll(f, is) == IF is = <<>> THEN f ELSE WriteAll(Write(f, Head(is)), Tail(is))

Probe ==
  /\ pc = "loop"
  /\ IF lo + W < hi
       THEN /\ probe >= 1 /\ probe <= N          \* the code reads entry `probe`: it must be a real entry
            /\ IF key < A[probe]
                 THEN /\ hi' = probe
                      /\ \E t \in 0..(probe - lo) :
                           LET cand == Clamp(lo, probe, t) IN
                           probe' = IF cand + W > probe THEN probe - Min(W, probe - (lo + 1)) ELSE cand
                      /\ UNCHANGED <<lo, found>>
                 ELSE IF key = A[probe]
                   THEN /\ found' = WriteAll(Write(found, probe), Ahead(probe + 1, hi))
                        /\ hi' = IF Variant = "equal_keeps_hi" THEN hi ELSE probe
                        /\ probe' = probe - Min(D, probe - (lo + 1))
                        /\ UNCHANGED lo
                   ELSE /\ lo' = probe
                        /\ \E t \in 0..(hi - probe) :
                             LET cand == Clamp(probe, hi, t) IN
                             probe' = IF cand - probe <= W THEN Min(probe + W, hi - 1) ELSE cand
                        /\ UNCHANGED <<hi, found>>
            /\ UNCHANGED <<pc, scan>>
       ELSE /\ pc' = "scan" /\ scan' = lo /\ UNCHANGED <<lo, hi, probe, found>>
  /\ UNCHANGED <<A, key>>

Scan ==
  /\ pc = "scan"
  /\ IF scan + 1 < hi
       THEN LET i == scan + 1 IN
            /\ scan' = i
            /\ IF key < A[i] THEN pc' = "done" /\ UNCHANGED found
               ELSE IF key = A[i] THEN found' = Write(found, i) /\ UNCHANGED pc
               ELSE UNCHANGED <<found, pc>>
       ELSE pc' = "done" /\ UNCHANGED <<scan, found>>
  /\ UNCHANGED <<A, key, lo, hi, probe>>

Next == Probe \/ Scan
Spec == Init /\ [][Next]_vars /\ WF_vars(Next)

Matches == {i \in 1..N : A[i] = key}
FoundSet == {found[j] : j \in 1..Len(found)}
\* every reported entry holds the key, none is reported twice; at the end all are reported (up to the capacity)
Sound == FoundSet \subseteq Matches /\ Cardinality(FoundSet) = Len(found)
Correct == pc = "done" => (IF Cardinality(Matches) <= Cap THEN FoundSet = Matches ELSE Len(found) = Cap)
InBounds == pc = "loop" /\ lo + W < hi => probe > lo /\ probe < hi
Terminates == <>(pc = "done")
=============================================================================
