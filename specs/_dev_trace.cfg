SPECIFICATION TraceSpec
CONSTANTS
  Bug = "none"
  MaxReqs = 1000000
INVARIANT TraceInvs
POSTCONDITION TraceAccepted
CHECK_DEADLOCK FALSE
