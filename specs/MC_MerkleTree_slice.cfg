SPECIFICATION MCSpec
CONSTANTS
  MinK = 2
  MaxK = 8
  SliceOff = 1
  MaxLeaves = 10
INVARIANT MCInvs
CHECK_DEADLOCK FALSE
