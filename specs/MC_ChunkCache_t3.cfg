SPECIFICATION Spec
CONSTANTS
  Threads = {t1, t2, t3}
  Keys = {k1}
  Ranges <- MCRanges2
  Capacity = 3
  FixDrift = TRUE
  WithEnv = FALSE
  FsExact = TRUE
  EarlyVerify = FALSE
  ILen <- MCILen
INVARIANT Invs
CHECK_DEADLOCK FALSE
