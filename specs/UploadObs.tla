------------------------------ MODULE UploadObs ------------------------------
(***************************************************************************)
(* Observation machine of the upload pipeline: what the store, the shard   *)
(* cache and the callers of FileUploadSession / FileDownloader can see.    *)
(* Chunk contents, xorb names, file hashes, verification hashes and        *)
(* SHA-256 values are interned ids (equal bytes <=> equal id); id 0 is the *)
(* zero hash ("unresolved xorb reference").  A xorb IS its chunk-id        *)
(* sequence, a file IS its chunk-id sequence plus salt (content            *)
(* addressing), so "the name equals the recomputed hash" is: the map       *)
(* name -> chunk sequence is a function and injective, and equals the id   *)
(* of the independently recomputed hash.                                   *)
(*                                                                         *)
(* The actions are the externally visible steps; each carries the observed *)
(* values as parameters, and its guards are the clauses of the properties  *)
(* C01, C02, C03, C11, C14, C15, C16 (enabled through the constant P, so   *)
(* that each property is decided on its own).                              *)
(***************************************************************************)
EXTENDS Integers, Sequences, FiniteSets, TLC

CONSTANTS P,            \* the property ids whose clauses are enforced
          Relax,        \* known findings (see known_findings.txt) whose exact case is tolerated
          MaxXorbChunks, MaxXorbBytes, MaxChunk,
          NRanges       \* NRANGES_IN_STREAMING_FRAGMENTATION_ESTIMATOR of the run

VARIABLES clen,      \* [chunk id -> length]
          content,   \* [file -> Seq(chunk id)]
          fsess,     \* [file -> session]
          salt,      \* [session -> salt id]
          status,    \* [session -> "open" | "ok" | "aborted"]
          failed,    \* [session -> BOOLEAN]   some store call of the session failed
          xorbs,     \* [xorb id -> Seq(chunk id)]   every xorb ever handed to the store
          stored,    \* xorb ids the store holds
          sessPut,   \* [session -> set of xorb ids newly stored by it]
          shardOpen, \* [shard id -> [files, cas, nbytes, sess]]  uploads in flight
          recs,      \* [file hash id -> segments] of file records in successfully uploaded shards
          finished,  \* [file -> per-file metrics] of files whose finish returned
          dec,       \* [file -> [new, dedup, prev : sets of positions, pbytes, pchunks : Nat]] decisions so far
          up,        \* [session -> [xorb, shard : Nat]] bytes handed to the store successfully
          ptrs,      \* set of <<content, salt, hash id, size>>
          cache      \* set of <<xorb id, chunk seq>> visible through the local shard cache

vars == <<clen, content, fsess, salt, status, failed, xorbs, stored, sessPut, shardOpen, recs, finished, dec, up, ptrs, cache>>

Chk(p, c) == (p \in P) => c

Init == /\ clen = <<>> /\ content = <<>> /\ fsess = <<>> /\ salt = <<>> /\ status = <<>> /\ failed = <<>>
        /\ xorbs = <<>> /\ stored = {} /\ sessPut = <<>> /\ shardOpen = <<>> /\ recs = <<>> /\ finished = <<>>
        /\ dec = <<>> /\ up = <<>> /\ ptrs = {} /\ cache = {}

Put(f, k, v) == (k :> v) @@ f          \* function update / extension

Ids(cs) == [i \in 1..Len(cs) |-> cs[i][1]]
LensOK(cs) == \A i \in 1..Len(cs) : cs[i][1] >= 1 /\ (cs[i][1] \in DOMAIN clen => clen[cs[i][1]] = cs[i][2])
LenOfNew(cs, c) == cs[CHOOSE i \in 1..Len(cs) : cs[i][1] = c][2]
AddLens(cs) == [c \in (DOMAIN clen) \cup {cs[i][1] : i \in 1..Len(cs)} |->
                   IF c \in DOMAIN clen THEN clen[c] ELSE LenOfNew(cs, c)]

RECURSIVE SumLen(_, _, _)
SumLen(ids, a, b) == IF a > b THEN 0 ELSE clen[ids[a]] + SumLen(ids, a + 1, b)
Bytes(ids) == SumLen(ids, 1, Len(ids))

RECURSIVE SumPos(_, _)
SumPos(ids, ps) == IF ps = {} THEN 0 ELSE LET p == CHOOSE p \in ps : TRUE IN clen[ids[p + 1]] + SumPos(ids, ps \ {p})

SessionStart(s, sl) ==
  /\ s \notin DOMAIN status
  /\ status' = Put(status, s, "open") /\ failed' = Put(failed, s, FALSE) /\ salt' = Put(salt, s, sl)
  /\ sessPut' = Put(sessPut, s, {}) /\ up' = Put(up, s, [xorb |-> 0, shard |-> 0])
  /\ UNCHANGED <<clen, content, fsess, xorbs, stored, shardOpen, recs, finished, dec, ptrs, cache>>

FileStart(s, f, cs) ==
  /\ s \in DOMAIN status /\ f \notin DOMAIN content
  /\ LensOK(cs)
  /\ clen' = AddLens(cs)
  /\ content' = Put(content, f, Ids(cs)) /\ fsess' = Put(fsess, f, s)
  /\ dec' = Put(dec, f, [new |-> {}, dedup |-> {}, prev |-> {}, pbytes |-> 0, pchunks |-> 0, nbytes |-> 0, dbytes |-> 0,
                         pend |-> <<>>,          \* pend: chunk ids of the file's pending (not yet cut) xorb
                         \* the fragmentation estimator (deduplication/src/defrag_prevention.rs) and what it is fed with:
                         \* win = chunk counts of the last NRanges file segments, low = defrag_at_low_threshold,
                         \* last = (xorb, chunk_index_end) of the last file segment (xorb 0 = the pending xorb, -1 = none),
                         \* winPrev / lastPrev = the state before the last "new" decision (a cut revises it)
                         win |-> <<>>, low |-> TRUE, last |-> <<-1, 0>>, winPrev |-> <<>>, lastPrev |-> <<-1, 0>>])
  /\ UNCHANGED <<salt, status, failed, xorbs, stored, sessPut, shardOpen, recs, finished, up, ptrs, cache>>

(* C05: a dedup answer "the first n query hashes are chunks [lo, hi) of X" is truthful.  X is the file's own pending
   xorb (ans.local; its content is what the "new" decisions since the last cut appended) or a xorb named by hash
   (checked when its chunk list is known from an upload of this or an earlier session). *)
Truthful(f, idx, n, ans) ==
  LET X == IF ans.local THEN dec[f].pend ELSE xorbs[ans.x] IN
  (ans.local \/ ans.x \in DOMAIN xorbs) =>
     /\ ans.hi - ans.lo = n /\ ans.hi <= Len(X)
     /\ \A i \in 1..n : X[ans.lo + i] = content[f][idx + i]

(* ---- DefragPrevention: rolling window over the chunk counts of the last NRanges file segments.  A dedup hit that
   does not continue the last segment is rejected iff the window is full, the average chunks per range is below the
   target (8, or 4 while in the "low threshold" state) and the hit is shorter than the average.  C11 / C14 allow data
   to be stored again only for this reason, so every rejection must be one the rule makes and no hit the rule lets
   through may be turned down. ---- *)
RECURSIVE SumSeq(_, _)
SumSeq(w, i) == IF i > Len(w) THEN 0 ELSE w[i] + SumSeq(w, i + 1)
WinFull(w) == Len(w) >= NRanges
\* avg < target  <=>  total < target * len ;  n < avg  <=>  n * len < total   (exact in integers)
Rejects(w, low, n) == /\ WinFull(w)
                      /\ SumSeq(w, 1) < (IF low THEN 4 ELSE 8) * Len(w)
                      /\ n * Len(w) < SumSeq(w, 1)
LowAfter(w, low, n) == IF ~WinFull(w) THEN low
                       ELSE IF SumSeq(w, 1) < (IF low THEN 4 ELSE 8) * Len(w)
                              THEN (IF n * Len(w) < SumSeq(w, 1) THEN FALSE ELSE low)
                              ELSE TRUE
AddRange(w, n) == LET v == Append(w, n) IN IF Len(v) > NRanges THEN SubSeq(v, 2, Len(v)) ELSE v
IncLast(w, n) == IF w = <<>> THEN w ELSE [w EXCEPT ![Len(w)] = @ + n]
Continues(d, ans) == d.last[1] = ans.x /\ d.last[2] = ans.lo /\ d.last[1] # -1

CacheChunks == UNION {{e[2][i] : i \in 1..Len(e[2])} : e \in cache}

(* one classification step of the deduper for chunks [idx, idx+n) of file f *)
Decision(f, kind, idx, n, bytes, ans) ==
  /\ f \in DOMAIN content /\ n >= 1 /\ idx + n <= Len(content[f])
  /\ LET pos == idx..(idx + n - 1)
         b == SumLen(content[f], idx + 1, idx + n) IN
     /\ Chk("C14", bytes = b)
     /\ Chk("C05", kind # "new" => (Truthful(f, idx, n, ans) /\ bytes = b))
     /\ CASE kind = "new" ->
               /\ Chk("C14", pos \cap (dec[f].new \cup dec[f].dedup) = {})
               \* C11, chunk by chunk: a chunk that the user's shard cache held when the session started is stored again
               \* only under a hit that fragmentation prevention rejected (recombined and extended files included)
               /\ Chk("C11", content[f][idx + 1] \in CacheChunks => idx \in dec[f].prev)
               \* a new chunk extends the last segment iff that segment is pending and ends at the pending xorb's end
               /\ LET d == dec[f]
                      ext == d.last[1] = 0 /\ d.last[2] = Len(d.pend) /\ Len(d.pend) > 0
                  IN dec' = [dec EXCEPT ![f].new = @ \cup pos, ![f].nbytes = @ + b, ![f].pend = Append(@, content[f][idx + 1]),
                                        ![f].winPrev = d.win, ![f].lastPrev = d.last,
                                        ![f].win = IF ext THEN IncLast(d.win, 1) ELSE AddRange(d.win, 1),
                                        ![f].last = <<0, Len(d.pend) + 1>>]
          [] kind = "dedup" ->
               /\ Chk("C14", pos \cap (dec[f].new \cup dec[f].dedup) = {})
               /\ LET d == dec[f] cont == Continues(d, ans) IN
                  /\ Chk("C11", cont \/ ~Rejects(d.win, d.low, n))           \* (a hit the rule rejects is not used either)
                  /\ dec' = [dec EXCEPT ![f].dedup = @ \cup pos, ![f].dbytes = @ + b,
                                        ![f].win = IF cont THEN IncLast(d.win, n) ELSE AddRange(d.win, n),
                                        ![f].low = IF cont THEN d.low ELSE LowAfter(d.win, d.low, n),
                                        ![f].last = <<ans.x, ans.hi>>]
          [] kind = "prevented" ->
               /\ LET d == dec[f] IN
                  /\ Chk("C11", ~Continues(d, ans) /\ Rejects(d.win, d.low, n))    \* withheld only when the rule says so
                  /\ dec' = [dec EXCEPT ![f].prev = @ \cup pos, ![f].pbytes = @ + b, ![f].pchunks = @ + n, ![f].low = FALSE]
          [] OTHER -> FALSE
  /\ UNCHANGED <<clen, content, fsess, salt, status, failed, xorbs, stored, sessPut, shardOpen, recs, finished, up, ptrs, cache>>

(* cut_new_xorb while the chunk of the preceding "new" decision is being added: everything before it leaves the
   pending xorb, that chunk becomes its first *)
Cut(f) ==
  /\ f \in DOMAIN dec /\ Len(dec[f].pend) >= 1
  \* the chunk of the preceding "new" decision starts the next pending xorb: it cannot have extended the last segment
  \* (which now carries the name of the xorb that was cut), so the estimator got a new range for it
  /\ dec' = [dec EXCEPT ![f].pend = <<@[Len(@)]>>,
                        ![f].win = AddRange(dec[f].winPrev, 1),
                        ![f].last = <<0, 1>>]
  /\ UNCHANGED <<clen, content, fsess, salt, status, failed, xorbs, stored, sessPut, shardOpen, recs, finished, up, ptrs, cache>>

PutStart(s, x, xref, cs, ok) ==
  /\ s \in DOMAIN status
  /\ LET ids == Ids(cs) IN
     /\ Chk("C02", ok /\ LensOK(cs) /\ \A i \in 1..Len(cs) : cs[i][1] \in DOMAIN clen)
     /\ Chk("C15", /\ Len(cs) >= 1 /\ Len(cs) <= MaxXorbChunks
                   /\ \A i \in 1..Len(cs) : cs[i][2] >= 1 /\ cs[i][2] <= MaxChunk
                   /\ LET RECURSIVE T(_) T(i) == IF i = 0 THEN 0 ELSE cs[i][2] + T(i - 1) IN T(Len(cs)) <= MaxXorbBytes)
     /\ Chk("C02", x = xref /\ x # 0)                       \* name = hash recomputed by the reference
     /\ Chk("C02", x \in DOMAIN xorbs => xorbs[x] = ids)       \* the name determines the chunks ...
     /\ Chk("C02", \A y \in DOMAIN xorbs : xorbs[y] = ids => y = x)   \* ... and the chunks the name
     /\ xorbs' = Put(xorbs, x, ids)
  /\ UNCHANGED <<clen, content, fsess, salt, status, failed, stored, sessPut, shardOpen, recs, finished, dec, up, ptrs, cache>>

PutEnd(s, x, res, ret) ==
  /\ s \in DOMAIN status /\ x \in DOMAIN xorbs
  /\ CASE res = "ok" -> /\ stored' = stored \cup {x}
                        /\ sessPut' = [sessPut EXCEPT ![s] = @ \cup {x}]
                        /\ up' = [up EXCEPT ![s].xorb = @ + ret] /\ UNCHANGED failed
       [] res = "exists" -> /\ stored' = stored \cup {x} /\ up' = [up EXCEPT ![s].xorb = @ + ret]
                            /\ UNCHANGED <<failed, sessPut>>
       [] res = "fail_stored" -> /\ stored' = stored \cup {x} /\ failed' = [failed EXCEPT ![s] = TRUE]
                                 /\ UNCHANGED <<sessPut, up>>
       [] res = "fail" -> failed' = [failed EXCEPT ![s] = TRUE] /\ UNCHANGED <<stored, sessPut, up>>
       [] OTHER -> FALSE
  /\ UNCHANGED <<clen, content, fsess, salt, status, xorbs, shardOpen, recs, finished, dec, ptrs, cache>>

RECURSIVE Flatten(_, _)
Flatten(segs, i) == IF i > Len(segs) THEN <<>>
                    ELSE SubSeq(xorbs[segs[i][1]], segs[i][2] + 1, segs[i][3]) \o Flatten(segs, i + 1)

SegOK(sg) == /\ sg[1] \in DOMAIN xorbs
             /\ sg[2] < sg[3] /\ sg[3] <= Len(xorbs[sg[1]])
             /\ sg[4] = SumLen(xorbs[sg[1]], sg[2] + 1, sg[3])

FileRecOK(r) ==
  /\ Chk("C02", r.f \in DOMAIN content)                      \* the file hash is the reference hash of a cleaned file
  /\ Chk("C15", \A i \in 1..Len(r.segs) : r.segs[i][1] # 0)  \* no unresolved xorb reference
  /\ Chk("C16", \A i \in 1..Len(r.segs) : r.segs[i][1] \in stored)   \* shards follow their xorbs
  /\ Chk("C02", \A i \in 1..Len(r.segs) : SegOK(r.segs[i]))
  /\ Chk("C02", r.verif = r.verif_ref /\ Len(r.verif) = Len(r.segs) /\ r.has_verif /\ r.nseg_hdr = Len(r.segs))
  /\ Chk("C02", r.sha = r.sha_ref /\ r.has_meta)
  /\ Chk("C01", (r.f \in DOMAIN content /\ \A i \in 1..Len(r.segs) : SegOK(r.segs[i]))
                   => Flatten(r.segs, 1) = content[r.f])

ShardStart(s, sh, files, cas, nbytes) ==
  /\ s \in DOMAIN status
  /\ \A i \in 1..Len(files) : FileRecOK(files[i])
  /\ Chk("C02", \A i \in 1..Len(cas) : cas[i].x \in DOMAIN xorbs /\ Ids(cas[i].chunks) = xorbs[cas[i].x])
  /\ shardOpen' = Put(shardOpen, sh, [files |-> files, cas |-> cas, nbytes |-> nbytes, sess |-> s, done |-> "no"])
  /\ UNCHANGED <<clen, content, fsess, salt, status, failed, xorbs, stored, sessPut, recs, finished, dec, up, ptrs, cache>>

ShardEnd(s, sh, res) ==
  /\ sh \in DOMAIN shardOpen
  /\ shardOpen' = [shardOpen EXCEPT ![sh].done = res]
  /\ IF res \in {"ok", "exists"}          \* "exists": the store already has this very shard (another cache uploaded it)
       THEN /\ LET fl == shardOpen[sh].files IN
               recs' = [h \in (DOMAIN recs) \cup {fl[i].fh : i \in 1..Len(fl)} |->
                          IF \E i \in 1..Len(fl) : fl[i].fh = h
                            THEN fl[CHOOSE i \in 1..Len(fl) : fl[i].fh = h].segs
                            ELSE recs[h]]
            /\ up' = [up EXCEPT ![s].shard = @ + shardOpen[sh].nbytes] /\ UNCHANGED failed
       ELSE /\ failed' = [failed EXCEPT ![s] = TRUE] /\ UNCHANGED <<recs, up>>
  /\ UNCHANGED <<clen, content, fsess, salt, status, xorbs, stored, sessPut, finished, dec, ptrs, cache>>


Finish(s, f, hashId, refId, size, nbytes, m) ==
  /\ f \in DOMAIN content /\ fsess[f] = s /\ f \notin DOMAIN finished
  /\ LET ids == content[f] IN
     /\ Chk("C03", hashId = refId /\ size = Bytes(ids) /\ nbytes = Bytes(ids))
     \* the hash is a function of (bytes, salt), and injective: other bytes or another salt give another hash
     \* (known finding "empty-file-salt": the empty file has the zero hash under every salt)
     /\ Chk("C03", \/ ids = <<>> /\ "empty-file-salt" \in Relax /\ \A p \in ptrs : p[1] = ids <=> p[3] = hashId
                   \/ \A p \in ptrs : (p[1] = ids /\ p[2] = salt[s]) <=> p[3] = hashId)
     /\ Chk("C03", \A p \in ptrs : (p[1] = ids /\ p[2] = salt[s]) => p[4] = size)
     /\ Chk("C14", /\ size = Bytes(ids) /\ m.total = Bytes(ids)
                   /\ m.new + m.dedup = m.total /\ m.nc + m.dc = m.tc /\ m.tc = Len(ids)
                   \* (the global-dedup sub-counter is not constrained: it counts the hits found after a global query
                   \* before fragmentation prevention accepts them, so it can exceed m.dedup; C14 does not mention it)
                   /\ dec[f].new \cup dec[f].dedup = 0..(Len(ids) - 1)
                   /\ m.new = dec[f].nbytes /\ m.dedup = dec[f].dbytes
                   /\ m.nc = Cardinality(dec[f].new) /\ m.dc = Cardinality(dec[f].dedup)
                   \* the bytes counted as withheld are exactly the new chunks that a rejected hit covered
                   /\ m.prevented = SumPos(ids, dec[f].prev \cap dec[f].new)
                   /\ m.pc = Cardinality(dec[f].prev \cap dec[f].new))
     /\ Chk("C11", ({ids[i] : i \in 1..Len(ids)} \subseteq CacheChunks /\ m.prevented = 0) => m.new = 0)
     /\ ptrs' = ptrs \cup {<<ids, salt[s], hashId, size>>}
  /\ finished' = Put(finished, f, ("hash" :> hashId) @@ m)
  /\ UNCHANGED <<clen, content, fsess, salt, status, failed, xorbs, stored, sessPut, shardOpen, recs, dec, up, cache>>

(* the top-level API (data_client::upload_async) returns pointers only: hash and size clauses of C03 *)
Pointer(s, f, hashId, refId, size, nbytes) ==
  /\ f \in DOMAIN content /\ fsess[f] = s /\ f \notin DOMAIN finished
  /\ LET ids == content[f] IN
     /\ Chk("C03", hashId = refId /\ size = Bytes(ids) /\ nbytes = Bytes(ids))
     /\ Chk("C03", \/ ids = <<>> /\ "empty-file-salt" \in Relax /\ \A p \in ptrs : p[1] = ids <=> p[3] = hashId
                   \/ \A p \in ptrs : (p[1] = ids /\ p[2] = salt[s]) <=> p[3] = hashId)
     /\ ptrs' = ptrs \cup {<<ids, salt[s], hashId, size>>}
  /\ finished' = Put(finished, f, [hash |-> hashId])
  /\ UNCHANGED <<clen, content, fsess, salt, status, failed, xorbs, stored, sessPut, shardOpen, recs, dec, up, cache>>

FilesOf(s) == {f \in DOMAIN finished : fsess[f] = s}
\* C02, "after a successful session ... every file record in the uploaded shards references existing xorbs": judged when
\* the session reports success, for the shards the store took from it
ShardsRefStored(s) ==
  \A sh \in DOMAIN shardOpen : (shardOpen[sh].sess = s /\ shardOpen[sh].done \in {"ok", "exists"}) =>
     \A i \in 1..Len(shardOpen[sh].files) : \A j \in 1..Len(shardOpen[sh].files[i].segs) :
        shardOpen[sh].files[i].segs[j][1] \in stored
RECURSIVE SumField(_, _)
SumField(fs, fld) == IF fs = {} THEN 0 ELSE LET f == CHOOSE f \in fs : TRUE IN finished[f][fld] + SumField(fs \ {f}, fld)

Finalize(s, m) ==
  /\ s \in DOMAIN status /\ status[s] = "open"
  /\ Chk("C16", ~failed[s])                                     \* a failed upload was reported by no call
  /\ Chk("C16", \A f \in FilesOf(s) : /\ finished[f].hash \in DOMAIN recs
                                        /\ \A i \in 1..Len(recs[finished[f].hash]) : recs[finished[f].hash][i][1] \in stored)
  /\ Chk("C01", \A f \in FilesOf(s) : finished[f].hash \in DOMAIN recs)
  /\ Chk("C02", ShardsRefStored(s))
  /\ Chk("C14", /\ m.total = SumField(FilesOf(s), "total") /\ m.new = SumField(FilesOf(s), "new")
                /\ m.dedup = SumField(FilesOf(s), "dedup") /\ m.prevented = SumField(FilesOf(s), "prevented")
                /\ m.tc = SumField(FilesOf(s), "tc") /\ m.nc = SumField(FilesOf(s), "nc")
                /\ m.dc = SumField(FilesOf(s), "dc") /\ m.pc = SumField(FilesOf(s), "pc")
                /\ m.xorb_bytes = up[s].xorb /\ m.shard_bytes = up[s].shard
                /\ m.uploaded = up[s].xorb + up[s].shard)
  /\ status' = [status EXCEPT ![s] = "ok"]
  /\ UNCHANGED <<clen, content, fsess, salt, failed, xorbs, stored, sessPut, shardOpen, recs, finished, dec, up, ptrs, cache>>

(* finalize_with_file_info: the file records of the session as the call returns them (before Finalize is observed).
   Every file finished in the session has a record, no record is of another file, and each record rebuilds its file. *)
FileInfos(s, files) ==
  /\ s \in DOMAIN status /\ status[s] = "open"
  /\ Chk("C01", {files[i].fh : i \in 1..Len(files)} = {finished[f].hash : f \in FilesOf(s)})
  /\ Chk("C01", \A i \in 1..Len(files) :
                   /\ files[i].f \in DOMAIN content
                   /\ \A j \in 1..Len(files[i].segs) : SegOK(files[i].segs[j])
                   /\ Flatten(files[i].segs, 1) = content[files[i].f])
  /\ Chk("C02", \A i \in 1..Len(files) : files[i].verif = files[i].verif_ref /\ files[i].sha = files[i].sha_ref)
  /\ UNCHANGED vars

(* FileUploadSession::dry_run: the session computes everything and sends nothing; it does not promise that its files
   can be downloaded.  What it leaves behind (its status is not "ok": no clause about stored shards applies) is looked
   at by the sessions that follow it on the same shard cache: they are held to C16 / C01 as always. *)
DryFinalize(s, m) ==
  /\ s \in DOMAIN status /\ status[s] = "open"
  /\ Chk("C14", /\ m.total = SumField(FilesOf(s), "total") /\ m.new = SumField(FilesOf(s), "new")
                /\ m.dedup = SumField(FilesOf(s), "dedup") /\ m.prevented = SumField(FilesOf(s), "prevented")
                /\ m.tc = SumField(FilesOf(s), "tc") /\ m.nc = SumField(FilesOf(s), "nc")
                /\ m.dc = SumField(FilesOf(s), "dc") /\ m.pc = SumField(FilesOf(s), "pc"))
  /\ status' = [status EXCEPT ![s] = "dry"]
  /\ UNCHANGED <<clen, content, fsess, salt, failed, xorbs, stored, sessPut, shardOpen, recs, finished, dec, up, ptrs, cache>>

(* upload_async returned Ok: what Finalize requires of the store, without the metrics (the API does not return them) *)
ApiDone(s) ==
  /\ s \in DOMAIN status /\ status[s] = "open"
  /\ Chk("C16", ~failed[s])
  /\ Chk("C16", \A f \in FilesOf(s) : /\ finished[f].hash \in DOMAIN recs
                                        /\ \A i \in 1..Len(recs[finished[f].hash]) : recs[finished[f].hash][i][1] \in stored)
  /\ Chk("C01", \A f \in FilesOf(s) : finished[f].hash \in DOMAIN recs)
  /\ Chk("C02", ShardsRefStored(s))
  /\ Chk("C01", \A f \in DOMAIN content : fsess[f] = s => f \in DOMAIN finished)       \* one pointer per file
  /\ status' = [status EXCEPT ![s] = "ok"]
  /\ UNCHANGED <<clen, content, fsess, salt, failed, xorbs, stored, sessPut, shardOpen, recs, finished, dec, up, ptrs, cache>>

(* an API call of the session returned an error: only explicable by a failed store call *)
Err(s) ==
  /\ s \in DOMAIN status
  /\ Chk("C16", failed[s])
  /\ UNCHANGED vars

Abort(s) ==
  /\ s \in DOMAIN status /\ status' = [status EXCEPT ![s] = "aborted"]
  /\ UNCHANGED <<clen, content, fsess, salt, failed, xorbs, stored, sessPut, shardOpen, recs, finished, dec, up, ptrs, cache>>

CacheIndex(s, xs) ==
  /\ s \in DOMAIN status
  /\ LET entries == {<<xs[i].x, Ids(xs[i].chunks)>> : i \in 1..Len(xs)} IN
     /\ Chk("C11", status[s] = "ok" => \A x \in sessPut[s] : <<x, xorbs[x]>> \in entries)
     \* the session's shards are in the local cache afterwards, whether the store took them or already had them
     /\ Chk("C11", status[s] = "ok" =>
                     \A sh \in DOMAIN shardOpen : (shardOpen[sh].sess = s /\ shardOpen[sh].done \in {"ok", "exists"}) =>
                        \A i \in 1..Len(shardOpen[sh].cas) : <<shardOpen[sh].cas[i].x, Ids(shardOpen[sh].cas[i].chunks)>> \in entries)
     /\ cache' = entries
  /\ UNCHANGED <<clen, content, fsess, salt, status, failed, xorbs, stored, sessPut, shardOpen, recs, finished, dec, up, ptrs>>

(* a global-dedup query of the session (a chunk eligible by hash, or the first chunk of a file): the store answers
   with a shard only if some xorb it holds contains the chunk; the shard lands in the user's local shard cache *)
GlobalQuery(s, chunk, res) ==
  /\ s \in DOMAIN status
  /\ Chk("C01", res = "hit" => \E x \in stored : \E i \in 1..Len(xorbs[x]) : xorbs[x][i] = chunk)
  /\ UNCHANGED vars

StoreCheck(x, recomputed, seekOk, streamOk, decodes, cs) ==
  /\ Chk("C02", decodes /\ seekOk /\ streamOk /\ recomputed = x)
  /\ Chk("C02", x \in DOMAIN xorbs => Ids(cs) = xorbs[x])
  /\ UNCHANGED vars

Download(f, a, b, out, exp, n, ok) ==
  /\ f \in DOMAIN content
  /\ Chk("C01", ok /\ out = exp /\ n = b - a)
  /\ UNCHANGED vars

(* ---- state invariants (hold by construction of the guards; evaluated on every reached state) ---- *)
TypeOK == /\ stored \subseteq DOMAIN xorbs
          /\ \A s \in DOMAIN sessPut : sessPut[s] \subseteq stored
NamesInjective == \A x, y \in DOMAIN xorbs : xorbs[x] = xorbs[y] => x = y
RecsResolved == \A h \in DOMAIN recs : \A i \in 1..Len(recs[h]) : recs[h][i][1] # 0
ObsInv == TypeOK /\ (("C02" \in P) => NamesInjective) /\ (("C15" \in P) => RecsResolved)
=============================================================================
