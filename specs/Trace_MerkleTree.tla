-------------------------- MODULE Trace_MerkleTree --------------------------
(* Trace validation for C06.  Hashes, byte strings, salts, keys and text     *)
(* forms are interned ids (equal value <=> equal id).  One run (between      *)
(* reset lines) is a family of chunk lists - a base list and variants made   *)
(* on purpose (one hash changed, one length changed, neighbours swapped, an  *)
(* element inserted / dropped / duplicated) - pushed through every code path *)
(* of /repo that computes an aggregate, and through the harness's            *)
(* independent reference implementation (path names starting with "ref").    *)
(*   MtList   declares a list: leaves <<hid, len, cut bit>>                  *)
(*   MtTree   the REAL tree built by MerkleMemDB::merge_to_cas / _to_file,   *)
(*            walked level by level: cut bits of the nodes and group ends    *)
(*   MtRoot   an aggregate hash of a list by one path (kind xorb / file+salt)*)
(*   MtRange  range-verification hash of a sub-list of chunk hashes          *)
(*   MtData   hash of a byte string (one-shot, streaming, reference)         *)
(*   MtText   text / byte forms of a hash decoded again                      *)
(*   MtKeyed  keyed hash of a hash (hmac(key), with_salt(salt))              *)
(*   MtXorb   a xorb serialized with the uploader's hash, judged by both     *)
(*            validators with the right and with a wrong hash                *)
EXTENDS MerkleTree, Json, IOUtils, TLC, TLCExt

Rec == ndJsonDeserialize(IOEnv.TRACE)

VARIABLES l,
          lists,     \* lid -> leaves
          roots,     \* {[kind, salt, lid, id]}
          ranges,    \* {[seq, id]}
          datas,     \* {[did, id]}
          texts,     \* {[form, id, tid]}
          keyed      \* {[fn, h, key, out]}
tvars == <<vars, l, lists, roots, ranges, datas, texts, keyed>>
obs == <<lists, roots, ranges, datas, texts, keyed>>
Idle == UNCHANGED vars
TraceInit == /\ leaves = <<>> /\ level = <<>> /\ depth = 0 /\ l = 2
             /\ lists = <<>> /\ roots = {} /\ ranges = {} /\ datas = {} /\ texts = {} /\ keyed = {}

IsEvent(e) == l <= Len(Rec) /\ Rec[l].ev = e /\ l' = l + 1
R == Rec[l]

TrReset == /\ IsEvent("reset") /\ Idle
           /\ lists' = <<>> /\ roots' = {} /\ ranges' = {} /\ datas' = {} /\ texts' = {} /\ keyed' = {}

HidOf(x) == x[1]
LenOf(x) == x[2]
BitOf(x) == x[3]

\* lists are numbered 1, 2, ... within a run; inside one list the length and the cut bit are functions of the hash
\* (a chunk hash determines the chunk); checked for lists small enough to compare all pairs
TrList == /\ IsEvent("MtList") /\ Idle
          /\ R.lid = Len(lists) + 1
          /\ Len(R.leaves) >= 1
          /\ \A i \in 1..Len(R.leaves) : LenOf(R.leaves[i]) >= 0 /\ BitOf(R.leaves[i]) \in BOOLEAN
          /\ Len(R.leaves) <= 200 =>
                \A i, j \in 1..Len(R.leaves) :
                   HidOf(R.leaves[i]) = HidOf(R.leaves[j]) => R.leaves[i] = R.leaves[j]
          /\ lists' = Append(lists, R.leaves)
          /\ UNCHANGED <<roots, ranges, datas, texts, keyed>>

\* an aggregate of list lid: the same list (as a value) gives the same id by every path, different lists different ids
RootOK(kind, salt, lid, id) ==
  \A r \in roots : (r.kind = kind /\ r.salt = salt) =>
     ((lists[r.lid] = lists[lid]) <=> (r.id = id))
AddRoot(kind, salt, lid, id) == roots' = roots \cup {[kind |-> kind, salt |-> salt, lid |-> lid, id |-> id]}

TrRoot == /\ IsEvent("MtRoot") /\ Idle
          /\ R.lid \in 1..Len(lists)
          /\ R.kind \in {"xorb", "file"}
          /\ RootOK(R.kind, R.salt, R.lid, R.id)
          /\ AddRoot(R.kind, R.salt, R.lid, R.id)
          /\ UNCHANGED <<lists, ranges, datas, texts, keyed>>

\* the real tree: level k lists the cut bits of its nodes and where merge_one_level closed its groups
TrTree ==
  /\ IsEvent("MtTree") /\ Idle
  /\ R.lid \in 1..Len(lists)
  /\ LET lv == lists[R.lid]
         n == Len(R.levels) IN
     /\ (n = 0) = (Len(lv) = 1)                                         \* a single leaf is its own root
     /\ R.leafids = [i \in 1..Len(lv) |-> HidOf(lv[i])]                 \* the tree's leaves, in order, are the list
     /\ R.leaflens = [i \in 1..Len(lv) |-> LenOf(lv[i])]
     /\ n > 0 => R.levels[1].bits = [i \in 1..Len(lv) |-> BitOf(lv[i])]
     /\ \A k \in 1..n :
           /\ GroupsOK(R.levels[k].bits, R.levels[k].ends)              \* = Groups(bits), the grouping is unique
           /\ IF k < n THEN Len(R.levels[k + 1].bits) = Len(R.levels[k].ends)
              ELSE Len(R.levels[k].ends) = 1
           /\ Len(R.levels[k].bits) > 1
     /\ R.total_ok                                                        \* root length = sum of the leaf lengths (64-bit, checked by the recorder)
  /\ RootOK(R.kind, 0, R.lid, R.root)
  /\ AddRoot(R.kind, 0, R.lid, R.root)
  /\ UNCHANGED <<lists, ranges, datas, texts, keyed>>

TrRange == /\ IsEvent("MtRange") /\ Idle
           /\ R.lid \in 1..Len(lists) /\ 0 <= R.a /\ R.a < R.b /\ R.b <= Len(lists[R.lid])
           /\ LET sq == [i \in 1..(R.b - R.a) |-> HidOf(lists[R.lid][R.a + i])] IN
              /\ \A r \in ranges : (r.seq = sq) <=> (r.id = R.id)
              /\ ranges' = ranges \cup {[seq |-> sq, id |-> R.id]}
           /\ UNCHANGED <<lists, roots, datas, texts, keyed>>

TrData == /\ IsEvent("MtData") /\ Idle
          /\ \A d \in datas : (d.did = R.did) <=> (d.id = R.id)
          /\ datas' = datas \cup {[did |-> R.did, id |-> R.id]}
          /\ UNCHANGED <<lists, roots, ranges, texts, keyed>>

\* decode(encode(h)) = h; the text is the one the reference encoder produces; distinct hashes have distinct texts
TrText == /\ IsEvent("MtText") /\ Idle
          /\ R.ok /\ R.back = R.id
          /\ R.tid = R.ref_tid
          /\ \A t \in texts : t.form = R.form => ((t.id = R.id) <=> (t.tid = R.tid))
          /\ texts' = texts \cup {[form |-> R.form, id |-> R.id, tid |-> R.tid]}
          /\ UNCHANGED <<lists, roots, ranges, datas, keyed>>

TrKeyed == /\ IsEvent("MtKeyed") /\ Idle
           /\ \A k \in keyed : k.fn = R.fn => ((k.h = R.h /\ k.key = R.key) <=> (k.out = R.out))
           /\ keyed' = keyed \cup {[fn |-> R.fn, h |-> R.h, key |-> R.key, out |-> R.out]}
           /\ UNCHANGED <<lists, roots, ranges, datas, texts>>

\* the uploader's hash (RawXorbData::from_chunks) is the aggregate of the chunk list; the serialized object carries it;
\* both validators recompute it from the bytes: accept with it, reject with any other hash
TrXorb == /\ IsEvent("MtXorb") /\ Idle
          /\ R.lid \in 1..Len(lists)
          /\ RootOK("xorb", 0, R.lid, R.x)
          /\ R.info = R.x
          /\ R.seek_ok /\ R.stream_ok
          /\ ~R.seek_wrong /\ ~R.stream_wrong
          /\ R.nchunks = Len(lists[R.lid])
          /\ AddRoot("xorb", 0, R.lid, R.x)
          /\ UNCHANGED <<lists, ranges, datas, texts, keyed>>
\* a panic of the code under test is an event no action matches

TraceNext == TrReset \/ TrList \/ TrRoot \/ TrTree \/ TrRange \/ TrData \/ TrText \/ TrKeyed \/ TrXorb
TraceSpec == TraceInit /\ [][TraceNext]_tvars

TraceAccepted ==
  LET d == TLCGet("stats").diameter IN
  IF d = Len(Rec) THEN TRUE
  ELSE Print(<<"TRACE_REJECTED at line", d + 1, "of", Len(Rec), Rec[d + 1]>>, FALSE)

StopAt == l # atoi(IOEnv.STOPAT)
=============================================================================
