SPECIFICATION FairSpec
CONSTANTS
  Callers = {"c1", "c2", "c3"}
  Keys = {"k1", "k2"}
  Outcomes = {"ok", "err", "panic"}
  Vals = {1}
  LazyNotified = FALSE
  MaxCalls = 3
INVARIANT Safety
PROPERTY NoWaitForever
CHECK_DEADLOCK FALSE
