SPECIFICATION Spec
CONSTANTS
  Chunks <- MCChunks5
  MaxChunks = 2
  MaxU = 3
  MaxC = 6
  Skip = "bounds"
INVARIANT Invs
CHECK_DEADLOCK FALSE
