----------------------------- MODULE MerkleTree -----------------------------
(* The aggregation tree behind the xorb hash and the file hash (C06):        *)
(* merkledb/src/internal_methods.rs merge_one_level / merge, with a symbolic *)
(* hash algebra.  A node is [t |-> term, n |-> length, b |-> cut bit]; a     *)
(* leaf term is <<"L", hid>>, a parent term is <<"N", children>> where       *)
(* children lists <<term, length>> of every child in order - exactly what    *)
(* hash_node_sequence prints ("{hash:x} : {len}\n" per child) and hashes.    *)
(* The cut bit of a node is `hash[3] % MEAN_TREE_BRANCHING_FACTOR == 0`; for *)
(* a leaf it is part of the input, for a parent it is a bit of an            *)
(* uninterpreted hash and therefore chosen non-deterministically.            *)
EXTENDS Integers, Sequences, FiniteSets

CONSTANTS MinK,      \* 2: a cut bit closes a group only when it already holds >= MinK nodes
          MaxK,      \* 2 * MEAN_TREE_BRANCHING_FACTOR = 8: a group holding MaxK nodes is closed by the next node
          SliceOff   \* 0 in the code; 1 = parent built from nodes[start..idx) instead of [start..=idx] (negative control)

(* ---- grouping of one level ------------------------------------------------------------------------------- *)
\* merge_one_level closes the group that started at a after node i:
\*   (num_children_so_far >= 2 && hash[3] % 4 == 0) || num_children_so_far >= 8 || idx + 1 == total
\* (written as `... = TRUE` so that TLC evaluates the disjunction as a value and never splits it into sub-actions when
\*  the predicate is used inside a trace action)
Closes(bits, a, i) == ((i - a >= MinK /\ bits[i]) \/ i - a >= MaxK \/ i = Len(bits)) = TRUE

\* constructive: end indices of the groups, left to right
RECURSIVE EndsFrom(_, _, _, _)
EndsFrom(bits, a, i, acc) ==
  IF i > Len(bits) THEN acc
  ELSE IF Closes(bits, a, i) THEN EndsFrom(bits, i + 1, i + 1, Append(acc, i))
       ELSE EndsFrom(bits, a, i + 1, acc)
Ends(bits) == EndsFrom(bits, 1, 1, <<>>)

\* declarative (linear to evaluate, used on recorded trees of any size): `ends` is THE grouping of `bits`
GroupStart(ends, j) == IF j = 1 THEN 1 ELSE ends[j - 1] + 1
GroupsOK(bits, ends) ==
  /\ (Len(bits) = 0) = (Len(ends) = 0)
  /\ Len(ends) > 0 => ends[Len(ends)] = Len(bits)
  /\ \A j \in 1..Len(ends) :
        LET a == GroupStart(ends, j)
            b == ends[j]
        IN /\ a <= b /\ b <= Len(bits)
           /\ Closes(bits, a, b)
           /\ \A i \in a..(b - 1) : ~Closes(bits, a, i)

(* ---- the tree -------------------------------------------------------------------------------------------- *)
VARIABLES leaves,    \* the input: sequence of [h |-> hash id, n |-> length, b |-> cut bit]
          level,     \* nodes of the current level
          depth
vars == <<leaves, level, depth>>

Bits(lv) == [i \in 1..Len(lv) |-> lv[i].b]
RECURSIVE SumLen(_, _, _)
SumLen(lv, a, b) == IF a > b THEN 0 ELSE lv[a].n + SumLen(lv, a + 1, b)

LeafNode(x) == [t |-> <<"L", x.h>>, n |-> x.n, b |-> x.b]
Parent(lv, a, b, bit) ==
  [t |-> <<"N", [j \in 1..((b - SliceOff) - a + 1) |-> <<lv[a + j - 1].t, lv[a + j - 1].n>>]>>,
   n |-> SumLen(lv, a, b), b |-> bit]

Merge ==
  /\ Len(level) > 1
  /\ LET e == Ends(Bits(level)) IN
     \E pb \in [1..Len(e) -> BOOLEAN] :
        level' = [j \in 1..Len(e) |-> Parent(level, GroupStart(e, j), e[j], pb[j])]
  /\ depth' = depth + 1
  /\ UNCHANGED leaves

\* the leaves under a term, in order, as <<hid, length>> pairs (what the root hash commits to)
RECURSIVE InOrderT(_, _)
RECURSIVE InOrderC(_, _)
InOrderT(t, n) == IF t[1] = "L" THEN <<<<t[2], n>>>> ELSE InOrderC(t[2], 1)
InOrderC(ch, j) == IF j > Len(ch) THEN <<>> ELSE InOrderT(ch[j][1], ch[j][2]) \o InOrderC(ch, j + 1)
RECURSIVE InOrderL(_, _)
InOrderL(lv, j) == IF j > Len(lv) THEN <<>> ELSE InOrderT(lv[j].t, lv[j].n) \o InOrderL(lv, j + 1)

(* ---- C06 properties -------------------------------------------------------------------------------------- *)
\* the level (and finally the root) determines the leaf sequence and every length: under an injective H, changing,
\* reordering, inserting or dropping any chunk changes the aggregate hash
InOrderOK == InOrderL(level, 1) = [i \in 1..Len(leaves) |-> <<leaves[i].h, leaves[i].n>>]
LensOK == SumLen(level, 1, Len(level)) = SumLen(leaves, 1, Len(leaves))
\* termination: every level above more than one node is strictly smaller
Shrinks == Len(level) > 1 => Len(Ends(Bits(level))) < Len(level)
\* fan-out: at most MaxK + 1 children; every group but the last has at least MinK + 1
GroupSizes ==
  LET e == Ends(Bits(level)) IN
  \A j \in 1..Len(e) :
     LET sz == e[j] - GroupStart(e, j) + 1 IN
     /\ sz >= 1 /\ sz <= MaxK + 1
     /\ j < Len(e) => sz >= MinK + 1
\* the declarative and the constructive grouping agree, and the grouping is unique
RECURSIVE SortedSeq(_)
SortedSeq(S) == IF S = {} THEN <<>>
                ELSE LET m == CHOOSE x \in S : \A y \in S : x <= y IN <<m>> \o SortedSeq(S \ {m})
GroupingUnique ==
  LET bits == Bits(level) IN
  /\ GroupsOK(bits, Ends(bits))
  /\ \A S \in SUBSET (1..Len(bits)) : GroupsOK(bits, SortedSeq(S)) => SortedSeq(S) = Ends(bits)

Invs == InOrderOK /\ LensOK /\ Shrinks /\ GroupSizes /\ GroupingUnique
=============================================================================
