------------------------------- MODULE ParFor -------------------------------
(***************************************************************************)
(* parutils::tokio_par_for_each (parutils/src/parallel_utils.rs): K worker  *)
(* tasks share a queue index under a mutex; a worker takes the next index   *)
(* (one critical section), runs the closure outside the lock, stores the    *)
(* result at that index (second critical section) and loops; it stops when  *)
(* the queue is exhausted or its closure failed (`?`).  The caller blocks   *)
(* until every worker has stopped and returns the first error, else the     *)
(* result vector.  Used by data_client::upload_async / download_async.      *)
(* Variants (negative controls):                                            *)
(*   "lost_error"  the caller ignores the workers' results                  *)
(*   "racy_index"  index read and increment are two critical sections       *)
(***************************************************************************)
EXTENDS Naturals, FiniteSets
CONSTANTS N, K, Fails, Variant
VARIABLES next,      \* queue index: items 1..next have been taken
          ws,        \* worker -> "idle" | "peek" | "run" | "store" | "dead" | "done"
          wi,        \* worker -> item it holds (0 = none)
          out,       \* item -> "none" | "ok": the result vector
          taken,     \* history: how often each item was handed to the closure
          ret
vars == <<next, ws, wi, out, taken, ret>>
Workers == 1..K
Items == 1..N

Init == /\ next = 0 /\ ws = [w \in Workers |-> "idle"] /\ wi = [w \in Workers |-> 0]
        /\ out = [i \in Items |-> "none"] /\ taken = [i \in Items |-> 0] /\ ret = "none"

Take(w) == /\ ws[w] = "idle" /\ next < N /\ Variant # "racy_index"
           /\ next' = next + 1 /\ wi' = [wi EXCEPT ![w] = next + 1] /\ ws' = [ws EXCEPT ![w] = "run"]
           /\ taken' = [taken EXCEPT ![next + 1] = @ + 1]
           /\ UNCHANGED <<out, ret>>
\* the control: the index is read in one step and incremented in another
Peek(w) == /\ ws[w] = "idle" /\ next < N /\ Variant = "racy_index"
           /\ wi' = [wi EXCEPT ![w] = next + 1] /\ ws' = [ws EXCEPT ![w] = "peek"]
           /\ UNCHANGED <<next, out, taken, ret>>
Bump(w) == /\ ws[w] = "peek"
           /\ next' = next + 1 /\ ws' = [ws EXCEPT ![w] = "run"]
           /\ taken' = [taken EXCEPT ![wi[w]] = @ + 1]
           /\ UNCHANGED <<wi, out, ret>>
Exit(w) == /\ ws[w] = "idle" /\ next >= N
           /\ ws' = [ws EXCEPT ![w] = "done"] /\ UNCHANGED <<next, wi, out, taken, ret>>
EndOk(w) == /\ ws[w] = "run" /\ wi[w] \notin Fails
            /\ ws' = [ws EXCEPT ![w] = "store"] /\ UNCHANGED <<next, wi, out, taken, ret>>
Store(w) == /\ ws[w] = "store"
            /\ out' = [out EXCEPT ![wi[w]] = "ok"] /\ ws' = [ws EXCEPT ![w] = "idle"] /\ wi' = [wi EXCEPT ![w] = 0]
            /\ UNCHANGED <<next, taken, ret>>
EndErr(w) == /\ ws[w] = "run" /\ wi[w] \in Fails
             /\ ws' = [ws EXCEPT ![w] = "dead"] /\ UNCHANGED <<next, wi, out, taken, ret>>
Return == /\ ret = "none" /\ \A w \in Workers : ws[w] \in {"done", "dead"}
          /\ ret' = IF (\E w \in Workers : ws[w] = "dead") /\ Variant # "lost_error" THEN "err" ELSE "ok"
          /\ UNCHANGED <<next, ws, wi, out, taken>>
Next == (\E w \in Workers : Take(w) \/ Peek(w) \/ Bump(w) \/ Exit(w) \/ EndOk(w) \/ Store(w) \/ EndErr(w)) \/ Return
Spec == Init /\ [][Next]_vars /\ WF_vars(Next)

(* ---- properties ---- *)
Bounded == Cardinality({w \in Workers : ws[w] \in {"run", "store"}}) <= K
AtMostOnce == \A i \in Items : taken[i] <= 1
OkMeansAll == ret = "ok" => \A i \in Items : out[i] = "ok"
ErrorPropagates == ret # "none" => (ret = "err" <=> \E w \in Workers : ws[w] = "dead")
Invs == Bounded /\ AtMostOnce /\ OkMeansAll /\ ErrorPropagates
Terminates == <>(ret # "none")

(* ---- the algorithm implements the observable behaviour ---- *)
Obs == INSTANCE ParForObs WITH
         n <- N, fails <- Fails,
         started <- {i \in Items : taken[i] > 0},
         running <- {wi[w] : w \in {v \in Workers : ws[v] = "run"}},
         done <- {i \in Items : out[i] = "ok"} \cup {wi[w] : w \in {v \in Workers : ws[v] = "store"}},
         failed <- {wi[w] : w \in {v \in Workers : ws[v] = "dead"}},
         ret <- ret
Implements == Obs!OSpec
=============================================================================
