----------------------------- MODULE Gen_Xorb -----------------------------
(* Scenario generation for C08: every (xorb, scheme choice, footer form,     *)
(* single mutation) of the bounded model, with the hash kinds that can be    *)
(* claimed for it.  The harness concretises each with its independent        *)
(* encoder and records what the validators and footer parsers of the code    *)
(* make of it; Trace_Xorb compares that with the model's verdicts.           *)
EXTENDS MC_Xorb, Json, TLCExt
VARIABLE g
gvars == <<vars, g>>
GInit == Init /\ g = [x |-> <<>>, pick |-> <<>>, form |-> "none"]
GNext ==
  \/ /\ phase = "idle"
     /\ \E x \in Xorbs : \E p \in Picks(x) : \E form \in Forms :
          Build(x, p, form) /\ g' = [x |-> Ids(x), pick |-> p, form |-> form]
  \/ DoMutate /\ UNCHANGED g
GSpec == GInit /\ [][GNext]_gvars
Emit == phase \in {"built", "mutated"} =>
          PrintT(<<"SCN", ToJson([x |-> g.x, pick |-> g.pick, form |-> g.form, m |-> mut,
                                  hks |-> {hk \in HKinds : HDefined(hk)}])>>)
=============================================================================
