----------------------------- MODULE Gen_Upload -----------------------------
(* Scenario generation for the upload replay: a behaviour of Upload yields     *)
(*   - each file's chunk-id sequence (its final `fed`) and the partition of    *)
(*     the feed into add_data calls (one call per looked-up run),              *)
(*   - the order in which the cleaners take their steps,                       *)
(*   - the fault plan: which put (in start order) fails, which completes only  *)
(*     at finalize, whether the shard upload fails.                            *)
(* The scenario is preceded in the harness by a session that stores PreXorbs.  *)
EXTENDS MC_Upload, Json, TLCExt

VARIABLES parts, order, putOrder, putPlan, shardFail
gvars == <<vars, parts, order, putOrder, putPlan, shardFail>>

GInit == /\ Init /\ parts = [f \in Files |-> <<>>] /\ order = <<>> /\ putOrder = <<>>
         /\ putPlan = <<>> /\ shardFail = FALSE

NewPuts == LET S == started' \ started IN IF S = {} THEN <<>> ELSE <<CHOOSE x \in S : TRUE>>
Track == putOrder' = putOrder \o NewPuts

\* a step of file f that consumes n fresh chunks of the feed (0: it works on withheld chunks)
FStep(f, A, n) == /\ A /\ Track
                  /\ parts' = IF n > 0 THEN [parts EXCEPT ![f] = Append(@, n)] ELSE parts
                  /\ order' = IF n > 0 THEN Append(order, f) ELSE order
                  /\ UNCHANGED <<putPlan, shardFail>>

GNext ==
  \/ \E f \in Files :
       \/ \E q \in Runs : Len(fed[f]) + Len(q) <= MaxFileLen /\ CanProcess(f) /\ FStep(f, GlobalHit(f, q), Len(q))
       \/ \E q \in Runs : Len(fed[f]) + Len(q) <= MaxFileLen /\ CanProcess(f) /\ FStep(f, GlobalReject(f, q), Len(q))
       \/ \E q \in Runs : Len(fed[f]) + Len(q) <= MaxFileLen /\ CanProcess(f)
                            /\ FStep(f, LocalHit(f, q), IF pend[f] = <<>> THEN Len(q) ELSE 0)
       \/ \E c \in ChunkIds : Len(fed[f]) + 1 <= MaxFileLen /\ CanProcess(f)
                            /\ FStep(f, New(f, c, pend[f] # <<>>), IF pend[f] = <<>> THEN 1 ELSE 0)
       \/ /\ Finish(f) /\ Track /\ order' = Append(order, f)
          /\ UNCHANGED <<parts, putPlan, shardFail>>
  \/ \E x \in inflight : \E ok \in BOOLEAN :
       /\ PutEnd(x, ok)
       /\ putPlan' = Append(putPlan, [x |-> x, ok |-> ok, late |-> (phase = "finalizing")])
       /\ UNCHANGED <<parts, order, putOrder, shardFail>>
  \/ FinalAgg /\ Track /\ UNCHANGED <<parts, order, putPlan, shardFail>>
  \/ \E ok \in BOOLEAN : FinalJoin(ok) /\ shardFail' = ~ok /\ UNCHANGED <<parts, order, putOrder, putPlan>>
GSpec == GInit /\ [][GNext]_gvars

IdOf(c) == CASE c = "a" -> 1 [] c = "b" -> 2 [] c = "c" -> 3 [] OTHER -> 4
FileIdx(f) == CASE f = "f1" -> 0 [] f = "f2" -> 1 [] OTHER -> 2
PutIdx(x) == (CHOOSE i \in 1..Len(putOrder) : putOrder[i] = x) - 1
Scenario ==
  [files |-> [f \in Files |-> [chunks |-> [i \in 1..Len(fed[f]) |-> IdOf(fed[f][i])], parts |-> parts[f]]],
   order |-> [i \in 1..Len(order) |-> FileIdx(order[i])],
   puts |-> [i \in 1..Len(putPlan) |-> [k |-> PutIdx(putPlan[i].x), ok |-> putPlan[i].ok, late |-> putPlan[i].late]],
   shard_fail |-> shardFail]
Emit == phase \in {"ok", "err"} => PrintT(<<"SCN", ToJson(Scenario)>>)
=============================================================================
